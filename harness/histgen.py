"""API-history generator, NumPy shadow, real-API runner, shrinker and defect classifier for C10.

A *history* is a list of steps (dicts) over a pool of arrays addressed by labels:

  {"op":"input","kind":"asarray"|"zarr"|"from_array","k":k,"id":L}      new source array (k-th NumPy input)
  {"op":"from_zarr","t":t,"id":L}                                       from_zarr(path of target t)
  {"op":"map","fn":f,"srcs":[L,..],"id":L}                              cubed.map_blocks(F_f, *srcs)
  {"op":"rechunk","src":L,"id":L}                                       L.rechunk(other chunking)
  {"op":"compute","arrs":[L,..],"opt":b,"resume":b,"api":"method"|"function","executor":None|name}
  {"op":"store","pairs":[[L,t],..],"eager":b,"opt":b,"api":"to_zarr"|"store","ids":[L|None,..]}
  {"op":"noop","what":"plan"|"visualize"|"config","arr":L|None,"value":..}

Functions are F_f(x0,x1,..) = (f+1) + sum((i+2)*x_i): strictly increasing in every argument, so a read of
fill values (0) instead of the (positive) data always shows.  Every label creates exactly one pool slot
in step order; positions are what the Lean driver and the location labels use.
"""
from __future__ import annotations

import copy
import logging
import os
import shutil
import tempfile

SHAPE = (2, 4)
CHUNKS = {"A": (1, 2), "B": (2, 2)}
LAZY_KINDS = ("from_array", "map", "rechunk", "store")


# ------------------------------------------------------------------------------------------------
# static information about a history
# ------------------------------------------------------------------------------------------------

def labels_info(hist):
    """label -> dict(pos, lazy, chunks, step) in creation order.  `pos` is the pool position in the model, where
    the hidden helper arrays of from_array (empty, block_ids) and rechunk (block_ids) occupy slots too."""
    info = {}
    pos = 0
    tchunks = {}
    for j, st in enumerate(hist):
        op = st["op"]
        if op == "input":
            if st["kind"] == "from_array":
                pos += 2
            info[st["id"]] = dict(pos=pos, lazy=st["kind"] == "from_array", chunks="A", step=j)
            pos += 1
        elif op == "from_zarr":
            info[st["id"]] = dict(pos=pos, lazy=False, chunks=tchunks.get(st["t"], "A"), step=j)
            pos += 1
        elif op == "map":
            info[st["id"]] = dict(pos=pos, lazy=True, chunks=info[st["srcs"][0]]["chunks"], step=j)
            pos += 1
        elif op == "rechunk":
            c = info[st["src"]]["chunks"]
            pos += 1
            info[st["id"]] = dict(pos=pos, lazy=True, chunks="B" if c == "A" else "A", step=j)
            pos += 1
        elif op == "store":
            for (L, t), nid in zip(st["pairs"], st["ids"]):
                tchunks[t] = info[L]["chunks"]
                if not info[L]["lazy"]:
                    info[nid] = dict(pos=pos, lazy=True, chunks=info[L]["chunks"], step=j)
                    pos += 1
    return info


def valid(hist):
    """Every reference points to an earlier label, stores use fresh targets, lists non-empty."""
    seen, targets, hidden = set(), set(), set()
    lazy = {}
    for st in hist:
        op = st["op"]
        if op == "input":
            seen.add(st["id"]); lazy[st["id"]] = st["kind"] == "from_array"
        elif op == "from_zarr":
            if st["t"] not in targets:
                return False
            seen.add(st["id"]); lazy[st["id"]] = False
        elif op == "map":
            if not st["srcs"] or any(s not in seen or s in hidden for s in st["srcs"]):
                return False
            seen.add(st["id"]); lazy[st["id"]] = True
        elif op == "rechunk":
            if st["src"] not in seen or st["src"] in hidden:
                return False
            seen.add(st["id"]); lazy[st["id"]] = True
        elif op == "compute":
            if not st["arrs"] or any(a not in seen or a in hidden for a in st["arrs"]):
                return False
        elif op == "store":
            if not st["pairs"] or len(st["pairs"]) != len(st["ids"]):
                return False
            for (L, t), nid in zip(st["pairs"], st["ids"]):
                if L not in seen or L in hidden or t in targets:
                    return False
                targets.add(t)
                if not lazy[L]:
                    if nid is None:
                        return False
                    seen.add(nid); lazy[nid] = True
                    if st["eager"]:
                        hidden.add(nid)
        elif op == "noop":
            if st.get("arr") is not None and (st["arr"] not in seen or st["arr"] in hidden):
                return False
    return True


def triggers(hist):
    """The two call patterns of the known defect, recognised syntactically (independent of Lean):
    'late'  : store/to_zarr of a lazy array after another array was derived from it;
    'twice' : store/to_zarr of a lazy array that an earlier store/to_zarr (pair) already re-targeted.
    Returns a list of (step index, kind, label)."""
    info = labels_info(hist)
    dependants, retargeted, out = set(), set(), []
    for j, st in enumerate(hist):
        if st["op"] == "map":
            dependants.update(st["srcs"])
        elif st["op"] == "rechunk":
            dependants.add(st["src"])
        elif st["op"] == "store":
            for (L, t) in st["pairs"]:
                if info[L]["lazy"]:
                    if L in dependants:
                        out.append((j, "late", L))
                    if L in retargeted:
                        out.append((j, "twice", L))
                    retargeted.add(L)
    return out


def to_request(hist):
    """(driver request line, field index of each step's answer) for a history (labels -> pool positions)."""
    info = labels_info(hist)
    P = lambda L: str(info[L]["pos"])
    b = lambda x: "1" if x else "0"
    parts, where = [], []
    for st in hist:
        op = st["op"]
        if op == "input":
            if st["kind"] == "asarray":
                parts.append("I:1:%d" % st["k"])
            elif st["kind"] == "zarr":
                parts.append("I:0:%d" % st["k"])
            else:  # from_array = map_blocks over two hidden virtual arrays (empty, block_ids)
                p = info[st["id"]]["pos"]
                parts += ["I:1:0", "I:1:0", "D:%d:%d,%d:1:1" % (1000 + st["k"], p - 2, p - 1)]
        elif op == "from_zarr":
            parts.append("Z:%d" % st["t"])
        elif op == "map":
            parts.append("D:%d:%s:1:1" % (st["fn"], ",".join(P(s) for s in st["srcs"])))
        elif op == "rechunk":   # one op over the source and a hidden block_ids array; fusable in neither direction
            p = info[st["id"]]["pos"]
            parts += ["I:1:0", "D:0:%s,%d:0:0" % (P(st["src"]), p - 1)]
        elif op == "compute":
            parts.append("C:%s:%s:%s" % (",".join(P(a) for a in st["arrs"]), b(st["opt"]), b(st["resume"])))
        elif op == "store":
            parts.append("S:%s:%s:%s" % (",".join("%s=%d" % (P(L), t) for L, t in st["pairs"]), b(st["eager"]), b(st["opt"])))
        else:
            parts.append("N")
        where.append(len(parts) - 1)
    return "hist|" + ";".join(parts), where


# ------------------------------------------------------------------------------------------------
# generator
# ------------------------------------------------------------------------------------------------

def gen_history(rng, length, unsafe=False):
    """Random history.  unsafe=False: never stores a lazy array that already has dependants or was already
    re-targeted (the hypothesis of C10_partial); unsafe=True: any array may be stored at any time."""
    hist = []
    nid = [0]
    nk = [0]
    nt = [0]
    pool = {}          # label -> dict(lazy, chunks, handle, deps, ret, depth)
    written = []       # targets known to hold data

    def new_label():
        nid[0] += 1
        return nid[0]

    def add_input():
        kind = rng.choice(["asarray", "asarray", "zarr", "from_array"])
        L = new_label()
        hist.append({"op": "input", "kind": kind, "k": nk[0], "id": L})
        nk[0] += 1
        pool[L] = dict(lazy=kind == "from_array", chunks="A", handle=True, deps=0, ret=0, depth=0, target=None)

    def handles(pred=lambda p: True):
        return [L for L, p in pool.items() if p["handle"] and pred(p)]

    computed = []      # lazy arrays that some compute / eager store has requested

    def ancestors(L):
        """lazy ancestors of L that the user holds"""
        out, todo = [], list(pool[L].get("srcs", []))
        while todo:
            x = todo.pop()
            if x in out:
                continue
            if pool[x]["lazy"] and pool[x]["handle"]:
                out.append(x)
            todo.extend(pool[x].get("srcs", []))
        return out

    for _ in range(rng.randint(1, 3)):
        add_input()

    while len(hist) < length:
        r = rng.random()
        if r < 0.30:      # derive
            cls = rng.choice(["A", "A", "B"]) if handles(lambda p: p["chunks"] == "B") else "A"
            cands = handles(lambda p: p["chunks"] == cls and p["depth"] < 7)
            if not cands:
                continue
            n = rng.choice([1, 1, 2, 2, 3])
            # prefer recent arrays so that chains and diamonds appear
            srcs = [rng.choice(cands[-4:] if rng.random() < 0.6 else cands) for _ in range(n)]
            L = new_label()
            hist.append({"op": "map", "fn": rng.randint(1, 9), "srcs": srcs, "id": L})
            for s in srcs:
                pool[s]["deps"] += 1
            pool[L] = dict(lazy=True, chunks=cls, handle=True, deps=0, ret=0, depth=1 + max(pool[s]["depth"] for s in srcs), target=None,
                           srcs=list(srcs))
        elif r < 0.35:    # rechunk
            cands = handles(lambda p: p["depth"] < 7)
            s = rng.choice(cands)
            L = new_label()
            hist.append({"op": "rechunk", "src": s, "id": L})
            pool[s]["deps"] += 1
            pool[L] = dict(lazy=True, chunks="B" if pool[s]["chunks"] == "A" else "A", handle=True, deps=0, ret=0,
                           depth=pool[s]["depth"] + 1, target=None, srcs=[s])
        elif r < 0.62:    # compute
            cands = handles()
            n = rng.choice([1, 1, 1, 2, 3])
            arrs = [rng.choice(cands[-5:] if rng.random() < 0.5 else cands) for _ in range(n)]
            resume = rng.random() < 0.25
            # resume over shared sub-graphs: an array computed earlier (its ancestors possibly fused away and never
            # written, or written by an unoptimized compute) requested again *together with* some of its ancestors
            done = [L for L in computed if pool[L]["handle"] and ancestors(L)]
            if done and rng.random() < 0.35:
                X = rng.choice(done)
                anc = ancestors(X)
                arrs = rng.sample(anc, min(len(anc), rng.choice([1, 1, 2])))
                if rng.random() < 0.85:
                    arrs.append(X)
                if rng.random() < 0.3:
                    arrs.append(rng.choice(cands))
                rng.shuffle(arrs)
                n = len(arrs)
                resume = rng.random() < 0.9
            if done and rng.random() < 0.30 and len(hist) + 2 <= length + 2:
                # compute a subset earlier, derive a sibling from a shared intermediate, compute with resume
                X = rng.choice(done)
                A = rng.choice(ancestors(X))
                if pool[A]["depth"] < 7:
                    others = [L for L in handles(lambda p: p["chunks"] == pool[A]["chunks"] and p["depth"] < 7)]
                    ssrcs = [A] + ([rng.choice(others)] if others and rng.random() < 0.3 else [])
                    rng.shuffle(ssrcs)
                    S = new_label()
                    hist.append({"op": "map", "fn": rng.randint(1, 9), "srcs": ssrcs, "id": S})
                    for q in ssrcs:
                        pool[q]["deps"] += 1
                    pool[S] = dict(lazy=True, chunks=pool[A]["chunks"], handle=True, deps=0, ret=0,
                                   depth=1 + max(pool[q]["depth"] for q in ssrcs), target=None, srcs=list(ssrcs))
                    arrs = [S]
                    if pool[X]["chunks"] == pool[S]["chunks"] and pool[X]["depth"] < 7 and rng.random() < 0.35:
                        D = new_label()     # a combination of the old and the new branch
                        hist.append({"op": "map", "fn": rng.randint(1, 9), "srcs": [X, S], "id": D})
                        pool[X]["deps"] += 1
                        pool[S]["deps"] += 1
                        pool[D] = dict(lazy=True, chunks=pool[S]["chunks"], handle=True, deps=0, ret=0,
                                       depth=1 + max(pool[X]["depth"], pool[S]["depth"]), target=None, srcs=[X, S])
                        arrs = [D] if rng.random() < 0.6 else [D, S]
                    elif rng.random() < 0.75:
                        arrs.append(X)
                    rng.shuffle(arrs)
                    n = len(arrs)
                    resume = rng.random() < 0.9
            st = {"op": "compute", "arrs": arrs, "opt": rng.random() < 0.7, "resume": resume,
                  "api": "method" if n == 1 and rng.random() < 0.6 else "function",
                  "executor": rng.choice([None, None, "single-threaded", "threads"])}
            hist.append(st)
            for a in arrs:
                if pool[a]["lazy"] and a not in computed:
                    computed.append(a)
            for a in arrs:
                if pool[a]["target"] is not None and pool[a]["target"] not in written:
                    written.append(pool[a]["target"])
        elif r < 0.80:    # store / to_zarr
            if unsafe:
                cands = handles()
            else:
                cands = handles(lambda p: not p["lazy"] or (p["deps"] == 0 and p["ret"] == 0))
            if not cands:
                continue
            n = rng.choice([1, 1, 1, 2])
            if unsafe:
                srcs = [rng.choice(cands) for _ in range(n)]
                if n == 2 and rng.random() < 0.3:
                    srcs[1] = srcs[0]
            else:
                srcs = rng.sample(cands, min(n, len(cands)))
            eager = rng.random() < 0.6
            api = "to_zarr" if len(srcs) == 1 and rng.random() < 0.6 else "store"
            pairs, ids = [], []
            for s in srcs:
                t = nt[0]
                nt[0] += 1
                pairs.append([s, t])
                if pool[s]["lazy"]:
                    ids.append(None)
                    pool[s]["ret"] += 1
                    pool[s]["target"] = t
                else:
                    L = new_label()
                    ids.append(L)
                    pool[s]["deps"] += 1
                    pool[L] = dict(lazy=True, chunks=pool[s]["chunks"], handle=not eager, deps=0, ret=0,
                                   depth=pool[s]["depth"] + 1, target=t, srcs=[s])
                if eager:
                    written.append(t)
                    if pool[s]["lazy"] and s not in computed:
                        computed.append(s)
            hist.append({"op": "store", "pairs": pairs, "eager": eager, "opt": rng.random() < 0.8, "api": api, "ids": ids})
        elif r < 0.87:    # from_zarr of an earlier target
            cands = list(range(nt[0])) if (unsafe and rng.random() < 0.3) else written
            if not cands:
                continue
            t = rng.choice(cands)
            L = new_label()
            hist.append({"op": "from_zarr", "t": t, "id": L})
            src = [p for p in pool.values() if p["target"] == t]
            pool[L] = dict(lazy=False, chunks=src[0]["chunks"] if src else "A", handle=True, deps=0, ret=0,
                           depth=src[0]["depth"] if src else 0, target=None)
        elif r < 0.94:    # plan / visualize / config change
            what = rng.choice(["plan", "visualize", "config", "config"])
            if what == "config":
                hist.append({"op": "noop", "what": "config", "arr": None, "value": rng.choice([None, "single-threaded", "threads"])})
            else:
                hist.append({"op": "noop", "what": what, "arr": rng.choice(handles()), "value": rng.random() < 0.7})
        else:
            if nk[0] < 5:
                add_input()
    assert valid(hist), hist
    return hist


def _chain(kind, fns, extra=()):
    """input 1, then array i+2 = F_fns[i](array i+1)"""
    h = [{"op": "input", "kind": kind, "k": 0, "id": 1}]
    for i, f in enumerate(fns):
        h.append({"op": "map", "fn": f, "srcs": [i + 1], "id": i + 2})
    return h + list(extra)


def _C(arrs, opt=True, resume=False, api=None, executor=None):
    return {"op": "compute", "arrs": list(arrs), "opt": opt, "resume": resume,
            "api": api or ("method" if len(arrs) == 1 else "function"), "executor": executor}


# Resume over shared sub-graphs (all satisfy the hypothesis of C10_partial): a descendant is computed first, so
# that its ancestors are fused away and never written (or written, when unoptimized); then the ancestors are
# requested, with resume=True, together with the complete descendant / alone / with unrelated arrays.
RESUME_CORPUS = [
    # b = F(a); c = F(b); c.compute(); compute(b, c, resume=True)
    _chain("asarray", [1, 2], [_C([3]), _C([2, 3], resume=True)]),
    _chain("asarray", [1, 2], [_C([3]), _C([3, 2], opt=False, resume=True)]),
    _chain("zarr", [1, 2], [_C([3]), _C([2], resume=True), _C([2, 3], resume=True)]),
    _chain("from_array", [3, 4], [_C([3]), _C([1, 2, 3], resume=True), _C([2], opt=False)]),
    # longer chain, several resume computes, optimize toggled between them
    _chain("asarray", [1, 2, 3], [_C([4]), _C([2, 4], resume=True), _C([3, 2, 4], opt=False, resume=True), _C([3], resume=True)]),
    _chain("asarray", [1, 2, 3], [_C([4], opt=False), _C([2, 3, 4], resume=True), _C([3, 4], opt=True, resume=True)]),
    _chain("asarray", [5, 6, 7], [_C([3]), _C([4]), _C([2, 3, 4], resume=True, executor="threads")]),
    # with an unrelated array that still needs computing
    _chain("asarray", [1, 2], [{"op": "map", "fn": 9, "srcs": [1], "id": 4}, _C([3]), _C([2, 3, 4], opt=False, resume=True),
                               _C([4, 2], resume=True)]),
    # diamond: d = F(b, c), c = F(b)
    _chain("asarray", [1, 2], [{"op": "map", "fn": 4, "srcs": [2, 3], "id": 4}, _C([4]), _C([2, 3, 4], resume=True),
                               _C([3, 2], opt=False, resume=True)]),
    # the descendant was materialised by an eager store, the ancestor is asked for afterwards
    _chain("asarray", [1, 2], [{"op": "store", "pairs": [[3, 0]], "eager": True, "opt": True, "api": "to_zarr", "ids": [None]},
                               _C([2, 3], resume=True), _C([2], resume=True)]),
    # ancestor written by an unoptimized compute, then a new descendant, then everything with resume
    _chain("asarray", [1, 2], [_C([3], opt=False), {"op": "map", "fn": 3, "srcs": [3], "id": 4}, _C([4]),
                               _C([2, 3, 4], resume=True), _C([4, 3], opt=False, resume=True)]),
    # rechunk in the middle (never fused): r = rechunk(b); c = F(r)
    [{"op": "input", "kind": "asarray", "k": 0, "id": 1}, {"op": "map", "fn": 1, "srcs": [1], "id": 2},
     {"op": "rechunk", "src": 2, "id": 3}, {"op": "map", "fn": 2, "srcs": [3], "id": 4},
     _C([4]), _C([2, 4], resume=True), _C([3, 2, 4], resume=True)],
]

def _M(fn, srcs, id):
    return {"op": "map", "fn": fn, "srcs": list(srcs), "id": id}


# Resume on a *branching* graph: one branch is computed first with optimize on (the shared intermediate is fused
# away and never stored), then a sibling is derived from the shared intermediate and both branches / a combination
# are computed with resume=True; optimize on and off, single-threaded and threads.  1 = x, 2 = a = F(x), 3 = b = F(a),
# 4 = c = F(a) (sibling), 5 = d = F(b, c).
BRANCH_CORPUS = [
    _chain("asarray", [1, 2], [_C([3]), _M(3, [2], 4), _C([3, 4], resume=True, executor=ex, opt=opt)])
    for ex in ("single-threaded", "threads") for opt in (True, False)
] + [
    _chain("asarray", [1, 2], [_C([3]), _M(3, [2], 4), _C([4, 3], resume=True), _C([4], opt=False)]),
    _chain("asarray", [1, 2], [_C([3]), _M(3, [2], 4), _C([4], resume=True, opt=False), _C([4, 2, 3], resume=True)]),
    _chain("asarray", [1, 2], [_C([3]), _M(3, [2], 4), _M(4, [3, 4], 5), _C([5], opt=False, resume=True, executor="threads")]),
    _chain("asarray", [1, 2], [_C([3]), _M(3, [2], 4), _M(4, [3, 4], 5), _C([5], opt=True, resume=True, executor="single-threaded")]),
    _chain("asarray", [1, 2], [_C([3]), _M(3, [2], 4), _C([3, 4], resume=True), _M(4, [3, 4], 5),
                               _C([5], opt=False, resume=True), _C([5, 4, 3], resume=True, executor="threads")]),
    _chain("zarr", [1, 2], [_C([3]), _M(3, [2, 1], 4), _C([3, 4], resume=True, opt=False, executor="threads")]),
    _chain("from_array", [1, 2], [_C([3]), _M(3, [2, 2], 4), _M(5, [4], 5), _C([3, 5], resume=True),
                                  _C([5, 4], resume=True, opt=False)]),
    # deeper shared chain: 2 -> 3 -> 4 computed; sibling from 2 and from 3
    _chain("asarray", [1, 2, 3], [_C([4]), _M(5, [2], 5), _M(6, [3], 6), _C([4, 5, 6], resume=True),
                                  _C([6, 5], resume=True, opt=False, executor="threads")]),
    # the first branch materialised by an eager store instead of compute
    _chain("asarray", [1, 2], [{"op": "store", "pairs": [[3, 0]], "eager": True, "opt": True, "api": "to_zarr", "ids": [None]},
                               _M(3, [2], 4), _C([3, 4], resume=True), _C([4, 3], resume=True, opt=False)]),
]

WITNESS_LATE = [
    {"op": "input", "kind": "asarray", "k": 0, "id": 1},
    {"op": "map", "fn": 1, "srcs": [1], "id": 2},
    {"op": "map", "fn": 2, "srcs": [2], "id": 3},
    {"op": "store", "pairs": [[2, 0]], "eager": True, "opt": True, "api": "to_zarr", "ids": [None]},
    {"op": "compute", "arrs": [3], "opt": True, "resume": False, "api": "method", "executor": None},
]

WITNESS_TWICE = [
    {"op": "input", "kind": "asarray", "k": 0, "id": 1},
    {"op": "map", "fn": 1, "srcs": [1], "id": 2},
    {"op": "store", "pairs": [[2, 0], [2, 1]], "eager": True, "opt": True, "api": "store", "ids": [None, None]},
]


# ------------------------------------------------------------------------------------------------
# values
# ------------------------------------------------------------------------------------------------

def input_array(k):
    import numpy as np
    return (np.arange(1, 9, dtype="int64").reshape(SHAPE)) + 100 * (k + 1)


def fn_apply(f, args):
    out = f + 1
    for i, a in enumerate(args):
        out = out + (i + 2) * a
    return out


def make_block_fn(f):
    def block_fn(*blocks):
        return fn_apply(f, blocks)
    block_fn.__name__ = "F%d" % f
    return block_fn


def parse_term(s):
    """term ::= F | S<k> | A<f>(<term> <term> ..)   ->  nested tuples"""
    pos = [0]

    def term():
        c = s[pos[0]]
        if c == "F":
            pos[0] += 1
            return ("F",)
        if c == "S":
            j = pos[0] + 1
            while j < len(s) and s[j].isdigit():
                j += 1
            k = int(s[pos[0] + 1:j])
            pos[0] = j
            return ("S", k)
        if c == "A":
            j = s.index("(", pos[0])
            f = int(s[pos[0] + 1:j])
            pos[0] = j + 1
            args = []
            while s[pos[0]] != ")":
                if s[pos[0]] == " ":
                    pos[0] += 1
                    continue
                args.append(term())
            pos[0] += 1
            return ("A", f, args)
        raise ValueError("bad term %r at %d" % (s, pos[0]))
    t = term()
    if pos[0] != len(s):
        raise ValueError("trailing input in term %r" % s)
    return t


def eval_term(t):
    """Numeric value of a model term (fill = 0)."""
    import numpy as np
    if t[0] == "F":
        return np.zeros(SHAPE, dtype="int64")
    if t[0] == "S":
        return input_array(t[1])
    f, args = t[1], t[2]
    if f >= 1000:
        return input_array(f - 1000)
    if f == 0:
        return eval_term(args[0])
    return fn_apply(f, [eval_term(a) for a in args])


def term_has_fill(t):
    if t[0] == "F":
        return True
    if t[0] == "S":
        return False
    f, args = t[1], t[2]
    if f >= 1000:
        return False
    if f == 0:
        return term_has_fill(args[0])
    return any(term_has_fill(a) for a in args)


# ------------------------------------------------------------------------------------------------
# runner: the history on the real API, with the direct-oracle measurements
# ------------------------------------------------------------------------------------------------

class Runner:
    """Runs one history on the tree under test.  `obs[j]` is what step j showed; `failures` are the
    direct-oracle findings (independent of the Lean model)."""

    def __init__(self, hist, check_dags=True):
        self.hist = hist
        self.check_dags = check_dags
        self.obs = []
        self.failures = []
        self.stopped_at = None

    # -- helpers ------------------------------------------------------------------------------
    def _loc_label(self, za):
        from cubed.storage.zarr import LazyZarrArray
        if isinstance(za, LazyZarrArray):
            key = (str(za.store), za.path)
        else:
            sp = getattr(za, "store_path", None)
            key = (str(getattr(sp, "store", sp)), getattr(sp, "path", None) or None)
        return self.locs.get(key, "?%s" % (key,))

    def _register(self, label, arr):
        from cubed.storage.zarr import LazyZarrArray
        za = arr._zarray
        if isinstance(za, LazyZarrArray):
            key = (str(za.store), za.path)
            self.locs.setdefault(key, "i%d" % self.info[label]["pos"])

    def _snap(self, arr):
        d = arr._plan.dag
        attrs = []
        for n, dd in d.nodes(data=True):
            po = dd.get("primitive_op")
            item = [n, id(dd["target"]) if "target" in dd else None, id(po) if po is not None else None,
                    id(dd["pipeline"]) if "pipeline" in dd else None]
            if po is not None:
                cfg = po.pipeline.config
                item += [id(po.target_array), po.fusable_with_successors, po.fusable_with_predecessors,
                         tuple(po.source_array_names), id(po.pipeline), id(cfg),
                         tuple((k, id(v.array)) for k, v in cfg.reads_map.items()),
                         tuple((k, id(v.array)) for k, v in cfg.writes_map.items())]
            attrs.append(tuple(item))
        return (tuple(sorted(d.nodes)), tuple(sorted((u, v) for u, v, _ in d.edges(keys=True))),
                tuple(sorted(attrs, key=lambda x: x[0])), id(arr._zarray), arr.name)

    def _snap_all(self):
        if not self.check_dags:
            return None
        return {L: self._snap(a) for L, a in self.arrs.items() if a is not None}

    def _fail(self, j, kind, what):
        self.failures.append({"step": j, "kind": kind, "what": what})

    def _read_target(self, t):
        import zarr
        p = self.tpath(t)
        if not os.path.exists(p):
            return None
        try:
            return zarr.open_array(p, mode="r")[...]
        except Exception:
            return None

    def tpath(self, t):
        return os.path.join(self.wd, "target-%d.zarr" % t)

    def _check_intact(self, j):
        """inputs, external Zarr sources and earlier targets hold what they held before"""
        import numpy as np
        import zarr
        for k, (arr, ref) in self.np_inputs.items():
            if not np.array_equal(arr, ref):
                self._fail(j, "source-modified", "in-memory input %d was modified" % k)
        for k, (path, ref) in self.zarr_inputs.items():
            if not np.array_equal(zarr.open_array(path, mode="r")[...], ref):
                self._fail(j, "source-modified", "Zarr source %d (opened for reading) was modified" % k)
        tg = {}
        for t in self.targets:
            cur = self._read_target(t)
            tg[t] = None if cur is None else cur.tolist()
            old = self.target_seen.get(t)
            if old is not None and (cur is None or not np.array_equal(cur, old)):
                self._fail(j, "target-modified", "target %d written by an earlier store call changed from %s to %s"
                           % (t, old.tolist(), None if cur is None else cur.tolist()))
            if cur is not None and cur.any():
                self.target_seen.setdefault(t, cur.copy())
        return tg

    # -- main ---------------------------------------------------------------------------------
    def run(self):
        import numpy as np
        import zarr

        import cubed
        from cubed.runtime.create import create_executor
        from cubed.storage.zarr import LazyZarrArray

        logging.getLogger("asyncio").setLevel(logging.CRITICAL)
        hist = self.hist
        self.info = labels_info(hist)
        self.wd = tempfile.mkdtemp(prefix="c10-", dir="/dev/shm" if os.path.isdir("/dev/shm") and os.access("/dev/shm", os.W_OK) else None)
        self.locs = {}
        self.arrs = {}        # label -> cubed array (None: no user handle)
        self.shadow = {}      # label -> NumPy value fixed at build time
        self.np_inputs, self.zarr_inputs = {}, {}
        self.targets, self.target_seen, self.target_src = [], {}, {}
        spec = cubed.Spec(work_dir=os.path.join(self.wd, "work"), allowed_mem="200MB", reserved_mem=0,
                          executor_name="single-threaded")
        runner = self

        class Tap(cubed.Callback):
            def on_compute_start(self, event):
                self.dag = event.dag
                self.ops = []

            def on_operation_start(self, event):
                self.ops.append(event.name)

        def plan_info(tap):
            dag = tap.dag
            created, writes = [], []
            if "create-arrays" in dag.nodes:
                for lza in dag.nodes["create-arrays"]["primitive_op"].pipeline.mappable:
                    created.append(runner._loc_label(lza))
            for name in tap.ops:
                if name == "create-arrays":
                    continue
                po = dag.nodes[name]["primitive_op"]
                for wp in po.pipeline.config.writes_map.values():
                    writes.append(runner._loc_label(wp.array))
                # the modelled limits assume one block per input for every op that can take part in fusion
                if po.fusable_with_predecessors or po.fusable_with_successors:
                    assert all(nb == 1 for nb in po.pipeline.config.num_input_blocks), po.pipeline.config.num_input_blocks
            return sorted(created), sorted(writes)

        config_before = cubed.config.get("executor_name", None)
        try:
            for j, st in enumerate(hist):
                op = st["op"]
                o = {"obs": "built"}
                try:
                    if op == "input":
                        k, L = st["k"], st["id"]
                        an = input_array(k)
                        if st["kind"] == "asarray":
                            import cubed.array_api as xp
                            self.np_inputs[k] = (an, an.copy())
                            a = xp.asarray(an, chunks=CHUNKS["A"], spec=spec)
                        elif st["kind"] == "from_array":
                            self.np_inputs[k] = (an, an.copy())
                            a = cubed.from_array(an, chunks=CHUNKS["A"], spec=spec)
                        else:
                            path = os.path.join(self.wd, "source-%d.zarr" % k)
                            z = zarr.create_array(path, shape=SHAPE, dtype="int64", chunks=CHUNKS["A"])
                            z[...] = an
                            self.zarr_inputs[k] = (path, an.copy())
                            a = cubed.from_zarr(path, spec=spec)
                        self.arrs[L], self.shadow[L] = a, an.copy()
                        self._register(L, a)
                    elif op == "from_zarr":
                        L, t = st["id"], st["t"]
                        try:
                            a = cubed.from_zarr(self.tpath(t), spec=spec)
                        except Exception as e:
                            o = {"obs": "invalid", "exc": type(e).__name__}
                            src = self.target_src.get(t)
                            if src is not None and src[1]:
                                self._fail(j, "target-missing", "target %d of an earlier eager store cannot be opened: %s"
                                           % (t, type(e).__name__))
                            self.obs.append(o)
                            self.stopped_at = j
                            break
                        cur = self._read_target(t)
                        self.arrs[L], self.shadow[L] = a, cur.copy()
                        src = self.target_src.get(t)
                        if src is not None and not np.array_equal(cur, self.shadow[src[0]]):
                            self._fail(j, "target-wrong", "target %d holds %s, the array stored there was built as %s"
                                       % (t, cur.tolist(), self.shadow[src[0]].tolist()))
                    elif op == "map":
                        L = st["id"]
                        srcs = [self.arrs[s] for s in st["srcs"]]
                        before = self._snap_all()
                        a = cubed.map_blocks(make_block_fn(st["fn"]), *srcs, dtype="int64")
                        after = self._snap_all()
                        if before != after:   # building a new array must not touch the plans of existing ones
                            self._fail(j, "dag-mutated", "deriving a new array changed the plan of %s" % self._diff(before, after))
                        self.arrs[L] = a
                        self.shadow[L] = fn_apply(st["fn"], [self.shadow[s] for s in st["srcs"]])
                        self._register(L, a)
                    elif op == "rechunk":
                        L = st["id"]
                        before = self._snap_all()
                        a = self.arrs[st["src"]].rechunk(CHUNKS[self.info[L]["chunks"]])
                        after = self._snap_all()
                        if before != after:
                            self._fail(j, "dag-mutated", "rechunk changed the plan of %s" % self._diff(before, after))
                        self.arrs[L] = a
                        self.shadow[L] = self.shadow[st["src"]].copy()
                        self._register(L, a)
                    elif op == "noop":
                        before = self._snap_all()
                        if st["what"] == "config":
                            if st["value"] is None:
                                self._unset_executor(cubed)
                            else:
                                cubed.config.set({"executor_name": st["value"]})
                        elif st["what"] == "plan":
                            self.arrs[st["arr"]].plan(optimize_graph=bool(st["value"]))
                        else:
                            self.arrs[st["arr"]].visualize(filename=os.path.join(self.wd, "viz-%d" % j), optimize_graph=bool(st["value"]))
                        after = self._snap_all()
                        if before != after:
                            self._fail(j, "dag-mutated", "%s changed the plan of %s" % (st["what"], self._diff(before, after)))
                    elif op == "compute":
                        arrs = [self.arrs[a] for a in st["arrs"]]
                        kw = {"optimize_graph": st["opt"]}
                        if st["resume"]:
                            kw["resume"] = True
                        if st["executor"]:
                            kw["executor"] = create_executor(st["executor"])
                        tap = Tap()
                        before = self._snap_all()
                        try:
                            if st["api"] == "method":
                                res = [arrs[0].compute(callbacks=[tap], **kw)]
                            else:
                                res = list(cubed.compute(*arrs, callbacks=[tap], **kw))
                        except Exception as e:
                            o = {"obs": "failed", "exc": type(e).__name__ + ": " + str(e)[:120]}
                            self._fail(j, "compute-raised", "compute of %s raised %s" % (st["arrs"], o["exc"]))
                            self.obs.append(o)
                            self.stopped_at = j
                            break
                        after = self._snap_all()
                        if before != after:
                            self._fail(j, "dag-mutated", "compute changed the plan of %s" % self._diff(before, after))
                        created, writes = plan_info(tap)
                        o = {"obs": "values", "vals": [np.asarray(r).tolist() for r in res], "created": created, "writes": writes}
                        for L, r in zip(st["arrs"], res):
                            if not np.array_equal(np.asarray(r), self.shadow[L]):
                                self._fail(j, "wrong-value", "array %s computes to %s, it was built as %s"
                                           % (L, np.asarray(r).tolist(), self.shadow[L].tolist()))
                    elif op == "store":
                        srcs = [self.arrs[L] for L, _ in st["pairs"]]
                        paths = [self.tpath(t) for _, t in st["pairs"]]
                        for (L, t) in st["pairs"]:
                            self.targets.append(t)
                            self.locs[(self.tpath(t), None)] = "t%d" % t
                            self.target_src[t] = (L, st["eager"])
                        kw = {"optimize_graph": st["opt"]}
                        tap = Tap()
                        try:
                            if st["eager"]:
                                if st["api"] == "to_zarr":
                                    cubed.to_zarr(srcs[0], paths[0], callbacks=[tap], **kw)
                                else:
                                    cubed.store(srcs, paths, callbacks=[tap], **kw)
                                rets = [None] * len(srcs)
                            elif st["api"] == "to_zarr":
                                rets = [cubed.to_zarr(srcs[0], paths[0], compute=False)]
                            else:
                                rets = list(cubed.store(srcs, paths, compute=False))
                        except Exception as e:
                            o = {"obs": "failed", "exc": type(e).__name__ + ": " + str(e)[:120]}
                            self._fail(j, "store-raised", "store of %s raised %s" % (st["pairs"], o["exc"]))
                            self.obs.append(o)
                            self.stopped_at = j
                            break
                        for (L, t), nid, r in zip(st["pairs"], st["ids"], rets):
                            if nid is not None:
                                self.arrs[nid] = r
                                self.shadow[nid] = self.shadow[L].copy()
                        if st["eager"]:
                            created, writes = plan_info(tap)
                            o = {"obs": "stored", "created": created, "writes": writes}
                            for (L, t) in st["pairs"]:
                                cur = self._read_target(t)
                                if cur is None:
                                    self._fail(j, "target-missing", "target %d of an eager store does not exist afterwards" % t)
                                elif not np.array_equal(cur, self.shadow[L]):
                                    self._fail(j, "target-wrong", "target %d holds %s, the array stored there was built as %s"
                                               % (t, cur.tolist(), self.shadow[L].tolist()))
                except AssertionError:
                    raise
                except Exception as e:   # a build step raised
                    o = {"obs": "raised", "exc": type(e).__name__ + ": " + str(e)[:160]}
                    self._fail(j, "build-raised", "%s raised %s" % (op, o["exc"]))
                    self.obs.append(o)
                    self.stopped_at = j
                    break
                o["targets"] = self._check_intact(j)
                self.obs.append(o)
        finally:
            self._restore_config(cubed, config_before)
            shutil.rmtree(self.wd, ignore_errors=True)
        return self

    @staticmethod
    def _unset_executor(cubed):
        cfg = cubed.config.config
        if isinstance(cfg, dict) and "executor_name" in cfg:
            del cfg["executor_name"]

    @staticmethod
    def _restore_config(cubed, before):
        cfg = cubed.config.config
        if before is None:
            if isinstance(cfg, dict) and "executor_name" in cfg:
                del cfg["executor_name"]
        else:
            cubed.config.set({"executor_name": before})

    @staticmethod
    def _diff(before, after):
        return sorted(L for L in before if before[L] != after.get(L))


def run_history(hist, check_dags=True):
    return Runner(copy.deepcopy(hist), check_dags=check_dags).run()


# ------------------------------------------------------------------------------------------------
# shrinking and classification
# ------------------------------------------------------------------------------------------------

def remove_step(hist, j):
    """History without step j and without everything that needs what step j created; None if empty/invalid."""
    gone = set()
    gone_targets = set()
    out = []
    for i, st in enumerate(copy.deepcopy(hist)):
        op = st["op"]
        if i == j:
            if "id" in st:
                gone.add(st["id"])
            if op == "store":
                gone.update(x for x in st["ids"] if x is not None)
                gone_targets.update(t for _, t in st["pairs"])
            continue
        if op == "map":
            if any(s in gone for s in st["srcs"]):
                gone.add(st["id"])
                continue
        elif op == "rechunk":
            if st["src"] in gone:
                gone.add(st["id"])
                continue
        elif op == "from_zarr":
            if st["t"] in gone_targets:
                gone.add(st["id"])
                continue
        elif op == "compute":
            st["arrs"] = [a for a in st["arrs"] if a not in gone]
            if not st["arrs"]:
                continue
            if len(st["arrs"]) > 1:
                st["api"] = "function"
        elif op == "store":
            keep = [(p, n) for p, n in zip(st["pairs"], st["ids"]) if p[0] not in gone]
            for p, n in zip(st["pairs"], st["ids"]):
                if p[0] in gone:
                    gone_targets.add(p[1])
                    if n is not None:
                        gone.add(n)
            if not keep:
                continue
            st["pairs"], st["ids"] = [p for p, _ in keep], [n for _, n in keep]
            if len(st["pairs"]) > 1:
                st["api"] = "store"
        elif op == "noop":
            if st.get("arr") in gone:
                continue
        out.append(st)
    return out if out and valid(out) else None


def simplifications(hist):
    """one-field simplifications of single steps"""
    for j, st in enumerate(hist):
        if st["op"] == "compute":
            for key, val in (("resume", False), ("executor", None), ("opt", False)):
                if st[key] != val:
                    h = copy.deepcopy(hist)
                    h[j][key] = val
                    yield h
            if len(st["arrs"]) > 1:
                for a in st["arrs"]:
                    h = copy.deepcopy(hist)
                    h[j]["arrs"] = [a]
                    yield h
        elif st["op"] == "store" and len(st["pairs"]) > 1:
            for i in range(len(st["pairs"])):
                h = copy.deepcopy(hist)
                h[j]["pairs"] = [p for x, p in enumerate(st["pairs"]) if x != i]
                h[j]["ids"] = [p for x, p in enumerate(st["ids"]) if x != i]
                if valid(h):
                    yield h
        elif st["op"] == "map" and len(st["srcs"]) > 1:
            for i in range(len(st["srcs"])):
                h = copy.deepcopy(hist)
                h[j]["srcs"] = [p for x, p in enumerate(st["srcs"]) if x != i]
                yield h


def shrink(hist, fails, max_runs=150):
    """Greedy minimisation: `fails(h)` must stay true.  Returns (shrunk history, runs used)."""
    runs = 0
    cur = hist
    changed = True
    while changed and runs < max_runs:
        changed = False
        for j in reversed(range(len(cur))):
            cand = remove_step(cur, j)
            if cand is None or len(cand) >= len(cur):
                continue
            runs += 1
            if fails(cand):
                cur = cand
                changed = True
                break
            if runs >= max_runs:
                break
        if not changed:
            for cand in simplifications(cur):
                runs += 1
                if fails(cand):
                    cur = cand
                    changed = True
                    break
                if runs >= max_runs:
                    break
    return cur, runs


KEY_LATE = "late-retarget-of-lazy-source"
KEY_TWICE = "repeated-retarget-of-lazy-source"
DEFECT_KINDS = {"wrong-value", "compute-raised", "store-raised", "target-wrong", "target-missing", "target-modified"}


def classify(shrunk, failure):
    """Name of the known defect the *shrunk* failing history shows, or None.

    Known: `_store_array` (lazy-source branch) re-targets an array in place
      - after a dependant was derived from it (the dependant keeps reading the old location), or
      - a second time (the first target is never written).
    The failure must be one that this can cause (a value / target / missing-array failure), and the shrunk
    history must contain such a call at or before the failing step."""
    if failure["kind"] not in DEFECT_KINDS:
        return None
    trig = [x for x in triggers(shrunk) if x[0] <= failure["step"]]
    if any(k == "late" for _, k, _ in trig):
        return KEY_LATE
    if any(k == "twice" for _, k, _ in trig) and failure["kind"] in ("target-missing", "target-wrong", "store-raised", "compute-raised"):
        return KEY_TWICE
    return None


def without_triggers(hist):
    """The history with every triggering store pair taken out (counterfactual used for cheap attribution)."""
    cur = copy.deepcopy(hist)
    while True:
        trig = triggers(cur)
        if not trig:
            return cur
        j, _, L = trig[0]
        st = cur[j]
        idx = max(i for i, p in enumerate(st["pairs"]) if p[0] == L)
        gone_t = st["pairs"][idx][1]
        st["pairs"].pop(idx)
        st["ids"].pop(idx)
        if not st["pairs"]:
            cur.pop(j)
        elif len(st["pairs"]) == 1 and st["api"] == "store":
            pass
        cur = [s for s in cur if not (s["op"] == "from_zarr" and s["t"] == gone_t)]
        # drop steps that referenced a from_zarr array that is gone
        while not valid(cur):
            seen = set()
            bad = None
            for i, s in enumerate(cur):
                refs = s.get("srcs", []) + ([s["src"]] if "src" in s else []) + s.get("arrs", []) + [p[0] for p in s.get("pairs", [])] \
                    + ([s["arr"]] if s.get("arr") is not None else [])
                if any(r not in seen for r in refs):
                    bad = i
                    break
                if "id" in s:
                    seen.add(s["id"])
                seen.update(x for x in s.get("ids", []) if x is not None)
            if bad is None:
                return cur
            nxt = remove_step(cur, bad)
            if nxt is None:
                cur.pop(bad)
            else:
                cur = nxt
