"""Plug-in extractor for C09: syntactic facts of the resume mechanism -> Model/GeneratedC09.lean.

Facts (each is used by a lemma in Proofs/Resume.lean, so a changed fact breaks a proof obligation):
  createMode                 the literal passed as `mode=` by `create_zarr_array` to `LazyZarrArray.create`
  alreadyComputedCmp         comparison between `target.nchunks_initialized` and `target.nchunks` in `already_computed`
  alreadyComputedNdim0       the `target.ndim == 0 or …` disjunct is present
  allOutputsChecked          `return True` of `already_computed` comes after the loop over all successors (not inside it)
  createArraysNeverComputed  the "no output has a target -> return False" test is present (create-arrays is never skipped)
  arrayNotFoundIsIncomplete  `except ArrayNotFoundError: return False`
  refusesWithoutCount        `if not hasattr(target, "nchunks_initialized"): raise NotImplementedError`
  writeEmptyChunks           `zarr.config.set({"array.write_empty_chunks": True, …})` in the store opener module
  skipHonoursComputed        `skip_node` returns the node's "computed" attribute (default False)
  computedOnlyOnResume       `FinalizedPlan.execute` evaluates `already_computed` for every node, only under `if resume:`
"""
from __future__ import annotations

import ast

from extract import ExtractError, _cmp_op, _func, _parse, _src, lean_str


def _bool(b):
    return "true" if b else "false"


def facts(repo):
    out = {}

    def put(name, typ, val, prov):
        out[name] = (typ, val, prov)

    # ---- plan.py: create_zarr_array -----------------------------------------------------------
    rel = "cubed/core/plan.py"
    t = _parse(repo, rel)
    fn = _func(t, "create_zarr_array", rel)
    mode = None
    for node in ast.walk(fn):
        if isinstance(node, ast.Call) and isinstance(node.func, ast.Attribute) and node.func.attr == "create":
            for kw in node.keywords:
                if kw.arg == "mode":
                    if not isinstance(kw.value, ast.Constant) or not isinstance(kw.value.value, str):
                        raise ExtractError(f"{rel}: create_zarr_array passes a non-literal mode")
                    mode = kw.value.value
            if mode is None and node.args:
                a0 = node.args[0]
                if isinstance(a0, ast.Constant) and isinstance(a0.value, str):
                    mode = a0.value
            if mode is None:
                # no mode given: the default of LazyZarrArray.create applies
                relz = "cubed/storage/zarr.py"
                tz = _parse(repo, relz)
                for n2 in ast.walk(tz):
                    if isinstance(n2, ast.FunctionDef) and n2.name == "create":
                        for a, d in zip(n2.args.args[len(n2.args.args) - len(n2.args.defaults):], n2.args.defaults):
                            if a.arg == "mode" and isinstance(d, ast.Constant):
                                mode = d.value
    if mode is None:
        raise ExtractError(f"{rel}: create_zarr_array no longer calls .create(mode=…)")
    put("createMode", "String", lean_str(mode), rel + ":create_zarr_array")

    # ---- plan.py: already_computed -------------------------------------------------------------
    fn = _func(t, "already_computed", rel)
    body = [b for b in fn.body if not (isinstance(b, ast.Expr) and isinstance(b.value, ast.Constant))]
    loops = [b for b in body if isinstance(b, ast.For)]
    last = body[-1] if body else None
    # The combination over the outputs is pinned: an explicit loop over dag.successors(name) that returns False at the first
    # incomplete output and a constant `return True` after it.  Any any()/all()/generator formulation (e.g.
    # `not all(incomplete(t) …)` for `not any(…)`) is a different program: the model is out of date, not "probably the same".
    if len(loops) != 1 or "successors(name)" not in _src(loops[0].iter):
        raise ExtractError(f"{rel}: already_computed no longer combines the outputs with one loop over dag.successors(name)")
    if not (isinstance(last, ast.Return) and isinstance(last.value, ast.Constant)):
        raise ExtractError(f"{rel}: already_computed no longer ends with a constant return (found `{_src(last) if last else ''}`)")
    for node in ast.walk(fn):
        if isinstance(node, ast.Call) and isinstance(node.func, ast.Name) and node.func.id in ("any", "all"):
            inside_create_test = any(isinstance(b, ast.If) and node in ast.walk(b.test) and "is None" in _src(b.test) for b in body)
            if not inside_create_test:
                raise ExtractError(f"{rel}: already_computed combines outputs with {node.func.id}(…): `{_src(node)[:80]}` — reshaped")
        if isinstance(node, (ast.GeneratorExp, ast.ListComp)) and "nchunks" in _src(node):
            raise ExtractError(f"{rel}: completeness of the outputs is combined in a comprehension — reshaped")
    cmp_op, ndim0 = None, False
    refuses, notfound = False, False
    for node in ast.walk(fn):
        if isinstance(node, ast.If):
            s = _src(node.test)
            if "nchunks_initialized" in s and "nchunks" in s and "hasattr" not in s:
                tests = node.test.values if isinstance(node.test, ast.BoolOp) and isinstance(node.test.op, ast.Or) else [node.test]
                if isinstance(node.test, ast.BoolOp) and not isinstance(node.test.op, ast.Or):
                    raise ExtractError(f"{rel}: already_computed test is not a disjunction: {s}")
                for c in tests:
                    cs = _src(c)
                    if cs.replace(" ", "") == "target.ndim==0":
                        ndim0 = True
                    elif "nchunks_initialized" in cs:
                        op = _cmp_op(c)
                        if op is None or _src(c.left) != "target.nchunks_initialized" or _src(c.comparators[0]) != "target.nchunks":
                            raise ExtractError(f"{rel}: unexpected completeness comparison {cs}")
                        cmp_op = op
                    else:
                        raise ExtractError(f"{rel}: unexpected disjunct {cs} in already_computed")
                if not (len(node.body) == 1 and isinstance(node.body[0], ast.Return)
                        and isinstance(node.body[0].value, ast.Constant) and node.body[0].value.value is False):
                    raise ExtractError(f"{rel}: incomplete-branch of already_computed no longer returns False")
            if "hasattr" in s and "nchunks_initialized" in s:
                neg = isinstance(node.test, ast.UnaryOp) and isinstance(node.test.op, ast.Not)
                raises = any(isinstance(b, ast.Raise) and "NotImplementedError" in _src(b) for b in node.body)
                refuses = neg and raises
        if isinstance(node, ast.ExceptHandler) and node.type is not None and "ArrayNotFoundError" in _src(node.type):
            notfound = any(isinstance(b, ast.Return) and isinstance(b.value, ast.Constant) and b.value.value is False
                           for b in node.body)
    if cmp_op is None:
        raise ExtractError(f"{rel}: nchunks_initialized / nchunks comparison not found in already_computed")
    put("alreadyComputedCmp", "String", lean_str(cmp_op), rel + ":already_computed")
    put("alreadyComputedNdim0", "Bool", _bool(ndim0), rel + ":already_computed")
    put("refusesWithoutCount", "Bool", _bool(refuses), rel + ":already_computed")
    put("arrayNotFoundIsIncomplete", "Bool", _bool(notfound), rel + ":already_computed")

    # structure of the body: [pipeline None -> True] [all targets None -> False] for … : … ; return True
    body = [b for b in fn.body if not (isinstance(b, ast.Expr) and isinstance(b.value, ast.Constant))]
    loops = [b for b in body if isinstance(b, ast.For)]
    last = body[-1] if body else None
    tail_true = isinstance(last, ast.Return) and isinstance(last.value, ast.Constant) and last.value.value is True
    loop_ok = False
    if len(loops) == 1:
        lp = loops[0]
        over_succ = "successors(name)" in _src(lp.iter)
        inner_true = any(isinstance(n, ast.Return) and isinstance(n.value, ast.Constant) and n.value.value is True
                         for n in ast.walk(lp))
        inner_break = any(isinstance(n, ast.Break) for n in ast.walk(lp))
        loop_ok = over_succ and not inner_true and not inner_break and body.index(lp) == len(body) - 2
    put("allOutputsChecked", "Bool", _bool(tail_true and loop_ok), rel + ":already_computed")
    never = False
    for b in body:
        if isinstance(b, ast.If) and "all(" in _src(b.test) and "target" in _src(b.test) and "is None" in _src(b.test):
            never = any(isinstance(x, ast.Return) and isinstance(x.value, ast.Constant) and x.value.value is False for x in b.body)
    put("createArraysNeverComputed", "Bool", _bool(never), rel + ":already_computed")

    # ---- plan.py: FinalizedPlan.execute --------------------------------------------------------
    ex = None
    for node in ast.walk(t):
        if isinstance(node, ast.ClassDef) and node.name == "FinalizedPlan":
            for b in node.body:
                if isinstance(b, ast.FunctionDef) and b.name == "execute":
                    ex = b
    if ex is None:
        raise ExtractError(f"{rel}: FinalizedPlan.execute not found")
    only_resume = False
    for node in ast.walk(ex):
        if isinstance(node, ast.If) and _src(node.test) == "resume":
            for f in ast.walk(node):
                if isinstance(f, ast.For) and "topological_sort" in _src(f.iter):
                    for a in ast.walk(f):
                        if isinstance(a, ast.Assign) and "['computed']" in _src(a.targets[0]).replace('"', "'") \
                                and _src(a.value).startswith("already_computed("):
                            only_resume = True
    assigns_elsewhere = sum(1 for a in ast.walk(ex) if isinstance(a, ast.Assign) and "computed" in _src(a.targets[0]))
    put("computedOnlyOnResume", "Bool", _bool(only_resume and assigns_elsewhere == 1), rel + ":FinalizedPlan.execute")

    # ---- pipeline.py: skip_node -----------------------------------------------------------------
    rel = "cubed/runtime/pipeline.py"
    t = _parse(repo, rel)
    fn = _func(t, "skip_node", rel)
    body = [b for b in fn.body if not (isinstance(b, ast.Expr) and isinstance(b.value, ast.Constant))]
    last = body[-1] if body else None
    honours = isinstance(last, ast.Return) and _src(last.value).replace('"', "'") == "nodes[name].get('computed', False)"
    put("skipHonoursComputed", "Bool", _bool(honours), rel + ":skip_node")
    for user in ("visit_nodes", "visit_node_generations"):
        if "skip_node(" not in _src(_func(t, user, rel)):
            raise ExtractError(f"{rel}: {user} no longer filters through skip_node")

    # ---- stores/zarr_python_v3.py: write_empty_chunks -------------------------------------------
    rel = "cubed/storage/stores/zarr_python_v3.py"
    t = _parse(repo, rel)
    wec = None
    for node in t.body:
        if isinstance(node, ast.Expr) and isinstance(node.value, ast.Call) and _src(node.value.func) == "zarr.config.set" \
                and node.value.args and isinstance(node.value.args[0], ast.Dict):
            for k, v in zip(node.value.args[0].keys, node.value.args[0].values):
                if isinstance(k, ast.Constant) and k.value == "array.write_empty_chunks" and isinstance(v, ast.Constant):
                    wec = bool(v.value)
    # zarr's own default is False: without the module-level override empty chunks are not written
    put("writeEmptyChunks", "Bool", _bool(bool(wec)), rel + ": zarr.config.set")
    fn = _func(t, "open_zarr_v3_array", rel)
    s = _src(fn)
    if "ContainsArrayError" not in s or "mode == 'a'" not in s.replace('"', "'"):
        raise ExtractError(f"{rel}: open_zarr_v3_array no longer has the ContainsArrayError / mode == 'a' fallback")
    return out
