"""Case construction and execution for C11 (store / to_zarr): pure-data case descriptions that can be
replayed by hand, the real call on the tree under test, the NumPy expectation, and the classifiers
for the known genuine defects.

A *case* is a JSON-serialisable dict:

  {"shape": [8], "pool": [<array spec>, ...], "pairs": [<pair>, ...],
   "api": "store" | "to_zarr", "compute": "eager" | "lazy", "executor": "single" | "threads"}

  array spec:  {"op": "asarray", "chunks": [4]}            in-memory source (not lazy)
               {"op": "fromzarr", "chunks": [4]}           computed source re-opened with from_zarr (not lazy)
               {"op": "add1" | "neg", "arg": i}            elementwise op on pool[i] (lazy)
               {"op": "chain", "arg": i}                   fused elementwise chain neg(add1(mul2(.))) (lazy)
               {"op": "add", "args": [i, j]}               binary op (lazy)
               {"op": "rechunk", "arg": i, "chunks": [2]}  rechunked (lazy)
               {"op": "computed", "arg": i}                add1 of pool[i], .compute() called before the store (lazy object)
  pair:        {"src": i, "target": <target spec>, "region": null | [[start, stop, step], ...]}
  target spec: {"kind": "path"} | {"kind": "group", "path": "g/a"} |
               {"kind": "array", "shape": [...], "chunks": [...], "shards": null | [...], "reopen": bool, "same_as": k?}

Everything the property speaks about is observed from outside: targets are pre-filled with a sentinel and read
back with plain zarr after the call.
"""
from __future__ import annotations

import itertools
import logging
import os
import shutil
import tempfile
import warnings

SENT = -7


# ------------------------------------------------------------------------------------------------
# environment
# ------------------------------------------------------------------------------------------------

class Env:
    """One scratch directory + Spec per check run."""

    def __init__(self):
        import cubed
        self.root = tempfile.mkdtemp(prefix="c11-")
        self.n = 0
        self.spec = cubed.Spec(work_dir=os.path.join(self.root, "work"), allowed_mem="500MB", reserved_mem=0)
        logging.getLogger("asyncio").setLevel(logging.CRITICAL)
        warnings.filterwarnings("ignore")

    def fresh(self, suffix=".zarr"):
        self.n += 1
        return os.path.join(self.root, "t%06d%s" % (self.n, suffix))

    def close(self):
        shutil.rmtree(self.root, ignore_errors=True)


def executors():
    """Executor subclasses that record whether the computation was started at all (a `ValueError` that comes out of a
    task must not be mistaken for an up-front rejection)."""
    from cubed.runtime.executors.local import SingleThreadedExecutor, ThreadsExecutor

    class Single(SingleThreadedExecutor):
        started = False

        def execute_dag(self, dag, **kw):
            self.started = True
            return super().execute_dag(dag, **kw)

    class Threads(ThreadsExecutor):
        started = False

        def execute_dag(self, dag, **kw):
            self.started = True
            return super().execute_dag(dag, **kw)

    return {"single": Single, "threads": Threads}


def to_slices(region):
    if region is None:
        return None
    return tuple(slice(*r) for r in region)


# ------------------------------------------------------------------------------------------------
# sources
# ------------------------------------------------------------------------------------------------

def build_pool(env, case):
    """Returns (cubed arrays, numpy shadows)."""
    import numpy as np

    import cubed
    import cubed.array_api as xp

    shape = tuple(case["shape"])
    size = int(np.prod(shape))
    arrs, vals = [], []
    for k, sp in enumerate(case["pool"]):
        op = sp["op"]
        if op in ("asarray", "fromzarr"):
            v = (np.arange(size, dtype="int64").reshape(shape) + 1) * (k + 1)
            if op == "asarray":
                a = xp.asarray(v, chunks=tuple(sp["chunks"]), spec=env.spec)
            else:
                import zarr
                p = env.fresh(".src.zarr")
                z = zarr.create_array(p, shape=shape, chunks=tuple(sp["chunks"]), dtype="int64", fill_value=0)
                z[...] = v
                a = cubed.from_zarr(p, spec=env.spec)
        elif op == "add1":
            a, v = xp.add(arrs[sp["arg"]], 1), vals[sp["arg"]] + 1
        elif op == "neg":
            a, v = xp.negative(arrs[sp["arg"]]), -vals[sp["arg"]]
        elif op == "chain":
            a = xp.negative(xp.add(xp.multiply(arrs[sp["arg"]], 2), 1))
            v = -(vals[sp["arg"]] * 2 + 1)
        elif op == "add":
            i, j = sp["args"]
            a, v = xp.add(arrs[i], arrs[j]), vals[i] + vals[j]
        elif op == "rechunk":
            a, v = arrs[sp["arg"]].rechunk(tuple(sp["chunks"])), vals[sp["arg"]]
        elif op == "computed":
            a, v = xp.add(arrs[sp["arg"]], 1), vals[sp["arg"]] + 1
            a.compute()
        else:
            raise ValueError(op)
        arrs.append(a)
        vals.append(v)
    return arrs, vals


def is_lazy(a):
    from cubed.storage.zarr import LazyZarrArray
    return isinstance(a._zarray, LazyZarrArray)


def pool_info(case, arrs):
    """What the classifiers / the model need to know about the pool, read off the real arrays before the call:
    laziness, lazy ancestors, chunk sizes, object identity (`x.rechunk(x.chunks)` returns `x` itself) and which arrays
    had `compute()` called on them."""
    ident = [next(j for j in range(i + 1) if arrs[j] is arrs[i]) for i in range(len(arrs))]
    return {"lazy": [is_lazy(a) for a in arrs], "deps": [lazy_ancestors(arrs, i) for i in range(len(arrs))],
            "src_chunks": [list(a.chunksize) for a in arrs], "ident": ident,
            "computed": [sp["op"] == "computed" for sp in case["pool"]]}


def lazy_ancestors(arrs, i):
    """indices of pool arrays that are lazy and whose storage the plan of arrs[i] reads (ancestors in its dag)"""
    import networkx as nx
    dag = arrs[i]._plan.dag
    anc = nx.ancestors(dag, arrs[i].name)
    return [j for j, b in enumerate(arrs) if j != i and b.name in anc and is_lazy(b) and b.name != arrs[i].name]


# ------------------------------------------------------------------------------------------------
# targets
# ------------------------------------------------------------------------------------------------

def build_targets(env, case):
    """Returns list of dicts {obj (what is passed to cubed), path, group, existing, before (numpy or None)}."""
    import numpy as np
    import zarr

    out = []
    for k, pr in enumerate(case["pairs"]):
        t = pr["target"]
        if t["kind"] == "path":
            out.append({"obj": env.fresh(), "group": None, "existing": False, "before": None})
            out[-1]["path"] = out[-1]["obj"]
        elif t["kind"] == "group":
            p = env.fresh()
            out.append({"obj": p, "path": p, "group": t["path"], "existing": False, "before": None})
        else:
            if t.get("same_as") is not None:
                prev = out[t["same_as"]]
                out.append(dict(prev, shared=True))
                continue
            p = env.fresh()
            z = zarr.create_array(p, shape=tuple(t["shape"]), chunks=tuple(t["chunks"]), dtype="int64", fill_value=0,
                                  shards=tuple(t["shards"]) if t.get("shards") else None)
            z[...] = SENT
            if t.get("reopen"):
                z = zarr.open_array(p, mode="r+")
            out.append({"obj": z, "path": p, "group": None, "existing": True,
                        "before": np.full(tuple(t["shape"]), SENT, dtype="int64")})
    return out


def read_target(t):
    """None when no array exists at the location."""
    import zarr
    if not os.path.exists(t["path"]):
        return None
    try:
        if t["group"]:
            return zarr.open_group(t["path"], mode="r")[t["group"]][...]
        return zarr.open_array(t["path"], mode="r")[...]
    except Exception:
        return None


# ------------------------------------------------------------------------------------------------
# expectation (NumPy), independent of the Lean model
# ------------------------------------------------------------------------------------------------

def expectation(case, vals, targets):
    """Per pair: ("reject", None) when NumPy itself cannot perform `target[region] = source`, else ("value", array).
    Pairs sharing a target are applied in order."""
    import numpy as np
    state = {}
    res = []
    for pr, t in zip(case["pairs"], targets):
        v = vals[pr["src"]]
        key = t["path"]
        if not t["existing"]:
            if pr["region"] is None or all(tuple(r) == (None, None, None) for r in pr["region"]):
                res.append(("value", v.copy()))
            else:
                # region into a target that is created from the source: only the full region makes sense
                cur = np.full(v.shape, SENT, dtype="int64")
                try:
                    cur[to_slices(pr["region"])] = v
                    res.append(("value-created", cur))
                except Exception:
                    res.append(("reject", None))
            continue
        cur = state.get(key, t["before"]).copy()
        try:
            if pr["region"] is None:
                if cur.shape != v.shape:
                    raise ValueError("shape")
                cur[...] = v
            else:
                sl = to_slices(pr["region"])
                if cur[sl].shape != v.shape:
                    raise ValueError("shape")
                cur[sl] = v
            state[key] = cur
            res.append(("value", cur))
        except Exception:
            res.append(("reject", None))
    # for shared targets every pair must see the final state
    final = []
    for (kind, _), t in zip(res, targets):
        if kind == "value" and t["existing"]:
            final.append((kind, state[t["path"]]))
        else:
            final.append((kind, _))
    return final


def norm_slice(r, n):
    return slice(*r).indices(n)


def well_formed(case, vals):
    """Requests that must be accepted: no region into a path / an existing array of the source's shape (any
    chunking); a region tuple with one slice per axis, step None/1, whose *normalised* bounds are aligned with the
    target chunks (stop may be the end) and select exactly the source's shape (any source chunking)."""
    for pr in case["pairs"]:
        t = pr["target"]
        v = vals[pr["src"]]
        full = pr["region"] is not None and all(tuple(r) == (None, None, None) for r in pr["region"])
        if pr["region"] is None or full:
            if t["kind"] == "array" and list(t["shape"]) != list(v.shape):
                return False
            continue
        if t["kind"] != "array" or len(pr["region"]) != len(t["shape"]):
            return False
        # a sharded target is written by whole shards: the shard shape is what the region must align with
        for (s, e, st), n, cs, m in zip(pr["region"], t["shape"], t.get("shards") or t["chunks"], v.shape):
            if st not in (None, 1):
                return False
            s0, e0, _ = slice(s, e, None).indices(n)
            if s0 % cs or (e0 % cs and e0 != n) or max(0, e0 - s0) != m:
                return False
    return True


# ------------------------------------------------------------------------------------------------
# running a case on the implementation
# ------------------------------------------------------------------------------------------------

def run_case(env, case):
    """Returns dict(status, error, failures=[(what, key)], info).

    status:  rejected     ValueError before the computation was started
             build-error  another exception before the computation was started
             late-error   an exception after the computation was started
             done
    """
    import numpy as np

    import cubed

    arrs, vals = build_pool(env, case)
    # laziness / dependencies must be read off *before* the call: re-targeting replaces `_zarray`
    info0 = pool_info(case, arrs)
    targets = build_targets(env, case)
    exp = expectation(case, vals, targets)
    ex = executors()[case["executor"]]()
    srcs = [arrs[pr["src"]] for pr in case["pairs"]]
    objs = [t["obj"] for t in targets]
    regions = [to_slices(pr["region"]) for pr in case["pairs"]]
    status, err = "done", None
    try:
        if case["api"] == "to_zarr":
            t = targets[0]
            kw = {}
            if t["group"]:
                kw["path"] = t["group"]
            if regions[0] is not None:
                kw["region"] = regions[0]
            if case["compute"] == "eager":
                cubed.to_zarr(srcs[0], objs[0], executor=ex, **kw)
            else:
                r = cubed.to_zarr(srcs[0], objs[0], compute=False, **kw)
                r.compute(executor=ex, _return_in_memory_array=False)
        else:
            if all(r is None for r in regions):
                rg = None
            elif len(set(map(repr, regions))) == 1 and case.get("regions_as_tuple", False):
                rg = regions[0]
            else:
                rg = regions
            single = len(srcs) == 1 and case.get("single_arg", False)
            s_arg = srcs[0] if single else srcs
            t_arg = objs[0] if single else objs
            if single and rg is not None:
                rg = regions[0]
            if case["compute"] == "eager":
                cubed.store(s_arg, t_arg, regions=rg, executor=ex)
            else:
                out = cubed.store(s_arg, t_arg, regions=rg, compute=False)
                cubed.compute(*out, executor=ex, _return_in_memory_array=False)
    except Exception as e:  # noqa: BLE001 - every exception is an observation here
        err = "%s: %s" % (type(e).__name__, str(e)[:160])
        if not ex.started:
            status = "rejected" if isinstance(e, ValueError) else "build-error"
        else:
            status = "late-error"
    after = [read_target(t) for t in targets]
    failures = []
    untouched = all((a is None and not t["existing"]) or (t["existing"] and a is not None and np.array_equal(a, t["before"]))
                    for a, t in zip(after, targets))
    must_reject = any(k == "reject" for k, _ in exp)
    if status == "rejected":
        if not untouched:
            failures.append("rejected with ValueError but a target was already modified / created")
        elif not must_reject and well_formed(case, vals):
            failures.append("well-formed request rejected: " + err)
    elif status == "build-error":
        failures.append("exception other than ValueError while building: " + err)
    elif status == "late-error":
        failures.append("failed after the computation had started (%s); targets %s" % (
            err, "untouched" if untouched else "partly written"))
    else:
        if must_reject:
            failures.append("request that cannot be written (shape/region mismatch) was accepted and completed")
        for k, ((kind, want), got, t) in enumerate(zip(exp, after, targets)):
            if kind == "reject":
                continue
            if got is None:
                failures.append("pair %d: target was never created" % k)
            elif got.shape != want.shape or not np.array_equal(got, want):
                bad = int(np.sum(got != want)) if got.shape == want.shape else -1
                failures.append("pair %d: target differs from source-in-region/sentinel-elsewhere in %d elements (got %s)"
                                % (k, bad, np.asarray(got).ravel()[:16].tolist()))
    info = dict(info0, status=status, error=err)
    return {"status": status, "error": err, "failures": failures, "info": info, "after": after, "exp": exp,
            "targets": targets}


# ------------------------------------------------------------------------------------------------
# classifiers for the known genuine defects (on the case description + observed laziness/deps only)
# ------------------------------------------------------------------------------------------------

def classify(case, info):
    """Name of the known defect whose triggering condition the case satisfies, or None."""
    pairs = case["pairs"]
    lazy, deps = info["lazy"], info["deps"]
    ident = info.get("ident") or list(range(len(lazy)))

    def sid(p):
        return ident[p["src"]]

    def noregion(p):
        return p["region"] is None or all(tuple(r) == (None, None, None) for r in p["region"])

    def shard_rechunk(p):
        """`_store_array` does not store the source itself but a rechunked array derived from it (which reads the source
        where it was going to be written at that moment): shard branch, no-region store into an existing array whose
        chunks the source chunks do not cover, region store with another chunking.  `rechunk` to the chunks the source
        already has returns the source itself."""
        t = p["target"]
        if t["kind"] != "array":
            return False
        sc = info["src_chunks"][p["src"]]
        shape = case["shape"]
        if t.get("shards") and [min(sh, n) for sh, n in zip(t["shards"], shape)] != sc:
            return True
        if noregion(p):
            if t.get("shards"):
                return False
            return not all(c % tc == 0 or c >= n for n, c, tc in zip(shape, sc, t["chunks"]))
        return [min(tc, n) for tc, n in zip(t.get("shards") or t["chunks"], shape)] != sc

    # pairs that re-target their (lazy) source in place
    # (a source re-targeted into an *existing* array is no longer lazy for the pairs that follow: they copy from there)
    moves, still_lazy = [], {}
    for k, p in enumerate(pairs):
        if lazy[p["src"]] and still_lazy.get(sid(p), True) and noregion(p) and not shard_rechunk(p):
            moves.append((k, sid(p)))
            if p["target"]["kind"] == "array":
                still_lazy[sid(p)] = False
    # (c) the same lazy source again, re-targeted later: the earlier pair loses its location
    for j, s_ in moves:
        for i in range(j):
            if sid(pairs[i]) == s_:
                return "store-lazy-source-with-dependant" if shard_rechunk(pairs[i]) else "store-lazy-source-twice"
    # a lazy source re-targeted into an existing array chunked differently, then used again: the later op reads it
    # back by the stored chunking
    for i, s_ in moves:
        t = pairs[i]["target"]
        if t["kind"] == "array" and not t.get("shards") and list(t["chunks"]) != info["src_chunks"][pairs[i]["src"]]:
            for j in range(i + 1, len(pairs)):
                if sid(pairs[j]) == s_:
                    return "store-lazy-source-retargeted-other-chunks"
    # a re-targeted lazy source with a dependant among the (effective) listed sources
    moved = {s_ for _, s_ in moves}
    for p in pairs:
        eff = [ident[d] for d in deps[p["src"]]]
        if any(d in moved for d in eff):
            return "store-lazy-source-with-dependant"
    return None


# ------------------------------------------------------------------------------------------------
# shrinking: sub-lists of pairs (the pool is kept, unused arrays are harmless)
# ------------------------------------------------------------------------------------------------

def sub_cases(case):
    n = len(case["pairs"])
    for k in range(1, n):
        for idx in itertools.combinations(range(n), k):
            c = dict(case)
            pairs = []
            remap = {}
            ok = True
            for new, old in enumerate(idx):
                p = dict(case["pairs"][old])
                t = dict(p["target"])
                if t.get("same_as") is not None:
                    if t["same_as"] in remap:
                        t["same_as"] = remap[t["same_as"]]
                    else:
                        t.pop("same_as")
                p["target"] = t
                remap[old] = new
                pairs.append(p)
            if ok:
                c["pairs"] = pairs
                if c["api"] == "to_zarr" and len(pairs) != 1:
                    continue
                yield c


def shrink(env, case, result):
    """Smallest sub-list of pairs that still fails (same run_case oracle)."""
    if len(case["pairs"]) <= 1:
        return case, result
    for c in sub_cases(case):
        try:
            r = run_case(env, c)
        except Exception:  # noqa: BLE001
            continue
        if r["failures"]:
            return c, r
    return case, result
