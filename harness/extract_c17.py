"""Plug-in extractor for C17: the *assert table* of cubed -> Model/GeneratedC17.lean.

What is a record
----------------
Every `assert` statement, and every explicit `raise AssertionError(...)`, in `cubed/**/*.py` except

  * `cubed/tests/`, `cubed/_testing.py`, `cubed/diagnostics/` (not part of building / planning / running a plan),
  * the non-local executors `cubed/runtime/executors/{coiled,dask,lithops,modal,ray,spark}.py`,
  * functions of vendored modules (`cubed/vendor/**`) that cubed does not call: a vendored function counts as called
    when its name is referenced (import / attribute / bare name) from non-vendored, non-test cubed code, or from a
    vendored function that is itself called (name-based closure; deliberately over-approximating).

A record is `(file, enclosing function, test)`: file relative to the repository, the dotted chain of enclosing
`def`/`class` names (`<module>` at top level), and `ast.unparse` of the asserted expression (for a raise: the text
`raise AssertionError`).  When the same (file, function, test) occurs again it gets a suffix `#2`, `#3`, … so that records
are unique and line-number independent.

Other facts
-----------
  scanSplitEvery          default of `scan(..., split_every=5)`
  scanAssert              the asserted expression of `scan` (ties Model/Validate.lean:scanBuild to the source)
  scanIncKeyExpr          the expression used for the increment block (`bi // split_every`)
  scanReducedSizes / scanDivmod / scanPassesReducedSizes
                          how `scan` declares the chunk sizes of `reduced` (ties Model/Validate.lean:reducedSizes)
  helperCallSites         number of call sites, outside tests, of assertion helpers whose contract is to assert
                          (`verify_chunk_compatibility`) -- must stay 0 for their classification to hold
  legacyFuseGuard         the expression `can_fuse_primitive_ops` returns for two candidates (guards the assert in `fuse`)
"""
from __future__ import annotations

import ast
import os

from extract import ExtractError, _default, _func, _parse, lean_str

SKIP_DIRS = {"tests", "diagnostics", "__pycache__"}
SKIP_FILES = {"cubed/_testing.py"} | {f"cubed/runtime/executors/{n}.py" for n in ("coiled", "dask", "lithops", "modal", "ray", "spark")}
ASSERT_HELPERS = ["verify_chunk_compatibility"]


def _py_files(repo):
    root = os.path.join(repo, "cubed")
    if not os.path.isdir(root):
        raise ExtractError("cubed/ package not found")
    out = []
    for d, dirs, files in os.walk(root):
        dirs[:] = sorted(x for x in dirs if x not in SKIP_DIRS)
        for f in sorted(files):
            rel = os.path.relpath(os.path.join(d, f), repo)
            if f.endswith(".py") and rel not in SKIP_FILES:
                out.append(rel)
    return out


def _names_used(node):
    s = set()
    for n in ast.walk(node):
        if isinstance(n, ast.Name):
            s.add(n.id)
        elif isinstance(n, ast.Attribute):
            s.add(n.attr)
        elif isinstance(n, ast.alias):
            s.add(n.name.split(".")[-1])
            if n.asname:
                s.add(n.asname)
    return s


def _top_functions(tree):
    """name -> node for module-level defs and methods (by bare name)."""
    out = {}
    for n in ast.walk(tree):
        if isinstance(n, (ast.FunctionDef, ast.AsyncFunctionDef)):
            out.setdefault(n.name, n)
    return out


def vendor_called(repo, files, trees):
    vend = [f for f in files if f.startswith("cubed/vendor/")]
    vfuncs = {}
    for f in vend:
        for name, node in _top_functions(trees[f]).items():
            vfuncs.setdefault(name, []).append(node)
    used = set()
    for f in files:
        if not f.startswith("cubed/vendor/"):
            used |= _names_used(trees[f])
    called = {n for n in vfuncs if n in used}
    work = list(called)
    while work:
        n = work.pop()
        for node in vfuncs[n]:
            for m in _names_used(node):
                if m in vfuncs and m not in called:
                    called.add(m)
                    work.append(m)
    return called


class _Visitor(ast.NodeVisitor):
    def __init__(self):
        self.stack = []
        self.records = []   # (qualname, top function name, test, lineno)

    def _enter(self, node):
        self.stack.append(node.name)
        self.generic_visit(node)
        self.stack.pop()

    visit_FunctionDef = _enter
    visit_AsyncFunctionDef = _enter
    visit_ClassDef = _enter

    def _qual(self):
        return ".".join(self.stack) if self.stack else "<module>"

    def visit_Assert(self, node):
        self.records.append((self._qual(), self.stack[0] if self.stack else None, ast.unparse(node.test), node.lineno))

    def visit_Raise(self, node):
        e = node.exc
        if isinstance(e, ast.Call):
            e = e.func
        if isinstance(e, ast.Name) and e.id == "AssertionError":
            self.records.append((self._qual(), self.stack[0] if self.stack else None, "raise AssertionError", node.lineno))
        self.generic_visit(node)


def assert_records(repo):
    """[(file, function, test, lineno)] — lineno for the harness only (not written to Lean)."""
    files = _py_files(repo)
    trees = {f: _parse(repo, f) for f in files}
    called = vendor_called(repo, files, trees)
    out = []
    seen = {}
    for f in files:
        v = _Visitor()
        v.visit(trees[f])
        for qual, top, test, line in v.records:
            if f.startswith("cubed/vendor/") and top is not None:
                # the enclosing *top-level* function (or any enclosing def) must be called
                if not any(part in called for part in qual.split(".")):
                    continue
            key = (f, qual, test)
            seen[key] = seen.get(key, 0) + 1
            if seen[key] > 1:
                test = f"{test} #{seen[key]}"
            out.append((f, qual, test, line))
    return out


def _count_calls(repo, name):
    n = 0
    for f in _py_files(repo):
        for node in ast.walk(_parse(repo, f)):
            if isinstance(node, ast.Call):
                fn = node.func
                if (isinstance(fn, ast.Name) and fn.id == name) or (isinstance(fn, ast.Attribute) and fn.attr == name):
                    n += 1
    return n


def facts(repo):
    out = {}
    recs = assert_records(repo)
    if not recs:
        raise ExtractError("no assert statements found (wrong tree?)")
    body = ",\n  ".join("(%s, %s, %s)" % (lean_str(f), lean_str(q), lean_str(t)) for f, q, t, _ in recs)
    out["asserts"] = ("List (String × String × String)", "[\n  " + body + "\n]",
                      "every `assert` / `raise AssertionError` in cubed/ (tests, diagnostics, non-local executors, uncalled vendored functions excluded)")

    rel = "cubed/core/ops.py"
    t = _parse(repo, rel)
    fn = _func(t, "scan", rel)
    out["scanSplitEvery"] = ("Nat", str(_default(fn, "split_every", rel)), rel + ":scan(split_every=…)")
    tests = [ast.unparse(n.test) for n in ast.walk(fn) if isinstance(n, ast.Assert)]
    shape_tests = [s for s in tests if "increment" in s]
    if len(shape_tests) > 1:
        raise ExtractError(f"{rel}: scan has several assertions on `increment`: {shape_tests}")
    out["scanAssert"] = ("String", lean_str(shape_tests[0] if shape_tests else ""), rel + ":scan")
    key_expr = ""
    for n in ast.walk(fn):
        if isinstance(n, ast.FunctionDef) and n.name == "back_key_function":
            for m in ast.walk(n):
                if isinstance(m, ast.IfExp) and "split_every" in ast.unparse(m):
                    key_expr = ast.unparse(m.body)
    if not key_expr:
        raise ExtractError(f"{rel}: scan.back_key_function: increment coordinate expression not found")
    out["scanIncKeyExpr"] = ("String", lean_str(key_expr), rel + ":scan.back_key_function")

    # the declared sizes of `reduced` (fix 5fff6ae); empty strings when the shape is not there (old code): the tie
    # theorem then fails instead of the extractor
    sizes_expr, divmod_expr = "", ""
    for n in ast.walk(fn):
        if isinstance(n, ast.Assign) and len(n.targets) == 1:
            tgt = ast.unparse(n.targets[0])
            if tgt == "reduced_sizes":
                sizes_expr = ast.unparse(n.value)
            elif tgt in ("num_full, num_rest", "(num_full, num_rest)"):
                divmod_expr = ast.unparse(n.value)
    out["scanReducedSizes"] = ("String", lean_str(sizes_expr), rel + ":scan (reduced_sizes = …)")
    out["scanDivmod"] = ("String", lean_str(divmod_expr), rel + ":scan (num_full, num_rest = …)")
    uses = any(isinstance(n, ast.keyword) and n.arg == "combine_sizes" and "reduced_sizes" in ast.unparse(n.value) for n in ast.walk(fn))
    out["scanPassesReducedSizes"] = ("Bool", "true" if uses else "false", rel + ":scan (combine_sizes={axis: reduced_sizes})")

    out["helperCallSites"] = ("Nat", str(sum(_count_calls(repo, h) for h in ASSERT_HELPERS)),
                              "call sites outside tests of " + ", ".join(ASSERT_HELPERS))

    rel = "cubed/primitive/blockwise.py"
    t = _parse(repo, rel)
    fn = _func(t, "can_fuse_primitive_ops", rel)
    guard = ""
    for n in ast.walk(fn):
        if isinstance(n, ast.If):
            rets = [s for s in n.body if isinstance(s, ast.Return)]
            if rets and rets[0].value is not None:
                guard = ast.unparse(rets[0].value)
    if not guard:
        raise ExtractError(f"{rel}: can_fuse_primitive_ops: guarded return not found")
    out["legacyFuseGuard"] = ("String", lean_str(guard), rel + ":can_fuse_primitive_ops")
    return out


if __name__ == "__main__":
    import sys
    for r in assert_records(sys.argv[1] if len(sys.argv) > 1 else "/repo"):
        print(r)
