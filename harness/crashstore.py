"""Crash injection and observation helpers for C09 (resume after a crash).

Nothing here touches /repo: the store is handed to cubed as ``Spec(intermediate_store=CrashStore(...))``,
operations executed on resume are observed through a ``Callback``, the create step is observed by
wrapping the stage function of the plan's ``create-arrays`` pipeline inside the harness process.

`CrashStore` wraps a zarr store and
  * counts *chunk* writes (every key whose last path component is not a metadata document),
  * when armed with ``crash_after=j`` lets exactly j chunk writes through and raises `InjectedCrash`
    on every later write (chunk or metadata) — the "power cut" stays in effect until `disarm()`, so
    executor retries cannot get past it,
  * records every mutation as an event (set / delete / delete_dir / clear) for the "no chunk is ever
    removed" oracle.
The armed state lives in a small shared directory-less object (`State`) so copies made by zarr
(`with_read_only`, `_with_store`) share it.  A write is atomic (LocalStore writes a temp file and renames;
MemoryStore assigns a dict entry): the crash happens *between* writes, never inside one.
"""
from __future__ import annotations

import threading

from zarr.storage import WrapperStore

METADATA_DOCS = ("zarr.json", ".zarray", ".zattrs", ".zgroup", ".zmetadata")


class InjectedCrash(BaseException):
    """Raised by the store once the crash point is reached.  Derives from BaseException so that no
    `except Exception` inside cubed / tenacity can swallow or retry it."""


def is_chunk_key(key: str) -> bool:
    return key.rsplit("/", 1)[-1] not in METADATA_DOCS


def split_key(key: str):
    """'array-003/c/0/1' -> ('array-003', '0/1');  0-d chunk 'array-003/c' -> ('array-003', '')."""
    parts = key.split("/")
    arr = parts[0]
    rest = parts[1:]
    if rest and rest[0] == "c":
        rest = rest[1:]
    return arr, "/".join(rest)


class State:
    def __init__(self):
        self.lock = threading.Lock()
        self.crash_after = None    # None = never crash
        self.chunk_sets = 0        # chunk writes let through since the last reset
        self.crashed = False
        self.events = []           # (kind, key)
        self.recording = True

    def reset(self, crash_after=None):
        with self.lock:
            self.crash_after = crash_after
            self.chunk_sets = 0
            self.crashed = False
            self.events = []


class CrashStore(WrapperStore):
    def __init__(self, store, state=None):
        super().__init__(store)
        self.state = state if state is not None else State()

    def _with_store(self, store):
        return type(self)(store, self.state)

    # the wrapped store's synchronous fast path would bypass `set`; force the async path
    @property
    def _supports_sync_io(self):
        return False

    def __eq__(self, other):
        return type(self) is type(other) and self._store == other._store

    def __hash__(self):
        return id(self.state)

    # -- control ------------------------------------------------------------------------------
    def arm(self, crash_after):
        self.state.reset(crash_after)

    def disarm(self):
        self.state.reset(None)

    # -- mutation gate --------------------------------------------------------------------------
    def _gate(self, kind, key):
        st = self.state
        with st.lock:
            if st.crashed:
                raise InjectedCrash(f"store is down ({kind} {key})")
            if kind == "set" and is_chunk_key(key):
                if st.crash_after is not None and st.chunk_sets >= st.crash_after:
                    st.crashed = True
                    raise InjectedCrash(f"crash before chunk write #{st.chunk_sets} ({key})")
                st.chunk_sets += 1
            if st.recording:
                st.events.append((kind, key))

    async def set(self, key, value):
        self._gate("set", key)
        await self._store.set(key, value)

    async def set_if_not_exists(self, key, value):
        if not await self._store.exists(key):
            self._gate("set", key)
        await self._store.set_if_not_exists(key, value)

    async def _set_many(self, values):
        for k, v in values:
            await self.set(k, v)

    def set_sync(self, key, value):
        self._gate("set", key)
        self._store.set_sync(key, value)

    async def delete(self, key):
        self._gate("delete", key)
        await self._store.delete(key)

    def delete_sync(self, key):
        self._gate("delete", key)
        self._store.delete_sync(key)

    async def delete_dir(self, prefix):
        self._gate("delete_dir", prefix)
        await self._store.delete_dir(prefix)

    async def clear(self):
        self._gate("clear", "")
        await self._store.clear()


# -------------------------------------------------------------------------------------------------
# listing / snapshots (read the wrapped store directly, never through the gate)
# -------------------------------------------------------------------------------------------------

def snapshot(store):
    """{key: bytes} of every *chunk* key currently in the store (metadata documents filtered)."""
    from zarr.core.buffer import default_buffer_prototype
    from zarr.core.sync import sync

    inner = store._store if isinstance(store, WrapperStore) else store

    async def go():
        out = {}
        keys = [k async for k in inner.list()]
        for k in keys:
            if is_chunk_key(k):
                b = await inner.get(k, default_buffer_prototype())
                out[k] = None if b is None else b.to_bytes()
        return out

    return sync(go())


def metadata_keys(store):
    from zarr.core.sync import sync

    inner = store._store if isinstance(store, WrapperStore) else store

    async def go():
        return sorted([k async for k in inner.list() if not is_chunk_key(k)])

    return sync(go())


def chunks_by_array(snap):
    out = {}
    for k in snap:
        a, c = split_key(k)
        out.setdefault(a, set()).add(c)
    return out


# -------------------------------------------------------------------------------------------------
# callbacks
# -------------------------------------------------------------------------------------------------

def make_recorder():
    """Callback recording which operations started / how many tasks ended per op in this compute."""
    from cubed.runtime.types import Callback

    class Recorder(Callback):
        def __init__(self):
            self.started = []
            self.tasks = {}

        def on_operation_start(self, event):
            self.started.append(event.name)

        def on_task_end(self, event):
            self.tasks[event.name] = self.tasks.get(event.name, 0) + getattr(event, "num_tasks", 1)

    return Recorder()
