"""Crash injection and observation helpers for C09 (resume after a crash).

Nothing here touches /repo: the store is handed to cubed as ``Spec(intermediate_store=CrashStore(...))``,
operations executed on resume are observed through a ``Callback``, the create step is observed by
wrapping the stage function of the plan's ``create-arrays`` pipeline inside the harness process.

`CrashStore` wraps a zarr store and
  * counts writes (`set` of a chunk key or of a metadata document — both are crash points; chunk keys are
    those whose last path component is not a metadata document),
  * when armed with ``crash_after=j`` lets exactly j writes through and raises `InjectedCrash`
    on every later mutation — the "power cut" stays in effect until `disarm()`, so executor retries
    cannot get past it,
  * records every mutation as an event (set / delete / delete_dir / clear) for the "no chunk is ever
    removed" oracle.
The armed state lives in a small shared directory-less object (`State`) so copies made by zarr
(`with_read_only`, `_with_store`) share it.  A write is atomic (LocalStore writes a temp file and renames;
MemoryStore assigns a dict entry): the crash happens *between* writes, never inside one.
"""
from __future__ import annotations

import threading
import time

from zarr.storage import WrapperStore

METADATA_DOCS = ("zarr.json", ".zarray", ".zattrs", ".zgroup", ".zmetadata")


class InjectedCrash(BaseException):
    """Raised by the store once the crash point is reached.  Derives from BaseException so that no
    `except Exception` inside cubed / tenacity can swallow or retry it."""


def is_chunk_key(key: str) -> bool:
    return key.rsplit("/", 1)[-1] not in METADATA_DOCS


def split_key(key: str):
    """'array-003/c/0/1' -> ('array-003', '0/1');  0-d chunk 'array-003/c' -> ('array-003', '')."""
    parts = key.split("/")
    arr = parts[0]
    rest = parts[1:]
    if rest and rest[0] == "c":
        rest = rest[1:]
    return arr, "/".join(rest)


class State:
    def __init__(self):
        self.lock = threading.Lock()
        self.crash_after = None    # None = never crash
        self.sets = 0              # writes let through since the last reset
        self.crashed = False
        self.events = []           # (kind, key)
        self.debug = []            # (kind, key, thread name, monotonic time) — diagnostics only
        self.recording = True
        self.trace_gets = False    # also record ("get", key) for chunk keys
        self.inflight = 0          # writes that passed the gate and have not reached the wrapped store yet

    def __getstate__(self):
        # the processes executor pickles the store into the workers: they get a disarmed, private copy
        return {"crash_after": None, "sets": 0, "crashed": False, "events": [], "debug": [], "recording": False,
                "trace_gets": False, "inflight": 0}

    def __setstate__(self, d):
        self.__dict__.update(d)
        self.lock = threading.Lock()

    def reset(self, crash_after=None):
        with self.lock:
            self.crash_after = crash_after
            self.sets = 0
            self.crashed = False
            self.events = []
            self.debug = []


def drain_zarr_loop(timeout=10.0):
    """Wait until zarr's IO loop has no unfinished task.  zarr writes the chunks of one selection with concurrent
    coroutines; when one of them hits the crash the others are still queued (they have not reached the store yet) and
    would otherwise run later — after the store has been brought up again.  A real crash kills them."""
    import asyncio

    try:
        from zarr.core.sync import _get_loop
        loop = _get_loop()
    except Exception:  # noqa: BLE001
        return False

    async def drain():
        me = asyncio.current_task()
        while True:
            if not [t for t in asyncio.all_tasks() if t is not me and not t.done()]:
                return True
            await asyncio.sleep(0.002)

    try:
        return asyncio.run_coroutine_threadsafe(drain(), loop).result(timeout=timeout)
    except Exception:  # noqa: BLE001
        return False


class CrashStore(WrapperStore):
    def __init__(self, store, state=None):
        super().__init__(store)
        self.state = state if state is not None else State()

    def _with_store(self, store):
        return type(self)(store, self.state)

    # the wrapped store's synchronous fast path would bypass `set`; force the async path
    @property
    def _supports_sync_io(self):
        return False

    def __eq__(self, other):
        return type(self) is type(other) and self._store == other._store

    def __hash__(self):
        return id(self.state)

    # -- control ------------------------------------------------------------------------------
    def arm(self, crash_after):
        self.state.reset(crash_after)

    def disarm(self):
        self.state.reset(None)

    def quiesce(self, timeout=10.0):
        """Wait until every write that passed the gate has reached the wrapped store (zarr issues the chunk writes
        of one selection concurrently; those already admitted when the crash hits still complete)."""
        drain_zarr_loop(timeout)
        t0 = time.time()
        while self.state.inflight > 0 and time.time() - t0 < timeout:
            time.sleep(0.002)
        return self.state.inflight == 0

    def mark(self, kind, what):
        """Append a marker event (operation / task boundaries from callbacks)."""
        with self.state.lock:
            self.state.events.append((kind, what))

    # -- mutation gate --------------------------------------------------------------------------
    def _gate(self, kind, key):
        st = self.state
        with st.lock:
            if st.crashed:
                raise InjectedCrash(f"store is down ({kind} {key})")
            if kind == "set":
                if st.crash_after is not None and st.sets >= st.crash_after:
                    st.crashed = True
                    raise InjectedCrash(f"crash before write #{st.sets} ({key})")
                st.sets += 1
            if st.recording:
                st.events.append((kind, key))
                st.debug.append((kind, key, threading.current_thread().name, round(time.monotonic(), 4)))

    async def _admitted(self, coro):
        st = self.state
        with st.lock:
            st.inflight += 1
        try:
            await coro
        finally:
            with st.lock:
                st.inflight -= 1

    async def set(self, key, value):
        self._gate("set", key)
        await self._admitted(self._store.set(key, value))

    async def set_if_not_exists(self, key, value):
        if not await self._store.exists(key):
            self._gate("set", key)
        await self._admitted(self._store.set_if_not_exists(key, value))

    def _saw_get(self, key):
        st = self.state
        if st.trace_gets and st.recording and is_chunk_key(key):
            with st.lock:
                st.events.append(("get", key))

    async def get(self, key, prototype, byte_range=None):
        self._saw_get(key)
        return await self._store.get(key, prototype, byte_range)

    async def get_partial_values(self, prototype, key_ranges):
        key_ranges = list(key_ranges)
        for k, _ in key_ranges:
            self._saw_get(k)
        return await self._store.get_partial_values(prototype, key_ranges)

    async def _get_many(self, requests):
        requests = list(requests)
        for r in requests:
            self._saw_get(r[0])
        async for req in self._store._get_many(requests):
            yield req

    async def _set_many(self, values):
        for k, v in values:
            await self.set(k, v)

    def set_sync(self, key, value):
        self._gate("set", key)
        self._store.set_sync(key, value)

    async def delete(self, key):
        self._gate("delete", key)
        await self._store.delete(key)

    def delete_sync(self, key):
        self._gate("delete", key)
        self._store.delete_sync(key)

    async def delete_dir(self, prefix):
        self._gate("delete_dir", prefix)
        await self._store.delete_dir(prefix)

    async def clear(self):
        self._gate("clear", "")
        await self._store.clear()


# -------------------------------------------------------------------------------------------------
# listing / snapshots (read the wrapped store directly, never through the gate)
# -------------------------------------------------------------------------------------------------

def snapshot(store):
    """{key: bytes} of every *chunk* key currently in the store (metadata documents filtered)."""
    from zarr.core.buffer import default_buffer_prototype
    from zarr.core.sync import sync

    inner = store._store if isinstance(store, WrapperStore) else store

    async def go():
        out = {}
        keys = [k async for k in inner.list()]
        for k in keys:
            if is_chunk_key(k):
                b = await inner.get(k, default_buffer_prototype())
                out[k] = None if b is None else b.to_bytes()
        return out

    return sync(go())


def metadata_keys(store):
    from zarr.core.sync import sync

    inner = store._store if isinstance(store, WrapperStore) else store

    async def go():
        return sorted([k async for k in inner.list() if not is_chunk_key(k)])

    return sync(go())


def chunks_by_array(snap):
    out = {}
    for k in snap:
        a, c = split_key(k)
        out.setdefault(a, set()).add(c)
    return out


# -------------------------------------------------------------------------------------------------
# callbacks
# -------------------------------------------------------------------------------------------------

def make_recorder():
    """Callback recording which operations started / how many tasks ended per op in this compute."""
    from cubed.runtime.types import Callback

    class Recorder(Callback):
        def __init__(self):
            self.started = []
            self.tasks = {}

        def on_operation_start(self, event):
            self.started.append(event.name)

        def on_task_end(self, event):
            self.tasks[event.name] = self.tasks.get(event.name, 0) + getattr(event, "num_tasks", 1)

    return Recorder()
