"""C03 — measuring executor and the op catalogue of the memory oracle.

`MeasuringExecutor` is an in-process `DagExecutor`: it walks `visit_nodes(dag)` like the single-threaded executor and
runs every task under `tracemalloc` (which sees NumPy data buffers, `bytes`/`bytearray` objects and everything else
allocated through the Python allocators): per task  gc.collect → base = traced now → reset_peak → run → peak − base.
The per-op maximum is compared with `primitive_op.projected_mem` of the *finalized* plan node that is being executed.

A task whose measured peak exceeds the projection is re-run (tasks are idempotent) and the minimum of the measurements
is kept: first-use effects (lazy imports, codec/registry caches) are not the property's subject.

`run_case(case)` builds one catalogue entry (op × geometry × dtype × fused/unfused × compressor × input kind) and
returns the measurements; it is a module-level function so that it can be used from worker processes (spawn).
"""
from __future__ import annotations

import gc
import math
import os
import shutil
import sys
import tempfile
import tracemalloc

RESERVED = 1_000_000          # calibrated non-data allowance (see calibrate()); the property says projected includes it
ALLOWED = 4_000_000_000
REMEASURE = 4                 # extra runs of a task whose peak exceeded the projection (min is kept)


def pin_zarr():
    """Make the measurement independent of zarr's internal concurrency: one chunk in flight in the codec pipeline, one
    codec thread.  (With the defaults — 10 concurrent chunks, a thread pool — the number of encoded/decoded buffers alive
    at the same time depends on scheduling; the pinned run is a lower bound of what a default run holds.)"""
    try:
        import zarr
        zarr.config.set({"async.concurrency": 1, "threading.max_workers": 1})
        return True
    except Exception:
        return False


def _use_repo():
    repo = os.path.abspath(os.environ.get("VERIF_REPO", "/repo"))
    if repo not in sys.path:
        sys.path.insert(0, repo)
    here = os.path.dirname(os.path.abspath(__file__))
    if here not in sys.path:
        sys.path.insert(1, here)


def make_executor():
    _use_repo()
    from cubed.runtime.pipeline import visit_nodes
    from cubed.runtime.types import DagExecutor

    class MeasuringExecutor(DagExecutor):
        """Runs each task in-process under tracemalloc; records per-op peaks."""

        def __init__(self):
            self.ops = {}   # op name -> dict(projected, peak, peak_task, ntasks, first_peak)

        @property
        def name(self):
            return "measuring"

        def _measure(self, pipeline, m):
            gc.collect()
            base, _ = tracemalloc.get_traced_memory()
            tracemalloc.reset_peak()
            pipeline.function(m, config=pipeline.config)
            _, peak = tracemalloc.get_traced_memory()
            return peak - base

        def execute_dag(self, dag, callbacks=None, spec=None, compute_id=None, **kwargs):
            started = not tracemalloc.is_tracing()
            if started:
                tracemalloc.start(1)
            try:
                for name, node in visit_nodes(dag):
                    pipeline = node["pipeline"]
                    op = node.get("primitive_op")
                    projected = op.projected_mem if op is not None else None
                    rec = {"projected": projected, "peak": 0, "peak_task": None, "ntasks": 0, "first_peak": 0,
                           "op_name": node.get("op_name"), "reserved": getattr(op, "reserved_mem", None),
                           "desc": None}
                    persistent = 0
                    for m in pipeline.mappable:
                        if persistent >= 2:
                            # the op already fails repeatably on two tasks: run the rest for their outputs only
                            pipeline.function(m, config=pipeline.config)
                            rec["ntasks"] += 1
                            continue
                        p = self._measure(pipeline, m)
                        first = p
                        if projected is not None and p > projected:
                            for _ in range(REMEASURE):
                                p = min(p, self._measure(pipeline, m))
                                if p <= projected:
                                    break
                            if p > projected:
                                persistent += 1
                        rec["ntasks"] += 1
                        if p > rec["peak"]:
                            rec["peak"], rec["peak_task"] = p, (list(m) if isinstance(m, (list, tuple)) else repr(m)[:60])
                        rec["first_peak"] = max(rec["first_peak"], first)
                    rec["desc"] = describe_op(pipeline, rec["peak_task"])
                    self.ops[name] = rec
            finally:
                if started:
                    tracemalloc.stop()

    return MeasuringExecutor()


# ---------------------------------------------------------------------------------------------------------
# geometry / inputs
# ---------------------------------------------------------------------------------------------------------

GEOMS = ["square", "skinny", "uneven"]
DTYPES = ["float64", "float32", "int32", "int64", "uint8", "complex64"]
COMPRESSORS = ["none", "default"]


def geometry(geom, itemsize, chunk_bytes):
    """2-D shape/chunks with chunks of ~chunk_bytes: square 2x2 blocks; skinny 2x2 blocks of 8 x n; uneven: 3x3 blocks
    whose last row/column is a third of a chunk."""
    n = max(chunk_bytes // itemsize, 64)
    if geom == "square":
        s = int(math.isqrt(n))
        return (2 * s, 2 * s), (s, s)
    if geom == "skinny":
        w = n // 8
        return (16, 2 * w), (8, w)
    if geom == "uneven":
        s = int(math.isqrt(n))
        r = max(s // 3, 1)
        return (2 * s + r, 2 * s + r), (s, s)
    raise ValueError(geom)


def np_random(shape, dtype, seed):
    """Incompressible data of the dtype (so that compressed buffers are as large as the projection assumes)."""
    import numpy as np
    rng = np.random.default_rng(seed)
    dt = np.dtype(dtype)
    if dt.kind == "f":
        return rng.random(shape, dtype="float64").astype(dt) if dt.itemsize != 8 else rng.random(shape)
    if dt.kind == "c":
        return (rng.random(shape) + 1j * rng.random(shape)).astype(dt)
    if dt.kind == "b":
        return rng.integers(0, 2, size=shape).astype(dt)
    info = np.iinfo(dt)
    return rng.integers(max(info.min, -2**31), min(info.max, 2**31 - 1), size=shape, dtype=dt if dt.itemsize >= 4 else "int64").astype(dt)


def np_smooth(shape, dtype, seed):
    """Compressible data (a short period pattern): compressed buffers are a small fraction of the chunk."""
    import numpy as np
    dt = np.dtype(dtype)
    n = int(np.prod(shape))
    base = (np.arange(n, dtype="int64") + seed) % 7
    if dt.kind == "c":
        return (base + 1j * base).astype(dt).reshape(shape)
    return base.astype(dt).reshape(shape)


def write_input(path, shape, chunks, dtype, compressor, seed, data="random"):
    """A real zarr array on disk."""
    import zarr
    kw = {}
    if compressor == "none":
        kw["compressors"] = None
    z = zarr.create_array(store=path, shape=shape, chunks=chunks, dtype=dtype, **kw)
    z[...] = np_random(shape, dtype, seed) if data == "random" else np_smooth(shape, dtype, seed)
    return z


# ---------------------------------------------------------------------------------------------------------
# op catalogue: name -> (ninputs, builder(xp, cubed, a, b, case) -> array | tuple of arrays, tags)
# ---------------------------------------------------------------------------------------------------------

def _floatish(dt):
    return dt.startswith("float") or dt.startswith("complex")


def catalogue():
    _use_repo()
    import cubed
    import cubed.array_api as xp

    def realdt(a):
        return str(a.dtype)

    C = {}

    def op(name, nin=1, only=None, skip=None, geoms=None):
        def deco(f):
            C[name] = {"f": f, "nin": nin, "only": only, "skip": skip, "geoms": geoms}
            return f
        return deco

    num = lambda dt: not dt.startswith("complex")           # ordered dtypes
    flt = lambda dt: dt.startswith("float")
    integer = lambda dt: dt.startswith("int") or dt.startswith("uint")

    # elementwise
    op("negative", only=lambda dt: dt != "uint8")(lambda a, b, c: xp.negative(a))
    op("add", 2)(lambda a, b, c: xp.add(a, b))
    op("chain3", 2)(lambda a, b, c: xp.subtract(xp.multiply(xp.add(a, b), a), b))
    op("diamond", 2)(lambda a, b, c: xp.add(xp.multiply(a, b), xp.subtract(a, b)))
    op("astype_widen", only=lambda dt: dt in ("float32", "int32", "uint8"))(
        lambda a, b, c: xp.astype(a, {"float32": xp.float64, "int32": xp.int64, "uint8": xp.int32}[realdt(a)]))
    op("sqrt", only=_floatish)(lambda a, b, c: xp.sqrt(a))
    op("greater", 2, only=num)(lambda a, b, c: xp.greater(a, b))
    op("where", 2, only=num)(lambda a, b, c: xp.where(xp.greater(a, b), a, b))
    op("isnan", only=_floatish)(lambda a, b, c: xp.isnan(a))
    op("abs_complex", only=lambda dt: dt.startswith("complex"))(lambda a, b, c: xp.abs(a))
    op("clip", only=flt)(lambda a, b, c: xp.clip(a, 0.25, 0.75))
    op("bcast_add", 2)(lambda a, b, c: xp.add(a, b[:1, :]))
    # reductions
    op("sum_axis0")(lambda a, b, c: xp.sum(a, axis=0))
    op("sum_all")(lambda a, b, c: xp.sum(a))
    op("prod_axis1", only=num)(lambda a, b, c: xp.prod(a, axis=1))
    op("max_axis1", only=num)(lambda a, b, c: xp.max(a, axis=1))
    op("min_all", only=num)(lambda a, b, c: xp.min(a))
    op("mean_axis0", only=_floatish)(lambda a, b, c: xp.mean(a, axis=0))
    op("mean_all", only=flt)(lambda a, b, c: xp.mean(a))
    op("var_axis1", only=flt)(lambda a, b, c: xp.var(a, axis=1))
    op("std_all", only=flt)(lambda a, b, c: xp.std(a))
    op("argmax_axis0", only=num)(lambda a, b, c: xp.argmax(a, axis=0))
    op("argmin_axis1", only=num)(lambda a, b, c: xp.argmin(a, axis=1))
    op("any_axis0", only=num)(lambda a, b, c: xp.any(xp.greater(a, b), axis=0) if b is not None else xp.any(a, axis=0), )
    op("nansum_axis0", only=flt)(lambda a, b, c: cubed.nansum(a, axis=0))
    op("nanmean_axis1", only=flt)(lambda a, b, c: cubed.nanmean(a, axis=1))
    op("sum_keepdims_fused", 2)(lambda a, b, c: xp.sum(xp.add(a, b), axis=1, keepdims=True))
    op("count_nonzero", only=num)(lambda a, b, c: xp.count_nonzero(a, axis=0))
    # scans
    op("cumulative_sum_axis0", only=num)(lambda a, b, c: xp.cumulative_sum(a, axis=0))
    op("cumulative_sum_axis1", only=flt)(lambda a, b, c: xp.cumulative_sum(a, axis=1))
    op("diff", only=flt)(lambda a, b, c: xp.diff(a, axis=0))
    # rechunk
    op("rechunk_transposed")(lambda a, b, c: a.rechunk((max(a.chunksize[0] // 2, 1), min(a.chunksize[1] * 2, a.shape[1]))))
    # each task's copy block spans many (thin) chunks of the target array
    op("rechunk_thin")(lambda a, b, c: a.rechunk((a.shape[0], max(a.chunksize[1] // 16, 1))))
    op("identity")(lambda a, b, c: a)       # with case["store_chunks"]: cubed.store into an existing, finer-chunked Zarr array
    op("rechunk_rows")(lambda a, b, c: a.rechunk((min(a.chunksize[0] * 2, a.shape[0]), max(a.chunksize[1] // 2, 1))))
    op("rechunk_after_add", 2)(lambda a, b, c: xp.add(a, b).rechunk((max(a.chunksize[0] // 2, 1), min(a.chunksize[1] * 2, a.shape[1]))))
    # indexing
    op("index_offset")(lambda a, b, c: a[1:, :])
    op("index_both")(lambda a, b, c: a[1:-1, 3:])
    op("index_step")(lambda a, b, c: a[::2, :])
    op("index_step_offset")(lambda a, b, c: a[3::3, :])
    op("index_aligned")(lambda a, b, c: a[: a.chunksize[0], :])
    op("index_int_array")(lambda a, b, c: a[list(range(0, a.shape[0], 3)), :])
    op("take")(lambda a, b, c: xp.take(a, xp.asarray(list(range(a.shape[0] - 1, -1, -2)), spec=a.spec), axis=0))
    # manipulation
    op("concat_axis0", 2)(lambda a, b, c: xp.concat((a[:-1, :], b), axis=0))
    op("concat_axis1", 2)(lambda a, b, c: xp.concat((a, b), axis=1))
    op("stack_axis0", 2)(lambda a, b, c: xp.stack((a, b), axis=0))
    op("stack_axis2", 2)(lambda a, b, c: xp.stack((a, b), axis=2))
    op("unstack_single_block", 2)(lambda a, b, c: xp.unstack(xp.stack((a, b), axis=0).rechunk((2,) + tuple(a.chunksize)), axis=0))
    op("unstack_multi_block", 2)(lambda a, b, c: xp.unstack(xp.stack((a, b, a, b), axis=0), axis=0))
    op("unstack_axis0", geoms=("special",))(lambda a, b, c: xp.unstack(a, axis=0))    # 3-d input given by case["shape"]/["chunks"]
    op("repeat_axis0")(lambda a, b, c: xp.repeat(a, 3, axis=0))
    op("repeat_axis1")(lambda a, b, c: xp.repeat(a, 2, axis=1))
    op("tile")(lambda a, b, c: xp.tile(a, (2, 1)))
    op("flip_axis0")(lambda a, b, c: xp.flip(a, axis=0))
    op("flip_all")(lambda a, b, c: xp.flip(a))
    op("roll")(lambda a, b, c: xp.roll(a, 5, axis=0))
    op("reshape_split", geoms=("square", "skinny"))(lambda a, b, c: xp.reshape(a, (a.shape[0], 2, a.shape[1] // 2)))
    op("reshape_merge")(lambda a, b, c: xp.reshape(xp.expand_dims(a, axis=0), (a.shape[0], a.shape[1])))
    op("expand_dims")(lambda a, b, c: xp.expand_dims(a, axis=1))
    op("transpose")(lambda a, b, c: xp.matrix_transpose(a))
    op("permute_after_add", 2)(lambda a, b, c: xp.permute_dims(xp.add(a, b), (1, 0)))
    op("broadcast_to")(lambda a, b, c: xp.broadcast_to(a[:1, :], a.shape))
    op("moveaxis")(lambda a, b, c: xp.moveaxis(xp.stack((a, a), axis=0), 0, 2))
    op("pad")(lambda a, b, c: cubed.pad(a, ((1, 0), (0, 0)), mode="symmetric"))
    op("tril")(lambda a, b, c: xp.tril(a))
    # linear algebra
    op("matmul", 2, only=_floatish)(lambda a, b, c: xp.matmul(a, xp.matrix_transpose(b)))
    op("tensordot", 2, only=_floatish)(lambda a, b, c: xp.tensordot(a, xp.matrix_transpose(b), axes=1))
    op("vecdot", 2, only=flt)(lambda a, b, c: xp.vecdot(a, b, axis=0))
    op("outer", only=flt, geoms=("skinny",))(lambda a, b, c: xp.linalg.outer(a[0, :1400], a[1, :1400]))
    op("qr", only=lambda dt: dt == "float64", geoms=("qr",))(lambda a, b, c: tuple(xp.linalg.qr(a)))
    # creation (no inputs)
    op("ones", 0)(lambda a, b, c: xp.ones(c["shape"], dtype=getattr(xp, c["dtype"]), chunks=c["chunks"], spec=c["spec"]))
    op("arange_sum", 0, only=num)(lambda a, b, c: xp.sum(xp.arange(c["shape"][0] * c["shape"][1] // 4, dtype=getattr(xp, c["dtype"]) if c["dtype"] != "uint8" else xp.int32,
                                                                    chunks=c["chunks"][0] * c["chunks"][1], spec=c["spec"])))
    op("random_add", 0, only=lambda dt: dt == "float64")(
        lambda a, b, c: xp.add(cubed.random.random(c["shape"], chunks=c["chunks"], spec=c["spec"]), cubed.random.random(c["shape"], chunks=c["chunks"], spec=c["spec"])))
    op("eye", 0, only=flt, geoms=("square", "uneven"))(lambda a, b, c: xp.eye(c["shape"][0], c["shape"][1], dtype=getattr(xp, c["dtype"]), chunks=c["chunks"], spec=c["spec"]))
    # generic
    op("map_blocks")(lambda a, b, c: cubed.map_blocks(lambda x: x * 2, a, dtype=a.dtype))
    op("map_overlap", only=flt)(lambda a, b, c: cubed.map_overlap(lambda x: x, a, dtype=a.dtype, chunks=a.chunks, depth=1, boundary=0, trim=True)
                                  if False else cubed.map_overlap(lambda x: x[1:-1, 1:-1], a, dtype=a.dtype, chunks=a.chunks, depth=1, boundary=0, trim=False))
    op("isin", only=integer)(lambda a, b, c: xp.isin(a, xp.asarray([1, 2, 3], dtype=a.dtype, spec=a.spec)))
    return C


def applicable(name, entry, geom, dtype):
    if entry["only"] is not None and not entry["only"](dtype):
        return False
    g = entry["geoms"]
    if g is None:
        return geom in GEOMS
    return geom in g


def case_list():
    """All (op, geom, dtype) triples that make sense (static, no cubed import of arrays)."""
    C = catalogue()
    out = []
    for name, e in C.items():
        geoms = e["geoms"] or GEOMS
        for g in geoms:
            if g == "special":
                continue
            for dt in DTYPES:
                if applicable(name, e, g, dt):
                    out.append((name, g, dt))
    return out


def _func_name(f):
    import functools
    while isinstance(f, functools.partial):
        f = f.func
    return getattr(f, "__name__", type(f).__name__)


def describe_keys(fargs):
    """Structure of what a key function designates for one task: number of eagerly loaded leaves per source array,
    lengths of streams (lazily loaded), whether streams occur below a fused predecessor / contain fused items."""
    from collections.abc import Iterator

    from cubed.primitive.blockwise import ChunkKey, FunctionArgs
    d = {"eager": {}, "streams": [], "stream_leaves": {}, "fused_in_stream": False, "depth": 0}

    def walk(x, in_stream, depth):
        d["depth"] = max(d["depth"], depth)
        if isinstance(x, ChunkKey):
            tgt = d["stream_leaves"] if in_stream else d["eager"]
            tgt[x.name] = tgt.get(x.name, 0) + 1
        elif isinstance(x, FunctionArgs):
            if in_stream and depth > 1:
                d["fused_in_stream"] = True
            for a in x.args:
                walk(a, in_stream, depth + 1)
        elif isinstance(x, list):
            for a in x:
                walk(a, in_stream, depth)
        elif isinstance(x, Iterator):
            items = list(x)
            d["streams"].append(len(items))
            for a in items:
                walk(a, True, depth)
    walk(fargs, False, 0)
    return d


def describe_op(pipeline, task=None):
    """Descriptor used by the classifier of the oracle: fused?, function names, key structure of `task` (default: the first)."""
    try:
        from cubed.primitive.blockwise import BlockwiseSpec, ChunkKey
        cfg = pipeline.config
        if not isinstance(cfg, BlockwiseSpec):
            return {"kind": "other", "pipeline": str(pipeline.name)}
        first = task if isinstance(task, (list, tuple)) else next(iter(pipeline.mappable))
        keys = describe_keys(cfg.back_key_function(ChunkKey("out", tuple(first))))
        srcs = {}
        for name, proxy in cfg.reads_map.items():
            arr = proxy.array
            try:
                srcs[name] = source_chunk_bytes(arr)
            except Exception:
                srcs[name] = None
        outs = []
        for name, proxy in cfg.writes_map.items():
            outs.append(itemsize_of(proxy.array.dtype) * math.prod(proxy.chunks))
        import functools
        fkw = {}
        f = cfg.function
        while isinstance(f, functools.partial):
            for k, v in (f.keywords or {}).items():
                if callable(v):
                    fkw[k] = _func_name(v)
            f = f.func
        return {"kind": "blockwise", "pipeline": str(pipeline.name), "fused": str(pipeline.name).startswith("fused"),
                "func": _func_name(cfg.function), "func_kw": fkw, "keys": keys, "src_chunk_bytes": srcs, "out_chunk_bytes": outs,
                "num_input_blocks": list(cfg.num_input_blocks)}
    except Exception as e:  # descriptor is best effort; never disturbs the measurement
        return {"kind": "error", "error": repr(e)[:200]}


def itemsize_of(dtype):
    """Independent of cubed.utils.itemsize: NumPy's itemsize (structured dtypes given as lists included)."""
    import numpy as np
    return int(np.dtype(dtype).itemsize)


def chunks_desc(chunks):
    """('R', [c…]) for a tuple of ints, ('X', [[…],…]) for a tuple of tuples — what `largest_chunk` distinguishes."""
    chunks = tuple(chunks)
    if len(chunks) == 0 or isinstance(chunks[0], int):
        return "R", [int(c) for c in chunks]
    return "X", [[int(x) for x in c] for c in chunks]


def source_chunk_bytes(arr):
    kind, ch = chunks_desc(arr.chunks)
    if kind == "R":
        return itemsize_of(arr.dtype) * math.prod(ch)
    return itemsize_of(arr.dtype) * math.prod(max(c, default=1) for c in ch)


def build(case):
    """Inputs + the catalogue entry of `case`; returns (results, spec, tmpdir, shape, chunks)."""
    _use_repo()
    import numpy as np

    import cubed
    import cubed.array_api as xp

    C = catalogue()
    e = C[case["op"]]
    tmp = tempfile.mkdtemp(prefix="c03-", dir="/dev/shm" if os.path.isdir("/dev/shm") else None)
    try:
        comp = None if case["compressor"] == "none" else "auto"
        work_dir = case.get("work_dir") or tmp
        spec = cubed.Spec(work_dir=work_dir, allowed_mem=case.get("allowed", ALLOWED), reserved_mem=case.get("reserved", RESERVED),
                          zarr_compressor=comp)
        itemsize = np.dtype(case["dtype"]).itemsize
        if case.get("shape"):
            shape, chunks = tuple(case["shape"]), tuple(case["chunks"])
        elif case["geom"] == "qr":
            n = 64 if case["chunk_bytes"] >= 64 * 64 * itemsize else 4
            m = max(case["chunk_bytes"] // itemsize // n, n)
            shape, chunks = (4 * m, n), (m, n)
        else:
            shape, chunks = geometry(case["geom"], itemsize, case["chunk_bytes"])
        ins = []
        for i in range(e["nin"]):
            if case["input"] == "zarr":
                p = os.path.join(tmp, f"in{i}.zarr")
                write_input(p, shape, chunks, case["dtype"], case["compressor"], case.get("seed", 0) * 7 + i, case.get("data", "random"))
                ins.append(cubed.from_zarr(p, spec=spec))
            else:
                x = cubed.random.random(shape, chunks=chunks, spec=spec)   # float64: chunks are 8/itemsize times chunk_bytes
                dt = case["dtype"]
                if dt.startswith("int") or dt.startswith("uint"):
                    x = xp.astype(xp.multiply(x, 100.0), getattr(xp, dt))
                elif dt != "float64":
                    x = xp.astype(x, getattr(xp, dt))
                ins.append(x)
        a = ins[0] if ins else None
        b = ins[1] if len(ins) > 1 else None
        ctx = {"shape": shape, "chunks": chunks, "dtype": case["dtype"], "spec": spec}
        res = e["f"](a, b, ctx)
        results = list(res) if isinstance(res, (tuple, list)) else [res]
        return results, spec, tmp, shape, chunks
    except Exception:
        shutil.rmtree(tmp, ignore_errors=True)
        raise


def run_case(case):
    """case: dict(op, geom, dtype, fuse, compressor, chunk_bytes, input in {"zarr","computed"}, seed).
    Returns dict(case=…, ops=[{name, op_name, projected, peak, ntasks, …}], error=None|str)."""
    _use_repo()
    tmp = None
    import time
    t0 = time.time()
    try:
        pin_zarr()
        import cubed
        results, spec, tmp, shape, chunks = build(case)
        t1 = time.time()
        ex = make_executor()
        targets = (None,) * len(results)
        if case.get("store_chunks"):
            # pre-existing target whose chunks are finer than (and divide) the task's block; no compressor
            import zarr
            targets = [zarr.create_array(store=os.path.join(tmp, f"target{i}.zarr"), shape=x.shape, chunks=tuple(case["store_chunks"]),
                                         dtype=x.dtype, compressors=None) for i, x in enumerate(results)]
        cubed.store(results, targets, executor=ex, optimize_graph=bool(case["fuse"]))
        ops = []
        for name, rec in ex.ops.items():
            rec = dict(rec)
            rec["name"] = name
            ops.append(rec)
        return {"case": case, "shape": list(shape), "chunks": list(chunks), "ops": ops, "error": None,
                "t_build": round(t1 - t0, 2), "t_exec": round(time.time() - t1, 2), "pid": os.getpid()}
    except Exception as ex_:  # the catalogue entry could not be built / run: reported, not a C03 failure by itself
        import traceback
        return {"case": case, "ops": [], "error": "%s: %s" % (type(ex_).__name__, str(ex_)[:300]), "tb": traceback.format_exc()[-1200:]}
    finally:
        if tmp:
            shutil.rmtree(tmp, ignore_errors=True)


# ---------------------------------------------------------------------------------------------------------
# ingredients of the projected memory of every op of a plan (for the correspondence with the Lean model)
# ---------------------------------------------------------------------------------------------------------

class Recorder:
    """Harness-process monkey patch of `general_blockwise` / `fuse_multiple` / `fuse`: records, per returned
    PrimitiveOperation, the arguments the projection was computed from."""
    installed = False
    bw = {}
    fusions = {}
    keep = []


def install_recorder():
    _use_repo()
    if Recorder.installed:
        return
    import cubed.core.ops as co
    import cubed.core.optimization as opt
    import cubed.primitive.blockwise as pb

    orig_gb = pb.general_blockwise

    def general_blockwise(func, back_key_function, *arrays, **kw):
        op = orig_gb(func, back_key_function, *arrays, **kw)
        try:
            bc = kw.get("buffer_copies")
            srcs = []
            for a in arrays:
                kind, ch = chunks_desc(a.chunks)
                srcs.append({"itemsize": itemsize_of(a.dtype), "kind": kind, "chunks": ch,
                             "shape": [int(x) for x in a.shape]})
            outs = []
            for name, proxy in op.pipeline.config.writes_map.items():
                outs.append({"itemsize": itemsize_of(proxy.array.dtype), "chunks": [int(c) for c in proxy.chunks]})
            Recorder.bw[id(op)] = {"reserved": int(kw["reserved_mem"]), "extra": int(kw.get("extra_projected_mem", 0)),
                                   "copies": None if bc is None else [int(bc.read), int(bc.write)],
                                   "srcs": srcs, "outs": outs, "func": _func_name(func),
                                   "kwargs": {k: (int(v) if isinstance(v, int) and not isinstance(v, bool) else None)
                                              for k, v in kw.items() if k in ("repeats",)},
                                   "projected": int(op.projected_mem)}
            Recorder.keep.append(op)
        except Exception as e:
            Recorder.bw[id(op)] = {"error": repr(e)[:200], "projected": int(op.projected_mem)}
            Recorder.keep.append(op)
        return op

    pb.general_blockwise = general_blockwise
    co.primitive_general_blockwise = general_blockwise

    def target_desc(p):
        ta = p.target_array
        kind, ch = chunks_desc(ta.chunks)
        return {"itemsize": itemsize_of(ta.dtype), "kind": kind, "chunks": ch}

    orig_fm = pb.fuse_multiple

    def fuse_multiple(primitive_op, *preds):
        res = orig_fm(primitive_op, *preds)
        try:
            Recorder.fusions[id(res)] = {"op": int(primitive_op.projected_mem),
                                         "preds": [{"projected": int(p.projected_mem), "target": target_desc(p)} for p in preds if p is not None],
                                         "projected": int(res.projected_mem), "how": "fuse_multiple"}
        except Exception as e:
            Recorder.fusions[id(res)] = {"error": repr(e)[:200], "projected": int(res.projected_mem)}
        Recorder.keep.append(res)
        return res

    pb.fuse_multiple = fuse_multiple
    opt.fuse_multiple = fuse_multiple

    orig_f = pb.fuse

    def fuse(op1, op2):
        res = orig_f(op1, op2)
        Recorder.fusions[id(res)] = {"pair": [int(op1.projected_mem), int(op2.projected_mem)], "projected": int(res.projected_mem), "how": "fuse"}
        Recorder.keep.append(res)
        return res

    pb.fuse = fuse
    if hasattr(opt, "fuse"):
        opt.fuse = fuse
    Recorder.installed = True


def plan_case(case):
    """Build the case (small sizes, nothing is executed) and return, for every op of the unoptimized and of the
    optimized finalized plan, the ingredients of its projected memory."""
    install_recorder()
    import cubed
    from cubed.core.array import plan as make_plan
    tmp = None
    try:
        results, spec, tmp, shape, chunks = build(case)
        recs = []
        for optimize in (False, True):
            kw = {}
            if optimize and case.get("optimizer") == "simple":
                from cubed.core.optimization import simple_optimize_dag
                kw["optimize_function"] = simple_optimize_dag
            elif optimize and case.get("optimizer") == "wide":
                from functools import partial

                from cubed.core.optimization import multiple_inputs_optimize_dag
                kw["optimize_function"] = partial(multiple_inputs_optimize_dag, max_total_source_arrays=8, max_total_num_input_blocks=40)
            fp = make_plan(*results, optimize_graph=optimize, **kw)
            mx = 0
            for name, d in fp.dag.nodes(data=True):
                op = d.get("primitive_op")
                if op is None:
                    continue
                mx = max(mx, int(op.projected_mem))
                rec = {"node": name, "op_name": d.get("op_name"), "optimized": optimize, "projected": int(op.projected_mem),
                       "reserved": int(op.reserved_mem), "allowed": int(op.allowed_mem)}
                if id(op) in Recorder.bw:
                    rec["how"] = "bw"
                    rec.update(Recorder.bw[id(op)])
                elif id(op) in Recorder.fusions:
                    rec.update(Recorder.fusions[id(op)])
                elif name == "create-arrays":
                    rec["how"] = "create"
                    rec["itemsizes"] = [itemsize_of(lza.dtype) for lza in op.pipeline.mappable]
                else:
                    rec["how"] = "unknown"
                try:
                    rec["desc"] = describe_op(op.pipeline)
                    rec["source_array_names"] = list(op.source_array_names)
                except Exception:
                    pass
                recs.append(rec)
            recs.append({"how": "max", "optimized": optimize, "projected": int(fp.max_projected_mem), "max_of_ops": mx})
        bc = cubed.primitive.memory.get_buffer_copies(spec)
        return {"case": case, "records": recs, "spec_copies": [int(bc.read), int(bc.write)], "error": None}
    except Exception as ex_:
        import traceback
        return {"case": case, "records": [], "error": "%s: %s" % (type(ex_).__name__, str(ex_)[:300]), "tb": traceback.format_exc()[-1200:]}
    finally:
        if tmp:
            shutil.rmtree(tmp, ignore_errors=True)


def _worker_init():
    # one BLAS / OpenMP thread per worker: the workers already use all cores, and thread pools only add noise
    for v in ("OMP_NUM_THREADS", "OPENBLAS_NUM_THREADS", "MKL_NUM_THREADS", "NUMEXPR_NUM_THREADS"):
        os.environ[v] = "1"
    _use_repo()
    catalogue()


def run_cases(cases, workers=4):
    """Run cases in `workers` fresh processes (spawn); order preserved."""
    if workers <= 1 or len(cases) <= 1:
        return [run_case(c) for c in cases]
    import multiprocessing as mp
    from concurrent.futures import ProcessPoolExecutor
    for v in ("OMP_NUM_THREADS", "OPENBLAS_NUM_THREADS", "MKL_NUM_THREADS", "NUMEXPR_NUM_THREADS"):
        os.environ.setdefault(v, "1")       # inherited by the spawned workers before NumPy is imported there
    with ProcessPoolExecutor(max_workers=min(workers, len(cases)), mp_context=mp.get_context("spawn"), initializer=_worker_init) as pool:
        return list(pool.map(run_case, cases, chunksize=1))


def calibrate(chunk_bytes=64):
    """Non-data allowance: peak of trivial tasks (a few bytes of data) — what reserved_mem has to cover."""
    out = []
    for opn in ("add", "sum_axis0", "rechunk_transposed", "index_offset", "concat_axis0"):
        r = run_case({"op": opn, "geom": "square", "dtype": "float64", "fuse": False, "compressor": "default",
                      "chunk_bytes": chunk_bytes, "input": "zarr", "reserved": 0})
        out.append((opn, max([o["peak"] for o in r["ops"]] or [0]), r["error"]))
    return out


if __name__ == "__main__":
    import json
    if sys.argv[1:2] == ["calibrate"]:
        for _ in range(2):
            print(calibrate())
    else:
        case = json.loads(sys.argv[1])
        r = run_case(case)
        print(json.dumps(r, indent=1, default=str))
