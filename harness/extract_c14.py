"""Plug-in extractor for C14: syntactic facts of the rechunk planners -> Model/GeneratedC14.lean.

The model (Model/Rechunk.lean) *uses* maxStages, stageCountStart, minMemDivisor and the total_copies
coefficients; Properties/C14.lean pins the remaining facts (operators, rounding function, formulas) with
`by decide`, so a change of any of them breaks the build (= a proof obligation that no longer checks).
"""
from __future__ import annotations

import ast

from extract import ExtractError, _cmp_op, _func, _module_const, _parse, _src, lean_str

ALG = "cubed/vendor/rechunker/algorithm.py"
RCH = "cubed/core/rechunk.py"
OPS = "cubed/core/ops.py"


def _assign_value(fn, name, rel):
    for node in ast.walk(fn):
        if isinstance(node, ast.Assign) and len(node.targets) == 1 and isinstance(node.targets[0], ast.Name) \
                and node.targets[0].id == name:
            return node.value
    raise ExtractError(f"{rel}:{fn.name}: assignment to {name} not found")


def _flatten_add(node):
    if isinstance(node, ast.BinOp) and isinstance(node.op, ast.Add):
        return _flatten_add(node.left) + _flatten_add(node.right)
    return [node]


def _loop_range(fn, rel):
    for node in ast.walk(fn):
        if isinstance(node, ast.For) and isinstance(node.target, ast.Name) and node.target.id == "stage_count":
            it = node.iter
            if isinstance(it, ast.Call) and _src(it.func) == "range" and len(it.args) == 2 \
                    and isinstance(it.args[0], ast.Constant) and _src(it.args[1]) == "MAX_STAGES":
                return node, it.args[0].value
            raise ExtractError(f"{rel}:{fn.name}: stage_count loop is no longer range(<const>, MAX_STAGES): {_src(it)}")
    raise ExtractError(f"{rel}:{fn.name}: stage_count loop not found")


def _if_with(fn, needle1, needle2, rel):
    for node in ast.walk(fn):
        if isinstance(node, ast.If) and _cmp_op(node.test):
            s = _src(node.test)
            if needle1 in s and needle2 in s:
                return node
    raise ExtractError(f"{rel}:{fn.name}: comparison of {needle1} and {needle2} not found")


def _planner_facts(put, t, rel, fname, prefix):
    fn = _func(t, fname, rel)
    loop, start = _loop_range(fn, rel)
    put(prefix + "StageCountStart", "Nat", str(start), f"{rel}:{fname}")
    n = _if_with(fn, "int_mem", "min_mem", rel)
    if _src(n.test.left) != "int_mem" or not any(isinstance(s, ast.Return) and _src(s.value) == "plan" for s in n.body):
        raise ExtractError(f"{rel}:{fname}: success test changed shape: {_src(n.test)}")
    put(prefix + "SuccessOp", "String", lean_str(_cmp_op(n.test)), f"{rel}:{fname}")
    ok = None
    for node in ast.walk(fn):
        if isinstance(node, ast.If) and isinstance(node.test, ast.BoolOp) and "io_ops" in _src(node.test):
            cmp = [v for v in node.test.values if _cmp_op(v) and _src(v.left) == "io_ops"]
            if cmp and _src(cmp[0].comparators[0]) == "prev_io_ops":
                ok = _cmp_op(cmp[0])
    if ok is None:
        raise ExtractError(f"{rel}:{fname}: io_ops vs prev_io_ops comparison not found")
    put(prefix + "IoStopOp", "String", lean_str(ok), f"{rel}:{fname}")
    srcs = [_src(_assign_value(fn, "source_chunk_mem", rel)), _src(_assign_value(fn, "target_chunk_mem", rel))]
    put(prefix + "ChunkMemFormulas", "String", lean_str(" | ".join(srcs)), f"{rel}:{fname}")
    guards = []
    for node in fn.body:
        if isinstance(node, ast.If) and _cmp_op(node.test) and any(isinstance(s, ast.Raise) for s in node.body):
            guards.append(_src(node.test))
    put(prefix + "Guards", "String", lean_str(" ; ".join(guards)), f"{rel}:{fname}")


def facts(repo):
    out = {}

    def put(name, typ, val, prov):
        out[name] = (typ, val, prov)

    # ---- algorithm.py --------------------------------------------------------------------------
    t = _parse(repo, ALG)
    put("maxStages", "Nat", str(_module_const(t, "MAX_STAGES", ALG)), ALG)
    _planner_facts(put, t, ALG, "multistage_rechunking_plan", "irr")

    fn = _func(t, "_calculate_shared_chunks", ALG)
    ret = [n for n in ast.walk(fn) if isinstance(n, ast.Return)]
    if len(ret) != 1:
        raise ExtractError(f"{ALG}:_calculate_shared_chunks: expected one return")
    put("sharedChunksExpr", "String", lean_str(_src(ret[0].value)), f"{ALG}:_calculate_shared_chunks")

    fn = _func(t, "calculate_stage_chunks", ALG)
    ret = [n for n in ast.walk(fn) if isinstance(n, ast.Return)]
    if len(ret) != 1:
        raise ExtractError(f"{ALG}:calculate_stage_chunks: expected one return")
    put("stageChunksExpr", "String", lean_str(_src(ret[0].value)), f"{ALG}:calculate_stage_chunks")
    put("stageChunksGeom", "String", lean_str(_src(_assign_value(fn, "approx_stages", ALG))), f"{ALG}:calculate_stage_chunks")

    fn = _func(t, "consolidate_chunks", ALG)
    n = _if_with(fn, "chunk_mem", "max_mem", ALG)
    put("consolidateRejectTest", "String", lean_str(_src(n.test)), f"{ALG}:consolidate_chunks")
    tests = [_src(n.test) for n in ast.walk(fn) if isinstance(n, ast.If) and "upper_bound_headroom" in _src(n.test)]
    if len(tests) != 1:
        raise ExtractError(f"{ALG}:consolidate_chunks: upper_bound_headroom test not found")
    put("consolidateMaxedTest", "String", lean_str(tests[0]), f"{ALG}:consolidate_chunks")
    put("consolidateLargerChunk", "String", lean_str(_src(_assign_value(fn, "larger_chunk", ALG))), f"{ALG}:consolidate_chunks")
    put("consolidateUpperBound", "String", lean_str(_src(_assign_value(fn, "upper_bound", ALG))), f"{ALG}:consolidate_chunks")
    put("consolidateAxesOrder", "String", lean_str(_src(_assign_value(fn, "axes", ALG))), f"{ALG}:consolidate_chunks")
    asserts = [_src(n.test) for n in ast.walk(fn) if isinstance(n, ast.Assert) and "headroom" in _src(n.test)]
    put("consolidateAssert", "String", lean_str(" ; ".join(asserts)), f"{ALG}:consolidate_chunks")

    # ---- rechunk.py ----------------------------------------------------------------------------
    t = _parse(repo, RCH)
    _planner_facts(put, t, RCH, "multistage_regular_rechunking_plan", "reg")
    fn = _func(t, "multistage_regular_rechunking_plan", RCH)
    fixes = [n for n in ast.walk(fn) if isinstance(n, ast.Assign) and isinstance(n.value, ast.Call)
             and _src(n.value.func) == "_fix_copy_chunks"]
    if len(fixes) != 1 or len(fixes[0].value.args) != 3:
        raise ExtractError(f"{RCH}:multistage_regular_rechunking_plan: expected exactly one _fix_copy_chunks(shape, read, target) call")
    loop, _ = _loop_range(fn, RCH)
    in_loop = any(n is fixes[0] for n in loop.body)
    stage_assign = [i for i, n in enumerate(loop.body) if isinstance(n, ast.Assign) and _src(n.targets[0]) == "stage_chunks"]
    pre_assign = [i for i, n in enumerate(loop.body) if isinstance(n, ast.Assign) and _src(n.targets[0]) == "pre_chunks"]
    fix_pos = [i for i, n in enumerate(loop.body) if n is fixes[0]]
    ordered = bool(in_loop and stage_assign and pre_assign and fix_pos and stage_assign[0] < fix_pos[0] < pre_assign[0])
    put("regFixTarget", "String", lean_str(_src(fixes[0].value.args[2])), f"{RCH}:multistage_regular_rechunking_plan")
    put("regFixArgs", "String", lean_str(" , ".join(_src(a) for a in fixes[0].value.args[:2])), f"{RCH}:multistage_regular_rechunking_plan")
    put("regFixInLoopBetweenStageAndPre", "Bool", "true" if ordered else "false", f"{RCH}:multistage_regular_rechunking_plan")
    put("regPreChunks", "String", lean_str(_src(_assign_value(fn, "pre_chunks", RCH))), f"{RCH}:multistage_regular_rechunking_plan")
    put("regPostChunks", "String", lean_str(_src(_assign_value(fn, "post_chunks", RCH))), f"{RCH}:multistage_regular_rechunking_plan")
    put("regFixCall", "String", lean_str(" ; ".join(_src(n).replace("\n", " ") for n in fixes)), f"{RCH}:multistage_regular_rechunking_plan")

    fn = _func(t, "_fix_copy_chunks", RCH)
    ret = [n for n in ast.walk(fn) if isinstance(n, ast.Return)]
    if len(ret) != 1:
        raise ExtractError(f"{RCH}:_fix_copy_chunks: expected one return")
    put("fixCopyExpr", "String", lean_str(_src(ret[0].value)), f"{RCH}:_fix_copy_chunks")

    fn = _func(t, "_multspace", RCH)
    put("multspaceStep", "String", lean_str(" ; ".join(_src(n) for n in ast.walk(fn) if isinstance(n, ast.Assign))), f"{RCH}:_multspace")
    fn = _func(t, "multspace", RCH)
    ret = [_src(n.value) for n in ast.walk(fn) if isinstance(n, ast.Return)]
    put("multspaceReturns", "String", lean_str(" ; ".join(ret)), f"{RCH}:multspace")

    # ---- ops.py --------------------------------------------------------------------------------
    t = _parse(repo, OPS)
    fn = _func(t, "_rechunk_plan", OPS)
    terms = _flatten_add(_assign_value(fn, "total_copies", OPS))
    const = rd = wr = 0
    for term in terms:
        if isinstance(term, ast.Constant) and isinstance(term.value, int):
            const += term.value
        elif _src(term) == "buffer_copies.read":
            rd += 1
        elif _src(term) == "buffer_copies.write":
            wr += 1
        else:
            raise ExtractError(f"{OPS}:_rechunk_plan: unexpected term in total_copies: {_src(term)}")
    put("totalCopiesConst", "Nat", str(const), f"{OPS}:_rechunk_plan")
    put("totalCopiesReadCoeff", "Nat", str(rd), f"{OPS}:_rechunk_plan")
    put("totalCopiesWriteCoeff", "Nat", str(wr), f"{OPS}:_rechunk_plan")
    put("maxMemFormula", "String", lean_str(_src(_assign_value(fn, "rechunker_max_mem", OPS))), f"{OPS}:_rechunk_plan")
    mm = _assign_value(fn, "min_mem", OPS)
    if not (isinstance(mm, ast.Call) and _src(mm.func) == "min" and len(mm.args) == 2 and isinstance(mm.args[0], ast.BinOp)
            and isinstance(mm.args[0].op, ast.FloorDiv) and _src(mm.args[0].left) == "rechunker_max_mem"
            and isinstance(mm.args[0].right, ast.Constant) and _src(mm.args[1]) == "x.nbytes"):
        raise ExtractError(f"{OPS}:_rechunk_plan: default min_mem changed shape: {_src(mm)}")
    put("minMemDivisor", "Nat", str(mm.args[0].right.value), f"{OPS}:_rechunk_plan")
    put("planFuncChoice", "String", lean_str(_src(_assign_value(fn, "plan_func", OPS))), f"{OPS}:_rechunk_plan")
    loop = [n for n in ast.walk(fn) if isinstance(n, ast.For) and "stages" in _src(n.iter)]
    if len(loop) != 1:
        raise ExtractError(f"{OPS}:_rechunk_plan: stage loop not found")
    put("stageTranslation", "String", lean_str(" ; ".join(_src(s).replace("\n", " ") for s in loop[0].body)), f"{OPS}:_rechunk_plan")

    fn = _func(t, "split_chunksizes", OPS)
    put("splitChunksizesBody", "String", lean_str(" ; ".join(_src(s).replace("\n", " ") for s in fn.body
                                                             if not isinstance(s, (ast.Import, ast.ImportFrom)))), f"{OPS}:split_chunksizes")

    # shared loop start (model uses one constant for both planners)
    if out["irrStageCountStart"][1] != out["regStageCountStart"][1]:
        raise ExtractError("the two planners no longer start at the same stage_count")
    put("stageCountStart", "Nat", out["irrStageCountStart"][1], "both planners")
    return out
