"""Adversarial executor and tracing store used by the C06 check (tasks are idempotent and independent
of order, repetition and placement).

Nothing here touches the tree under test: observation goes through public extension points only
(a `DagExecutor` subclass, `Spec(intermediate_store=<zarr Store>)`).

* `TracingStore`   : `zarr.storage.WrapperStore` subclass recording every get / set / delete together
                     with the process-global "current execution" marker `TRACE.current` (zarr runs store
                     coroutines on its own event-loop thread, so a thread-local would be invisible there).
* `AdversarialExecutor` : runs every op of the plan in topological order (`visit_nodes`), each task as the
                     call `pipeline.function(m, config=pipeline.config)` exactly like the executors in
                     `cubed/runtime/executors/local.py`, but
                       - the tasks of an op are run in a shuffled order,
                       - a random multiset of tasks is re-executed immediately, after the op completed,
                         and after downstream ops ran ("late": any task of any earlier op),
                       - sampled executions are shipped the way `ProcessesExecutor` ships them:
                         `cloudpickle.dumps` -> fresh `spawn`ed process -> `unpickle_and_call`.
                     Around every *re*-execution the whole store is snapshotted: a re-run must leave every
                     byte of every key unchanged.
"""
from __future__ import annotations

import hashlib
import os
import random
import weakref

from zarr.storage import WrapperStore


# ---------------------------------------------------------------------------------------------------
# tracing
# ---------------------------------------------------------------------------------------------------

class Trace:
    """Process-global trace state (see module docstring for why it is global)."""

    def __init__(self):
        self.reset()

    def reset(self):
        self.current = None      # id of the running execution (int) or None (harness itself reading)
        self.events = []         # (exec_id, kind, key, digest) kind in get|set|del ; digest = sha1 of bytes or None
        self.enabled = True
        self.abort_after = None  # inject a failure before the (n+1)-th write of the current execution
        self.writes_in_current = 0


TRACE = Trace()


class InjectedAbort(Exception):
    """Raised by the tracing store to cut an execution short between two of its writes (a task that
    dies half way and is retried, a backup that is cancelled)."""


def _digest(value):
    if value is None:
        return None
    try:
        b = value.to_bytes()
    except Exception:
        b = bytes(value)
    return hashlib.sha1(b).hexdigest()[:16]


def _rec(kind, key, value=None):
    if kind != "get" and TRACE.abort_after is not None and TRACE.current is not None:
        if TRACE.writes_in_current >= TRACE.abort_after:
            raise InjectedAbort(key)
        TRACE.writes_in_current += 1
    if TRACE.enabled:
        TRACE.events.append((TRACE.current, kind, key, _digest(value) if kind == "set" else None))


_LIVE = weakref.WeakValueDictionary()   # id -> TracingStore, for pickling by reference


def _lookup_store(ident):
    return _LIVE[ident]


class TracingStore(WrapperStore):
    """Records which keys every execution reads and writes.  All state lives in the module-level
    TRACE so that the copies zarr makes (`with_read_only` -> `_with_store`) keep tracing.
    Pickles *by reference* within the process: an in-process cloudpickle round trip of a task's
    config must still address the one shared in-memory store (a by-value copy of a MemoryStore
    would silently swallow the writes).  Spawned placements use a directory store instead."""

    def __init__(self, store):
        super().__init__(store)
        _LIVE[id(self)] = self

    def __reduce__(self):
        return (_lookup_store, (id(self),))

    # -- reads ----------------------------------------------------------------------------------
    async def get(self, key, prototype, byte_range=None):
        _rec("get", key)
        return await self._store.get(key, prototype, byte_range)

    def get_sync(self, key, *, prototype=None, byte_range=None):
        _rec("get", key)
        return self._store.get_sync(key, prototype=prototype, byte_range=byte_range)

    async def get_partial_values(self, prototype, key_ranges):
        key_ranges = list(key_ranges)
        for k, _ in key_ranges:
            _rec("get", k)
        return await self._store.get_partial_values(prototype, key_ranges)

    async def _get_many(self, requests):
        requests = list(requests)
        for r in requests:
            _rec("get", r[0])
        async for req in self._store._get_many(requests):
            yield req

    async def get_ranges(self, key, byte_ranges, *, prototype, **kwargs):
        _rec("get", key)
        kwargs = {k: v for k, v in kwargs.items() if v is not None}
        async for group in self._store.get_ranges(key, byte_ranges, prototype=prototype, **kwargs):
            yield group

    # -- writes ---------------------------------------------------------------------------------
    async def set(self, key, value):
        _rec("set", key, value)
        await self._store.set(key, value)

    def set_sync(self, key, value):
        _rec("set", key, value)
        self._store.set_sync(key, value)

    async def set_if_not_exists(self, key, value):
        # a conditional write: reads the key's presence, then possibly writes
        _rec("get", key)
        if not await self._store.exists(key):
            _rec("set", key, value)
        return await self._store.set_if_not_exists(key, value)

    async def _set_many(self, values):
        values = list(values)
        for k, v in values:
            _rec("set", k, v)
        await self._store._set_many(values)

    async def delete(self, key):
        _rec("del", key)
        await self._store.delete(key)

    def delete_sync(self, key):
        _rec("del", key)
        self._store.delete_sync(key)


def innermost(store):
    while isinstance(store, WrapperStore):
        store = store._store
    return store


def snapshot(store_or_dir):
    """key -> bytes of everything currently stored (MemoryStore dict or directory tree)."""
    if isinstance(store_or_dir, (str, os.PathLike)):
        out = {}
        root = str(store_or_dir)
        for d, _, files in os.walk(root):
            for f in files:
                p = os.path.join(d, f)
                try:
                    with open(p, "rb") as fh:
                        out[os.path.relpath(p, root)] = fh.read()
                except FileNotFoundError:
                    pass
        return out
    inner = innermost(store_or_dir)
    out = {}
    for k, v in list(inner._store_dict.items()):
        out[k] = v.to_bytes() if hasattr(v, "to_bytes") else bytes(v)
    return out


def clear(store_or_dir):
    if isinstance(store_or_dir, (str, os.PathLike)):
        import shutil
        for n in os.listdir(store_or_dir):
            shutil.rmtree(os.path.join(store_or_dir, n), ignore_errors=True)
    else:
        innermost(store_or_dir)._store_dict.clear()


def snap_diff(a, b, limit=4):
    """Keys whose bytes differ between two snapshots."""
    out = []
    for k in sorted(set(a) | set(b)):
        if a.get(k) != b.get(k):
            out.append(k)
            if len(out) >= limit:
                break
    return out


# ---------------------------------------------------------------------------------------------------
# spawned placement
# ---------------------------------------------------------------------------------------------------

def run_spawned(function, m, config, name):
    """Ship one task exactly as `processes_create_futures_func` does and run it in a *fresh* spawned
    process (one process per task: no state survives from any previous task)."""
    import multiprocessing
    from concurrent.futures import ProcessPoolExecutor

    import cloudpickle
    from cubed.runtime.executors.local import run_func_processes, unpickle_and_call

    ctx = multiprocessing.get_context("spawn")
    with ProcessPoolExecutor(max_workers=1, mp_context=ctx) as ex:
        fut = ex.submit(
            unpickle_and_call,
            cloudpickle.dumps(run_func_processes),
            cloudpickle.dumps(m),
            func=cloudpickle.dumps(function),
            config=cloudpickle.dumps(config),
            name=cloudpickle.dumps(name),
        )
        return fut.result(timeout=300)


def run_pickled_inproc(function, m, config):
    """cloudpickle round trip without a new process (cheap placement variant)."""
    import cloudpickle
    f = cloudpickle.loads(cloudpickle.dumps(function))
    mm = cloudpickle.loads(cloudpickle.dumps(m))
    cfg = cloudpickle.loads(cloudpickle.dumps(config))
    return f(mm, config=cfg)


# ---------------------------------------------------------------------------------------------------
# the executor
# ---------------------------------------------------------------------------------------------------

def make_executor_class():
    """The class is created lazily because `cubed` must be imported only after common.use_repo()."""
    from cubed.runtime.pipeline import visit_nodes
    from cubed.runtime.types import DagExecutor, TaskEndEvent
    from cubed.runtime.utils import handle_operation_end_callbacks, handle_operation_start_callbacks

    class AdversarialExecutor(DagExecutor):
        """schedule parameters:
        plain        : run every op's tasks once, in `pipeline.mappable` order (the reference schedule)
        p_now        : probability that a task is re-executed immediately after its first run
        n_after      : number of re-executions drawn (with repetition) after the op completed
        n_late       : number of re-executions of tasks of *earlier* ops drawn after each op
        p_spawn      : probability that an execution is shipped to a fresh spawned process
        p_pickle     : probability that an execution goes through an in-process cloudpickle round trip
        max_spawn    : cap on spawned executions per compute
        p_abort      : probability that a task's first execution is preceded by an attempt that dies before its
                       first or second write, and that a re-execution dies likewise (tracing store only)
        store        : what `snapshot` is applied to around re-executions (None = no snapshots)
        """

        def __init__(self, seed=0, plain=False, p_now=0.3, n_after=2, n_late=2, p_spawn=0.0, p_pickle=0.0,
                     max_spawn=3, store=None, p_abort=0.0, **kwargs):
            super().__init__(**kwargs)
            self.rng = random.Random(seed)
            self.plain = plain
            self.p_now, self.n_after, self.n_late = p_now, n_after, n_late
            self.p_spawn, self.p_pickle, self.max_spawn = p_spawn, p_pickle, max_spawn
            self.store = store
            self.p_abort = p_abort
            self.executions = []     # dicts: id, op, task (index in mappable), phase, placement
            self.ops = []            # (op name, number of tasks) in execution order
            self.rerun_diffs = []    # (execution dict, [keys whose bytes changed])
            self.errors = []         # (execution dict, repr(exception))
            self.spawned = 0

        @property
        def name(self):
            return "adversarial"

        # one execution of one task
        def _exec(self, opname, pipeline, tasks, i, phase, abort_after=None):
            placement = "inproc"
            if not self.plain and abort_after is None:
                r = self.rng.random()
                if r < self.p_spawn and self.spawned < self.max_spawn and opname != "create-arrays":
                    placement = "spawn"
                    self.spawned += 1
                elif r < self.p_spawn + self.p_pickle:
                    placement = "pickle"
            e = {"id": len(self.executions), "op": opname, "task": i, "phase": phase, "placement": placement}
            if abort_after is not None:
                e["aborted_before_write"] = abort_after
            self.executions.append(e)
            before = snapshot(self.store) if (not phase.startswith("first") and self.store is not None) else None
            TRACE.current = e["id"]
            TRACE.abort_after = abort_after
            TRACE.writes_in_current = 0
            try:
                if placement == "spawn":
                    result = run_spawned(pipeline.function, tasks[i], pipeline.config, opname)
                elif placement == "pickle":
                    result = run_pickled_inproc(pipeline.function, tasks[i], pipeline.config)
                else:
                    result = pipeline.function(tasks[i], config=pipeline.config)
            except InjectedAbort:
                e["aborted"] = True
                result = None
            except Exception as ex:  # noqa: BLE001 - reported by the oracle
                self.errors.append((e, repr(ex)))
                result = None
            finally:
                TRACE.current = None
                TRACE.abort_after = None
            if before is not None:
                d = snap_diff(before, snapshot(self.store))
                if d:
                    self.rerun_diffs.append((e, d))
            return result

        def execute_dag(self, dag, callbacks=None, spec=None, compute_id=None, **kwargs):
            rng = self.rng
            finished = []   # (opname, pipeline, tasks) of completed ops
            for opname, node in visit_nodes(dag):
                handle_operation_start_callbacks(callbacks, opname)
                pipeline = node["pipeline"]
                tasks = list(pipeline.mappable)
                n = len(tasks)
                self.ops.append((opname, n))
                order = list(range(n))
                if not self.plain:
                    rng.shuffle(order)
                for i in order:
                    if not self.plain and rng.random() < self.p_abort:
                        self._exec(opname, pipeline, tasks, i, "first-aborted", abort_after=rng.randint(0, 1))
                    result = self._exec(opname, pipeline, tasks, i, "first")
                    if callbacks is not None:
                        event = TaskEndEvent(name=opname, result=result)
                        for cb in callbacks:
                            cb.on_task_end(event)
                    if not self.plain:
                        while rng.random() < self.p_now:
                            self._exec(opname, pipeline, tasks, i, "dup-now",
                                       abort_after=rng.randint(0, 1) if rng.random() < self.p_abort else None)
                if not self.plain and n:
                    for _ in range(rng.randint(0, self.n_after)):
                        self._exec(opname, pipeline, tasks, rng.randrange(n), "dup-after-op")
                handle_operation_end_callbacks(callbacks, opname)
                finished.append((opname, pipeline, tasks))
                if not self.plain and len(finished) > 1:
                    for _ in range(rng.randint(0, self.n_late)):
                        o2, p2, t2 = finished[rng.randrange(len(finished) - 1)]
                        if t2:
                            self._exec(o2, p2, t2, rng.randrange(len(t2)), "late")
            # a last round of late re-executions after everything ran
            if not self.plain:
                for _ in range(rng.randint(0, self.n_late + 1)):
                    o2, p2, t2 = finished[rng.randrange(len(finished))]
                    if t2:
                        self._exec(o2, p2, t2, rng.randrange(len(t2)), "late")

    return AdversarialExecutor
