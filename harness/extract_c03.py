"""Plug-in extractor for C03: the syntactic shape of the memory accounting of the tree under test
-> Model/GeneratedC03.lean (namespace Cubed.GeneratedC03).  `Properties/C03.lean` proves (by `decide`) that
these strings are the ones the Lean model `Cubed.Memory` transcribes, so a changed formula breaks the build.
"""
from __future__ import annotations

import ast

from extract import ExtractError, _func, _parse, _src, lean_str


def _lean_list(xs):
    return "[" + ", ".join(lean_str(x) for x in xs) + "]"


def _kw(call, name, rel):
    for k in call.keywords:
        if k.arg == name:
            return k.value
    raise ExtractError(f"{rel}: keyword {name} not found in {_src(call)[:60]}")


def _assign_value(fn, target, rel):
    for node in ast.walk(fn):
        if isinstance(node, ast.Assign) and len(node.targets) == 1 and isinstance(node.targets[0], ast.Name) \
                and node.targets[0].id == target:
            return node.value
    raise ExtractError(f"{rel}: assignment to {target} not found in {fn.name}")


def _calls_with_kw(fn, kwname):
    out = []
    for node in ast.walk(fn):
        if isinstance(node, ast.Call):
            for k in node.keywords:
                if k.arg == kwname:
                    out.append(k.value)
    return out


def facts(repo):
    out = {}

    def put(name, typ, val, prov):
        out[name] = (typ, val, prov)

    # --- memory.py ---------------------------------------------------------------------------------
    rel = "cubed/primitive/memory.py"
    t = _parse(repo, rel)
    fn = _func(t, "calculate_projected_mem", rel)
    body = [n for n in fn.body if not (isinstance(n, ast.Expr) and isinstance(n.value, ast.Constant))]
    if not (isinstance(body[0], ast.Assign) and _src(body[0].targets[0]) == "projected_mem"):
        raise ExtractError(f"{rel}: calculate_projected_mem no longer starts with projected_mem = …")
    put("projInit", "String", lean_str(_src(body[0].value)), rel + ":calculate_projected_mem")
    loop_terms, tail_terms, loop_iter = [], [], None
    for n in body[1:]:
        if isinstance(n, ast.For):
            loop_iter = f"{_src(n.target)} in {_src(n.iter)}"
            for m in n.body:
                if not (isinstance(m, ast.AugAssign) and isinstance(m.op, ast.Add) and _src(m.target) == "projected_mem"):
                    raise ExtractError(f"{rel}: unexpected statement in the inputs loop: {_src(m)}")
                loop_terms.append(_src(m.value))
        elif isinstance(n, ast.AugAssign):
            if not (isinstance(n.op, ast.Add) and _src(n.target) == "projected_mem"):
                raise ExtractError(f"{rel}: unexpected statement {_src(n)}")
            tail_terms.append(_src(n.value))
        elif isinstance(n, ast.Return):
            if _src(n.value) != "projected_mem":
                raise ExtractError(f"{rel}: calculate_projected_mem returns {_src(n.value)}")
        else:
            raise ExtractError(f"{rel}: unexpected statement {_src(n)[:60]}")
    if loop_iter is None:
        raise ExtractError(f"{rel}: inputs loop not found")
    put("projLoop", "String", lean_str(loop_iter), rel)
    put("projLoopTerms", "List String", _lean_list(loop_terms), rel)
    put("projTailTerms", "List String", _lean_list(tail_terms), rel)

    fn = _func(t, "get_buffer_copies", rel)
    def copies_of(ret):
        c = ret.value
        if not (isinstance(c, ast.Call) and _src(c.func) == "BufferCopies"):
            raise ExtractError(f"{rel}: get_buffer_copies returns {_src(c)}")
        return (int(ast.literal_eval(_kw(c, "read", rel))), int(ast.literal_eval(_kw(c, "write", rel))))

    ifs = [n for n in fn.body if isinstance(n, ast.If)]
    tops = [n for n in fn.body if isinstance(n, ast.Return)]
    if len(ifs) != 1 or len(tops) != 1 or ifs[0].orelse:
        raise ExtractError(f"{rel}: get_buffer_copies no longer has the shape `if <cloud>: return …` / `return …`")
    inner = [n for n in ifs[0].body if isinstance(n, ast.Return)]
    if len(inner) != 1:
        raise ExtractError(f"{rel}: get_buffer_copies: cloud branch does not return directly")
    put("copiesCloud", "Nat × Nat", "(%d, %d)" % copies_of(inner[0]), rel + ":get_buffer_copies (inside the cloud test)")
    put("copiesDefault", "Nat × Nat", "(%d, %d)" % copies_of(tops[0]), rel + ":get_buffer_copies (fall through)")
    put("copiesCloudTest", "String", lean_str(_src(ifs[0].test)), rel)

    cls = [n for n in t.body if isinstance(n, ast.ClassDef) and n.name == "MemoryModeller"]
    if not cls:
        raise ExtractError(f"{rel}: MemoryModeller not found")
    meth = {m.name: [_src(s) for s in m.body] for m in cls[0].body if isinstance(m, ast.FunctionDef)}
    put("modellerAllocate", "List String", _lean_list(meth.get("allocate", [])), rel)
    put("modellerFree", "List String", _lean_list(meth.get("free", [])), rel)

    # --- utils.py ----------------------------------------------------------------------------------
    rel = "cubed/utils.py"
    t = _parse(repo, rel)
    fn = _func(t, "is_cloud_storage_path", rel)
    put("cloudTest", "String", lean_str(_src([n for n in fn.body if isinstance(n, ast.Return)][0].value)), rel)
    fn = _func(t, "array_memory", rel)
    put("arrayMemoryExpr", "String", lean_str(_src([n for n in fn.body if isinstance(n, ast.Return)][0].value)), rel)
    fn = _func(t, "largest_chunk", rel)
    put("largestChunkExprs", "List String", _lean_list([_src(n.value) for n in ast.walk(fn) if isinstance(n, ast.Return)]), rel)
    put("largestChunkTest", "String", lean_str(_src([n for n in ast.walk(fn) if isinstance(n, ast.If)][0].test)), rel)
    fn = _func(t, "chunk_memory", rel)
    put("chunkMemoryExprs", "List String", _lean_list([_src(n.value) for n in ast.walk(fn) if isinstance(n, ast.Return)]), rel)

    # --- blockwise.py ------------------------------------------------------------------------------
    rel = "cubed/primitive/blockwise.py"
    t = _parse(repo, rel)
    fn = _func(t, "general_blockwise", rel)
    call = _assign_value(fn, "projected_mem", rel)
    if not (isinstance(call, ast.Call) and _src(call.func) == "calculate_projected_mem"):
        raise ExtractError(f"{rel}: general_blockwise no longer calls calculate_projected_mem")
    for k in ("reserved_mem", "inputs", "operation", "output", "buffer_copies"):
        put("bw_" + k, "String", lean_str(_src(_kw(call, k, rel))), rel + ":general_blockwise")
    put("bwDefaultCopies", "String", lean_str(_src(_assign_value(fn, "buffer_copies", rel))), rel + ":general_blockwise")
    omax = [n for n in ast.walk(fn) if isinstance(n, ast.Assign) and _src(n.targets[0]) == "output_chunk_memory" and isinstance(n.value, ast.Call)]
    put("bwOutputExpr", "String", lean_str(_src(omax[0].value) if omax else "?"), rel + ":general_blockwise")
    fn = _func(t, "peak_projected_mem", rel)
    calls = [_src(n.value) for n in ast.walk(fn) if isinstance(n, ast.Expr) and isinstance(n.value, ast.Call)]
    put("peakSteps", "List String", _lean_list(calls), rel + ":peak_projected_mem")
    put("peakChunkmem", "String", lean_str(_src(_assign_value(fn, "chunkmem", rel))), rel + ":peak_projected_mem")
    put("peakReturn", "String", lean_str(_src([n for n in fn.body if isinstance(n, ast.Return)][0].value)), rel)
    fn = _func(t, "fuse_multiple", rel)
    put("fusedProjectedExpr", "String", lean_str(_src(_assign_value(fn, "projected_mem", rel))), rel + ":fuse_multiple")
    fn = _func(t, "fuse", rel)
    put("fusedPairProjectedExpr", "String", lean_str(_src(_assign_value(fn, "projected_mem", rel))), rel + ":fuse")

    # --- declared extras ---------------------------------------------------------------------------
    rel = "cubed/core/ops.py"
    t = _parse(repo, rel)
    fn = _func(t, "partial_reduce", rel)
    put("partialReduceExtraExpr", "String", lean_str(_src(_assign_value(fn, "extra_projected_mem", rel))), rel + ":partial_reduce")
    fn = _func(t, "_rechunk", rel)
    ex = _calls_with_kw(fn, "extra_projected_mem")
    put("rechunkExtraExpr", "String", lean_str(_src(ex[0]) if ex else "?"), rel + ":_rechunk")
    put("rechunkCopyMemExpr", "String", lean_str(_src(_assign_value(fn, "copy_chunks_mem", rel))), rel + ":_rechunk")
    fn = _func(t, "scan", rel)
    ex = _calls_with_kw(fn, "extra_projected_mem")
    put("scanExtraExpr", "String", lean_str(_src(ex[-1]) if ex else "?"), rel + ":scan")
    rel = "cubed/array_api/manipulation_functions.py"
    t = _parse(repo, rel)
    put("permuteExtraExpr", "String", lean_str(_src(_assign_value(_func(t, "permute_dims", rel), "extra_projected_mem", rel))), rel + ":permute_dims")
    put("repeatExtraExpr", "String", lean_str(_src(_assign_value(_func(t, "repeat", rel), "extra_projected_mem", rel))), rel + ":repeat")
    fn = _func(t, "unstack", rel)
    put("unstackDeclaresExtra", "Bool", "true" if _calls_with_kw(fn, "extra_projected_mem") else "false", rel + ":unstack")
    rel = "cubed/array_api/linalg.py"
    t = _parse(repo, rel)
    put("qrFirstExtraExpr", "String", lean_str(_src(_assign_value(_func(t, "_qr_first_step", rel), "extra_projected_mem", rel))), rel + ":_qr_first_step")
    rel = "cubed/core/plan.py"
    t = _parse(repo, rel)
    put("createArraysExpr", "String", lean_str(_src(_assign_value(_func(t, "create_zarr_arrays", rel), "projected_mem", rel))), rel + ":create_zarr_arrays")
    return out


if __name__ == "__main__":
    import sys

    import extract
    print(extract.generate(sys.argv[1] if len(sys.argv) > 1 else "/repo", sys.modules[__name__], "GeneratedC03"))
