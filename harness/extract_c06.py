"""Plug-in extractor for C06: syntactic facts of the task body, the offset helpers and the random-block
seeding, written to Model/GeneratedC06.lean (namespace Cubed.GeneratedC06).  `C06_source_shape` in
Properties/C06.lean is proved from them by `decide`, so it stops compiling when one of these shapes changes.
"""
from __future__ import annotations

import ast

from extract import ExtractError, _func, _parse, _src, lean_str


def _returns(fn):
    return [n for n in ast.walk(fn) if isinstance(n, ast.Return) and n.value is not None]


def _single_return(fn, rel):
    r = [n for n in fn.body if isinstance(n, ast.Return)]
    if len(r) != 1 or r[0].value is None:
        raise ExtractError(f"{rel}: {fn.name} no longer has a single top-level return")
    return _src(r[0].value)


def facts(repo):
    out = {}

    def put(name, typ, val, prov):
        out[name] = (typ, val, prov)

    # --- cubed/utils.py: the two offset helpers are NumPy's ravel / unravel on (block_id, numblocks) -------------
    rel = "cubed/utils.py"
    t = _parse(repo, rel)
    put("blockIdToOffsetExpr", "String", lean_str(_single_return(_func(t, "block_id_to_offset", rel), rel)), rel + ":block_id_to_offset")
    put("offsetToBlockIdExpr", "String", lean_str(_single_return(_func(t, "offset_to_block_id", rel), rel)), rel + ":offset_to_block_id")

    # --- cubed/random.py: stream id and key of a random block -------------------------------------------------
    rel = "cubed/random.py"
    t = _parse(repo, rel)
    fn = _func(t, "_random", rel)
    stream = key = None
    for node in ast.walk(fn):
        if isinstance(node, ast.Assign) and len(node.targets) == 1 and isinstance(node.targets[0], ast.Name):
            if node.targets[0].id == "stream_id":
                stream = _src(node.value)
        if isinstance(node, ast.Call) and _src(node.func).endswith("Philox"):
            kws = {k.arg: _src(k.value) for k in node.keywords}
            key = kws.get("key", "positional:" + ",".join(_src(a) for a in node.args))
    if stream is None or key is None:
        raise ExtractError(f"{rel}: _random no longer assigns stream_id / constructs Philox")
    put("randomStreamExpr", "String", lean_str(stream), rel + ":_random")
    put("randomKeyExpr", "String", lean_str(key), rel + ":_random")
    # names the function may depend on: parameters only (no module-level mutable state, time, os, global RNG)
    params = {a.arg for a in fn.args.args + fn.args.kwonlyargs}
    allowed = params | {"Generator", "Philox", "block_id_to_offset", "numpy_array_to_backend_array", "rg", "out", "stream_id", "nxp"}
    used = {n.id for n in ast.walk(fn) if isinstance(n, ast.Name)}
    has_global = any(isinstance(n, (ast.Global, ast.Nonlocal)) for n in ast.walk(fn))
    put("randomUsesOnlyItsArguments", "Bool", "true" if used <= allowed and not has_global else "false",
        rel + ":_random (free names: %s)" % ",".join(sorted(used - allowed)))
    fn = _func(t, "random", rel)
    put("rootSeedDrawnAtConstruction", "Bool", "true" if "root_seed = pyrandom.getrandbits(128)" in _src(fn) and "root_seed=root_seed" in _src(fn)
        else "false", rel + ":random")

    # --- cubed/primitive/blockwise.py: the task body -----------------------------------------------------------
    rel = "cubed/primitive/blockwise.py"
    t = _parse(repo, rel)
    fn = _func(t, "apply_blockwise", rel)
    writes = [n for n in ast.walk(fn) if isinstance(n, (ast.Assign, ast.AugAssign))
              and isinstance((n.targets[0] if isinstance(n, ast.Assign) else n.target), ast.Subscript)]
    plain = (len(writes) == 1 and isinstance(writes[0], ast.Assign)
             and _src(writes[0].targets[0]) == "write_proxy.open()[out_chunk_key]" and _src(writes[0].value) == "result")
    put("taskWriteIsPlainAssignment", "Bool", "true" if plain else "false", rel + ":apply_blockwise")
    # the only other store write is set_basic_selection for structured results; no read of the output array
    reads_output = [n for n in ast.walk(fn) if isinstance(n, ast.Subscript) and isinstance(n.ctx, ast.Load)
                    and "write_proxy" in _src(n.value)]
    put("taskNeverReadsItsOutput", "Bool", "true" if not reads_output else "false", rel + ":apply_blockwise")
    src = _src(fn)
    put("taskResultsFromHelper", "Bool", "true" if "results = get_results_in_different_scope(out_coords, config=config)" in src else "false",
        rel + ":apply_blockwise")
    fn = _func(t, "get_results_in_different_scope", rel)
    src = _src(fn)
    ok = ("name_chunk_inds = config.back_key_function(out_key)" in src and "fargs = map_nested(get_chunk_config, name_chunk_inds)" in src
          and _src(_returns(fn)[-1].value) == "config.function(*fargs.args)" and not any(isinstance(n, ast.Global) for n in ast.walk(fn)))
    put("taskReadsThenApplies", "Bool", "true" if ok else "false", rel + ":get_results_in_different_scope")
    fn = _func(t, "get_chunk", rel)
    put("getChunkReadsNamedArray", "Bool", "true" if "arr = config.reads_map[name].open()" in _src(fn) and "arg = arr[selection]" in _src(fn)
        else "false", rel + ":get_chunk")

    # --- cubed/core/plan.py: array creation mode ------------------------------------------------------------------
    rel = "cubed/core/plan.py"
    t = _parse(repo, rel)
    fn = _func(t, "create_zarr_array", rel)
    mode = None
    for node in ast.walk(fn):
        if isinstance(node, ast.Call) and _src(node.func) == "lazy_zarr_array.create":
            for k in node.keywords:
                if k.arg == "mode" and isinstance(k.value, ast.Constant):
                    mode = k.value.value
    if mode is None:
        raise ExtractError(f"{rel}: create_zarr_array no longer calls lazy_zarr_array.create(mode=<constant>)")
    put("createArrayMode", "String", lean_str(mode), rel + ":create_zarr_array")

    # --- cubed/core/ops.py: block_id comes from the offsets array argument ------------------------------------------
    rel = "cubed/core/ops.py"
    t = _parse(repo, rel)
    shapes = []
    for outer in ast.walk(t):
        if isinstance(outer, ast.FunctionDef) and outer.name == "func_with_block_id":
            s = _src(outer)
            shapes.append("offset = int(a[-1])" in s and "block_id = offset_to_block_id(offset, numblocks)" in s
                          and "return func(*a[:-1], block_id=block_id, **kw)" in s)
    if not shapes:
        raise ExtractError(f"{rel}: func_with_block_id not found")
    put("blockIdFromOffsetsArgument", "Bool", "true" if all(shapes) else "false", rel + ":func_with_block_id (%d sites)" % len(shapes))

    # --- cubed/runtime/executors/local.py: a task is the call func(input, config=config) --------------------------
    rel = "cubed/runtime/executors/local.py"
    t = _parse(repo, rel)
    ok = True
    for name in ("exec_stage_func", "run_func_threads", "run_func_processes"):
        fn = _func(t, name, rel)
        rets = _returns(fn)
        ok = ok and len(rets) == 1 and _src(rets[0].value) == "func(input, config=config)"
    fn = _func(t, "unpickle_and_call", rel)
    ok = ok and _src(_returns(fn)[-1].value) == "f(inp, **kwargs)"
    put("taskIsFunctionOfInputAndConfig", "Bool", "true" if ok else "false", rel)
    return out
