"""Plug-in extractor for C16: the *execution-site table* of the tree under test -> Model/GeneratedC16.lean.

Every place inside `cubed/` (tests, diagnostics, the test helper `_testing.py` and the non-local executors
excluded) that can start execution or create storage becomes one record

    (file, enclosing function or Class.method, callee, mode, guard)

* callee kinds
    ".compute" ".execute" ".execute_dag" ".create" ".persist"      attribute calls (any receiver)
    "compute"                                                      a load of the top-level `compute` function
                                                                   (import aliases such as `compute_arrays` resolved)
    "create_zarr_array" "create_zarr_arrays" "open_storage_array" "open_zarr_v3_array"
                                                                   a load (call *or* reference, e.g. as the pipeline
                                                                   function) of these helpers, aliases resolved
    "zarr.<f>"                                                     zarr.open* / zarr.create* / zarr.save* / zarr.group*
    ".create_array" ".create_group" ".require_array" ...           the same on a group object
* mode  = the literal `mode=` argument, "param:<name>" when a parameter is passed through, "" when there is none
* guard = source text of the nearest enclosing `if` / conditional expression test inside the same function
          ("not (...)" for the else branch), "" when unconditional.

Further facts: the modes for which `open_zarr_v3_array` only opens (never creates), the default mode of
`LazyZarrArray.create`, and that `open_storage_array` hands its `mode` on unchanged.

The table is complete for *syntactic* call sites of these names; aliasing through attributes, `getattr` or
dynamic dispatch is not followed (listed under TRUSTED in props/c16.py).  Properties/C16.lean proves with
`by decide` that every record is one of the allowed ones, so a new eager call site breaks the build.
"""
from __future__ import annotations

import ast
import os

from extract import ExtractError, _default, _func, _parse, _src, lean_str

EXCLUDE_DIRS = ("cubed/tests/", "cubed/diagnostics/")
EXCLUDE_FILES = ("cubed/_testing.py",)
LOCAL_EXECUTORS = ("__init__.py", "local.py", "testing.py")   # everything else under runtime/executors is non-local

ATTR_CALLS = {"compute", "execute", "execute_dag", "create", "persist"}
GROUP_CALLS = {"create_array", "create_group", "require_array", "require_group", "create_dataset", "require_dataset",
               "open_array", "open_group"}
TRACKED = {"compute", "create_zarr_array", "create_zarr_arrays", "open_storage_array", "open_zarr_v3_array"}
ZARR_PREFIXES = ("open", "create", "save", "group", "array", "empty", "zeros", "ones", "full", "copy", "consolidate")


def _files(repo):
    root = os.path.join(repo, "cubed")
    if not os.path.isdir(root):
        raise ExtractError("cubed/ not found")
    out = []
    for d, _, fs in os.walk(root):
        for f in sorted(fs):
            if not f.endswith(".py"):
                continue
            rel = os.path.relpath(os.path.join(d, f), repo).replace(os.sep, "/")
            if rel.startswith(EXCLUDE_DIRS) or rel in EXCLUDE_FILES:
                continue
            if rel.startswith("cubed/runtime/executors/") and f not in LOCAL_EXECUTORS:
                continue
            out.append(rel)
    return sorted(out)


def _aliases(tree):
    """local name -> tracked canonical name (module-level imports / defs, and imports inside functions)."""
    al = {}
    for node in ast.walk(tree):
        if isinstance(node, ast.ImportFrom):
            for a in node.names:
                if a.name in TRACKED:
                    al[a.asname or a.name] = a.name
    for node in tree.body:
        if isinstance(node, (ast.FunctionDef, ast.AsyncFunctionDef)) and node.name in TRACKED:
            al[node.name] = node.name
    return al


def _local_names(fn):
    """parameters and plainly assigned names of a function: they shadow module-level names."""
    names = set()
    a = fn.args
    for x in a.posonlyargs + a.args + a.kwonlyargs:
        names.add(x.arg)
    if a.vararg:
        names.add(a.vararg.arg)
    if a.kwarg:
        names.add(a.kwarg.arg)
    for node in ast.walk(fn):
        if isinstance(node, ast.Name) and isinstance(node.ctx, ast.Store):
            names.add(node.id)
    return names


def _mode_of(call, params):
    for kw in call.keywords:
        if kw.arg == "mode":
            if isinstance(kw.value, ast.Constant):
                return str(kw.value.value)
            if isinstance(kw.value, ast.Name) and kw.value.id in params:
                return "param:" + kw.value.id
            return "expr:" + _src(kw.value)
    return ""


class _Visitor(ast.NodeVisitor):
    def __init__(self, rel, aliases):
        self.rel = rel
        self.aliases = aliases
        self.scope = []          # names of enclosing classes / functions
        self.fn_stack = []       # enclosing FunctionDef nodes
        self.guards = []         # (function depth, text)
        self.sites = []
        self.call_funcs = set()  # id() of Name nodes that are the func of a Call (so they are not recorded twice)

    # -- scopes ---------------------------------------------------------------------------------
    def visit_ClassDef(self, node):
        self.scope.append(node.name)
        for s in node.body:
            self.visit(s)
        self.scope.pop()

    def _visit_fn(self, node):
        for d in node.decorator_list:
            self.visit(d)
        for d in node.args.defaults + [k for k in node.args.kw_defaults if k is not None]:
            self.visit(d)
        self.scope.append(node.name)
        self.fn_stack.append((node, _local_names(node)))
        for s in node.body:
            self.visit(s)
        self.fn_stack.pop()
        self.scope.pop()

    visit_FunctionDef = _visit_fn
    visit_AsyncFunctionDef = _visit_fn

    def visit_Lambda(self, node):
        self.generic_visit(node)

    # -- guards ---------------------------------------------------------------------------------
    def _with_guard(self, text, nodes):
        self.guards.append((len(self.fn_stack), text))
        for n in nodes:
            self.visit(n)
        self.guards.pop()

    def visit_If(self, node):
        self.visit(node.test)
        t = _src(node.test)
        self._with_guard(t, node.body)
        self._with_guard("not (%s)" % t, node.orelse)

    def visit_IfExp(self, node):
        self.visit(node.test)
        t = _src(node.test)
        self._with_guard(t, [node.body])
        self._with_guard("not (%s)" % t, [node.orelse])

    def _guard(self):
        for depth, text in reversed(self.guards):
            if depth == len(self.fn_stack):
                return text
        return ""

    # -- sites ----------------------------------------------------------------------------------
    def _enclosing(self):
        return ".".join(self.scope) if self.scope else "<module>"

    def _params(self):
        return self.fn_stack[-1][1] if self.fn_stack else set()

    def _put(self, callee, mode=""):
        self.sites.append((self.rel, self._enclosing(), callee, mode, self._guard()))

    def _shadowed(self, name):
        return any(name in locs for _, locs in self.fn_stack)

    def visit_Call(self, node):
        f = node.func
        if isinstance(f, ast.Attribute):
            recv_is_zarr = isinstance(f.value, ast.Name) and f.value.id == "zarr"
            if recv_is_zarr and f.attr.startswith(ZARR_PREFIXES):
                self._put("zarr." + f.attr, _mode_of(node, self._params()))
            elif f.attr in ATTR_CALLS:
                self._put("." + f.attr, _mode_of(node, self._params()))
            elif f.attr in GROUP_CALLS:
                self._put("." + f.attr, _mode_of(node, self._params()))
        elif isinstance(f, ast.Name) and f.id in self.aliases and not self._shadowed(f.id):
            self.call_funcs.add(id(f))
            self._put(self.aliases[f.id], _mode_of(node, self._params()))
        self.generic_visit(node)

    def visit_Name(self, node):
        if isinstance(node.ctx, ast.Load) and id(node) not in self.call_funcs and node.id in self.aliases \
                and not self._shadowed(node.id):
            self._put(self.aliases[node.id] + " (ref)")


def sites(repo):
    out = []
    for rel in _files(repo):
        tree = _parse(repo, rel)
        v = _Visitor(rel, _aliases(tree))
        v.visit(tree)
        out.extend(v.sites)
    return out


def _read_modes(repo):
    """`if mode in ("r", "r+"): return zarr.open_array(...)` in open_zarr_v3_array: the modes that never create."""
    rel = "cubed/storage/stores/zarr_python_v3.py"
    t = _parse(repo, rel)
    fn = _func(t, "open_zarr_v3_array", rel)
    found = None
    for node in ast.walk(fn):
        if isinstance(node, ast.If) and isinstance(node.test, ast.Compare) and len(node.test.ops) == 1 \
                and isinstance(node.test.ops[0], ast.In) and _src(node.test.left) == "mode" \
                and isinstance(node.test.comparators[0], (ast.Tuple, ast.List, ast.Set)) \
                and any(isinstance(s, ast.Return) and "open_array" in _src(s) for s in node.body):
            elts = node.test.comparators[0].elts
            if not all(isinstance(e, ast.Constant) and isinstance(e.value, str) for e in elts):
                raise ExtractError(f"{rel}: read-mode test is not a tuple of literals: {_src(node.test)}")
            found = [e.value for e in elts]
            # the create call must come after this early return, at the same nesting level
            body = None
            for parent in ast.walk(fn):
                for fld in ("body", "orelse"):
                    lst = getattr(parent, fld, None)
                    if isinstance(lst, list) and node in lst:
                        body = lst[lst.index(node) + 1:]
            if body is None or not any("create_array" in _src(s) for s in body):
                raise ExtractError(f"{rel}: zarr.create_array no longer follows the read-mode early return")
            break
    if found is None:
        raise ExtractError(f"{rel}: `if mode in (...): return zarr.open_array(...)` not found in open_zarr_v3_array")
    return found


def _passes_mode(repo):
    rel = "cubed/storage/store.py"
    t = _parse(repo, rel)
    fn = _func(t, "open_storage_array", rel)
    rets = [s for s in ast.walk(fn) if isinstance(s, ast.Return) and isinstance(s.value, ast.Call)]
    if not rets:
        raise ExtractError(f"{rel}: open_storage_array has no `return open_func(...)`")
    call = rets[-1].value
    args = [_src(a) for a in call.args] + ["%s=%s" % (k.arg, _src(k.value)) for k in call.keywords]
    return ("mode" in args[:2]) or ("mode=mode" in args)


def facts(repo):
    out = {}
    ss = sites(repo)
    if not ss:
        raise ExtractError("no execution sites found at all: the scanner is out of date")
    rows = ",\n  ".join("(%s, %s, %s, %s, %s)" % tuple(lean_str(x) for x in s) for s in ss)
    out["sites"] = ("List (String × String × String × String × String)", "[\n  " + rows + "\n]",
                    "AST scan of cubed/ (file, enclosing, callee, mode, guard); harness/extract_c16.py")
    out["readOnlyModes"] = ("List String", "[" + ", ".join(lean_str(m) for m in _read_modes(repo)) + "]",
                            "cubed/storage/stores/zarr_python_v3.py:open_zarr_v3_array early return")
    out["openStoragePassesMode"] = ("Bool", "true" if _passes_mode(repo) else "false",
                                    "cubed/storage/store.py:open_storage_array")
    rel = "cubed/storage/zarr.py"
    t = _parse(repo, rel)
    cls = [n for n in t.body if isinstance(n, ast.ClassDef) and n.name == "LazyZarrArray"]
    if not cls:
        raise ExtractError(f"{rel}: class LazyZarrArray not found")
    create = [n for n in cls[0].body if isinstance(n, ast.FunctionDef) and n.name == "create"]
    if not create:
        raise ExtractError(f"{rel}: LazyZarrArray.create not found")
    out["lazyCreateDefaultMode"] = ("String", lean_str(_default(create[0], "mode", rel)), rel + ":LazyZarrArray.create")
    init = [n for n in cls[0].body if isinstance(n, ast.FunctionDef) and n.name == "__init__"]
    if not init:
        raise ExtractError(f"{rel}: LazyZarrArray.__init__ not found")
    # the constructor's calls (anything beyond super().__init__ is suspicious and is listed)
    calls = sorted({_src(c.func) for c in ast.walk(init[0]) if isinstance(c, ast.Call)})
    out["lazyInitCalls"] = ("List String", "[" + ", ".join(lean_str(c) for c in calls) + "]", rel + ":LazyZarrArray.__init__")
    fn = _func(t, "lazy_zarr_array", rel)
    calls = sorted({_src(c.func) for c in ast.walk(fn) if isinstance(c, ast.Call)})
    out["lazyFactoryCalls"] = ("List String", "[" + ", ".join(lean_str(c) for c in calls) + "]", rel + ":lazy_zarr_array")
    return out


if __name__ == "__main__":
    import sys
    for s in sites(sys.argv[1] if len(sys.argv) > 1 else "/repo"):
        print(s)
