"""spectrace — observe, for every cubed array created while a block of code runs, which spec it got and through
which static creation sites (harness/extract_c19.py) the creation went.

Works by wrapping `cubed.core.array.CoreArray.__init__` inside the harness process only (nothing in the tree under
test is touched).  For each creation the Python call stack is read: frames that belong to `<repo>/cubed/**` (tests
excluded) are kept, outermost first; every (caller frame -> callee frame) pair is looked up in the static site table
by (caller file, caller line within the call's line range, callee name).  The result is the *chain* of site ids, plus

  init : what the outermost cubed function received as its own `spec` argument ('none' when it has no such parameter
         or got None; otherwise the Spec object) -- the state the chain model starts from,
  gaps : calls between two cubed functions that are not in the site table although the callee has a `spec`
         parameter (the chain model cannot follow them),
  unmatched : the innermost constructor call when it is not in the table (an array creation the extractor does not know).
"""
from __future__ import annotations

import os
import sys


CONSTRUCTOR_NAMES = ("Array",)


class Tracer:
    def __init__(self, repo, sites, creators):
        self.repo = os.path.abspath(repo)
        self.prefix = os.path.join(self.repo, "cubed") + os.sep
        self.by_file = {}
        for s in sites:
            self.by_file.setdefault(os.path.join(self.repo, s["file"]), []).append(s)
        self.creator_files = {name: os.path.join(self.repo, rel) for name, (rel, _slot) in creators.items()}
        self.creator_files["map_blocks"] = os.path.join(self.repo, "cubed/core/ops.py")
        self.records = []
        self._orig = None

    # -- patching ---------------------------------------------------------------------------------------
    def __enter__(self):
        import cubed.core.array as ca
        self._ca = ca
        self._orig = ca.CoreArray.__init__
        tracer = self
        orig = self._orig

        def traced_init(self_, name, zarray, spec, plan):
            orig(self_, name, zarray, spec, plan)
            try:
                tracer._record(self_, spec, sys._getframe(1))
            except Exception as e:  # never disturb the code under test
                tracer.records.append({"name": name, "spec": self_.spec, "given": spec, "chain": [], "gaps": [],
                                       "unmatched": ["tracer error %r" % (e,)], "init": "none", "frames": []})

        ca.CoreArray.__init__ = traced_init
        return self

    def __exit__(self, *exc):
        self._ca.CoreArray.__init__ = self._orig
        return False

    # -- stack -> chain -----------------------------------------------------------------------------------
    def _in_tree(self, filename):
        return filename.startswith(self.prefix) and (os.sep + "tests" + os.sep) not in filename

    def _callee_name(self, frame):
        code = frame.f_code
        if code.co_name == "__init__":
            qual = getattr(code, "co_qualname", "")
            return qual.split(".")[0] if "." in qual else "__init__"
        return code.co_name

    def _record(self, arr, given, frame):
        frames = []
        f = frame
        while f is not None:
            frames.append(f)
            f = f.f_back
        frames.reverse()  # outermost first
        # keep the innermost contiguous run of frames that ends at the constructor and lies in the tree under test
        idx = [i for i, fr in enumerate(frames) if self._in_tree(fr.f_code.co_filename)]
        if not idx:
            self.records.append({"name": arr.name, "spec": arr.spec, "given": given, "chain": [], "gaps": [], "unmatched": [],
                                 "init": "none", "frames": []})
            return
        # start after the last frame that is not in the tree (the harness / recipe frame)
        last_out = max([i for i, fr in enumerate(frames) if not self._in_tree(fr.f_code.co_filename)], default=-1)
        run = [fr for fr in frames[last_out + 1:]]
        def spec_param(fr):
            code = fr.f_code
            params = code.co_varnames[: code.co_argcount + code.co_kwonlyargcount]
            if "spec" in params:
                v = fr.f_locals.get("spec")
                return True, (v if v is not None else "none")
            return False, "none"

        chain, gaps, unmatched = [], [], []
        restarts = 0
        outer = run[0]
        init = spec_param(outer)[1]
        for caller, callee in zip(run, run[1:]):
            name = self._callee_name(callee)
            site = self._lookup(caller, callee, name)
            if site is not None:
                chain.append(site["id"])
                continue
            has, val = spec_param(callee)
            if not has or name == "CoreArray":
                continue
            if name in CONSTRUCTOR_NAMES:
                # an Array(...) construction the site table does not know
                unmatched.append("%s:%d -> %s" % (os.path.relpath(caller.f_code.co_filename, self.repo), caller.f_lineno, name))
            else:
                # a call that is not a creation site but whose callee takes `spec` (e.g. map_blocks with array
                # operands): the chain model starts afresh from the value that callee really received
                chain, init, outer = [], val, callee
                restarts += 1
        code = outer.f_code
        self.records.append({
            "name": arr.name, "spec": arr.spec, "given": given, "chain": chain, "gaps": gaps, "unmatched": unmatched,
            "init": init, "outer": code.co_name, "restarts": restarts,
            "frames": ["%s:%s" % (os.path.relpath(fr.f_code.co_filename, self.repo), fr.f_code.co_name) for fr in run],
        })

    def _lookup(self, caller, callee, name):
        cands = self.by_file.get(caller.f_code.co_filename, ())
        want_file = self.creator_files.get(name)
        if want_file is None or callee.f_code.co_filename != want_file:
            return None
        best = None
        for s in cands:
            if s["callee"] == name and s["lineno"] <= caller.f_lineno <= s["end_lineno"]:
                if best is None or (s["end_lineno"] - s["lineno"]) < (best["end_lineno"] - best["lineno"]):
                    best = s
        return best
