"""Plug-in extractor for C08: syntactic facts of the retry / backup / batching code -> Model/GeneratedC08.lean.

Facts (all re-read from the tree under test on every run):
  backup thresholds      defaults of should_launch_backup(min_tasks, min_completed_fraction, slow_factor) as rationals,
                         the comparison operators used (`<`, `<=`, `>`)
  waitTimeout            the literal `timeout=` of asyncio.wait in async_map_unordered, and return_when
  refillUsesUpdate       batch refill does `start_times.update(...)` (True) or rebinds `start_times = {...}` (False)
  skipsSuperseded        the loop over `finished` starts with `if task in superseded: continue` and the clean-up of a
                         successful task does `superseded.add(backup)`
  checksNotInBackups     the backup launch is guarded by `task not in backups and should_launch_backup(...)`
  defaultRetries         default of threads_create_futures_func(retries=) and of kwargs.pop("retries", ·)
  retryExtraAttempts     the `1` in stop_after_attempt(retries + 1); reraise=True
  processesHaveRetry     whether the processes executor retries too (processes_create_futures_func submits a function that
                         wraps the call in a Retrying); procDefaultRetries / procRetryExtraAttempts / procRetriesZeroSkipsWrapper
                         are the same three facts read from that wrapper; processesPopRetries: `retries` is popped from kwargs
  backupsUnlinkedOnlyOnSuccess   every statement that removes a `backups` entry (`del backups[…]`, .pop/.clear) sits in the
                         `if use_backups:` clean-up of a task that has just been yielded — the pair stays linked when a
                         task fails (that entry is what limits an input to one backup)
  emptyFirstBatchOk      the first batch is taken with `next(input_batches, <empty>)` (True) or `next(input_batches)` (False)
"""
from __future__ import annotations

import ast
from fractions import Fraction

from extract import ExtractError, _default, _func, _parse, _src


def _frac(x, what):
    if isinstance(x, bool) or not isinstance(x, (int, float)):
        raise ExtractError(f"{what}: not a number: {x!r}")
    f = Fraction(x).limit_denominator(10**6)
    if float(f) != float(x) or f < 0:
        raise ExtractError(f"{what}: {x!r} is not a small non-negative rational")
    return f


def facts(repo):
    out = {}

    def put(name, typ, val, prov):
        out[name] = (typ, val, prov)

    def b(v):
        return "true" if v else "false"

    # ---- backup.py ---------------------------------------------------------------------------------
    rel = "cubed/runtime/backup.py"
    t = _parse(repo, rel)
    fn = _func(t, "should_launch_backup", rel)
    mt = _default(fn, "min_tasks", rel)
    if not isinstance(mt, int) or isinstance(mt, bool) or mt < 0:
        raise ExtractError(f"{rel}: min_tasks default {mt!r}")
    put("minTasks", "Nat", str(mt), rel + ":should_launch_backup(min_tasks=)")
    fr = _frac(_default(fn, "min_completed_fraction", rel), "min_completed_fraction")
    put("fracNum", "Nat", str(fr.numerator), rel + ":should_launch_backup(min_completed_fraction=)")
    put("fracDen", "Nat", str(fr.denominator), rel + ":should_launch_backup(min_completed_fraction=)")
    sf = _frac(_default(fn, "slow_factor", rel), "slow_factor")
    put("slowNum", "Nat", str(sf.numerator), rel + ":should_launch_backup(slow_factor=)")
    put("slowDen", "Nat", str(sf.denominator), rel + ":should_launch_backup(slow_factor=)")
    src = _src(fn)
    shape = all(s in src for s in (
        "if len(start_times) < min_tasks:",
        "n = math.ceil(len(start_times) * min_completed_fraction) - 1",
        "if len(end_times) <= n:",
        "sorted([end_times[task] - start_times[task] for task in end_times])",
        "duration = now - start_times[task]",
        "result = duration > completed_durations[n] * slow_factor",
    ))
    if not shape:
        raise ExtractError(f"{rel}: should_launch_backup no longer has the modelled shape")
    put("backupShapeOk", "Bool", "true", rel + ":should_launch_backup (tests and arithmetic as modelled)")

    # ---- asyncio.py --------------------------------------------------------------------------------
    rel = "cubed/runtime/asyncio.py"
    t = _parse(repo, rel)
    fn = _func(t, "async_map_unordered", rel)
    timeout = None
    first_completed = False
    for node in ast.walk(fn):
        if isinstance(node, ast.Call) and _src(node.func) == "asyncio.wait":
            for kw in node.keywords:
                if kw.arg == "timeout" and isinstance(kw.value, ast.Constant):
                    timeout = kw.value.value
                if kw.arg == "return_when" and _src(kw.value) == "asyncio.FIRST_COMPLETED":
                    first_completed = True
    if not isinstance(timeout, int) or isinstance(timeout, bool) or timeout <= 0:
        raise ExtractError(f"{rel}: asyncio.wait(timeout=<positive int literal>) not found (got {timeout!r})")
    if not first_completed:
        raise ExtractError(f"{rel}: asyncio.wait no longer uses return_when=FIRST_COMPLETED")
    put("waitTimeout", "Nat", str(timeout), rel + ":async_map_unordered asyncio.wait(timeout=)")

    # first batch: `inputs = next(input_batches)` or `inputs = next(input_batches, ())`
    first = None
    for node in fn.body:
        for sub in ast.walk(node):
            if isinstance(sub, ast.Assign) and len(sub.targets) == 1 and _src(sub.targets[0]) == "inputs" \
                    and isinstance(sub.value, ast.Call) and _src(sub.value.func) == "next" \
                    and sub.value.args and _src(sub.value.args[0]) == "input_batches" and first is None:
                if len(sub.value.args) == 1:
                    first = False
                elif len(sub.value.args) == 2 and isinstance(sub.value.args[1], (ast.Tuple, ast.List)) \
                        and not sub.value.args[1].elts:
                    first = True
                else:
                    raise ExtractError(f"{rel}: first batch taken with {_src(sub.value)} — not modelled")
        if isinstance(node, ast.While):
            break
    if first is None:
        raise ExtractError(f"{rel}: `inputs = next(input_batches…)` before the loop not found")
    put("emptyFirstBatchOk", "Bool", b(first), rel + ":async_map_unordered first batch")

    # batch refill: the last statement that touches start_times inside `if batch_size is not None and len(pending) < batch_size`
    refill = None
    for node in ast.walk(fn):
        if isinstance(node, ast.If) and "len(pending) < batch_size" in _src(node.test):
            for sub in ast.walk(node):
                if isinstance(sub, ast.Assign) and any(_src(tg) == "start_times" for tg in sub.targets):
                    refill = "replace"
                if isinstance(sub, ast.Call) and _src(sub.func) == "start_times.update":
                    refill = "update"
    if refill is None:
        raise ExtractError(f"{rel}: batch refill no longer records start times")
    put("refillUsesUpdate", "Bool", b(refill == "update"), rel + ":async_map_unordered batch refill")

    # superseded: first statement of the `for task in finished` body + `superseded.add(backup)`
    skip = False
    adds = False
    guard = False
    for node in ast.walk(fn):
        if isinstance(node, ast.For) and _src(node.iter) == "finished":
            first = node.body[0]
            if isinstance(first, ast.If) and _src(first.test) == "task in superseded" \
                    and len(first.body) == 1 and isinstance(first.body[0], ast.Continue):
                skip = True
            adds = "superseded.add(backup)" in _src(node)
        if isinstance(node, ast.For) and "copy(pending)" in _src(node.iter):
            first = node.body[0]
            if isinstance(first, ast.If) and _src(first.test).replace("\n", " ").startswith(
                    "task not in backups and should_launch_backup("):
                guard = True
    if skip != adds:
        raise ExtractError(f"{rel}: `task in superseded` test and `superseded.add(backup)` no longer go together")
    put("skipsSuperseded", "Bool", b(skip), rel + ":async_map_unordered loop over finished")
    put("checksNotInBackups", "Bool", b(guard), rel + ":async_map_unordered backup launch guard")

    # `backups` entries are removed only in the clean-up that follows the yield of a successful task
    def removals(node):
        out = []
        for sub in ast.walk(node):
            if isinstance(sub, ast.Delete):
                out += [tg for tg in sub.targets if isinstance(tg, ast.Subscript) and _src(tg.value) == "backups"]
            if isinstance(sub, ast.Call) and _src(sub.func) in ("backups.pop", "backups.clear", "backups.popitem"):
                out.append(sub)
            if isinstance(sub, ast.Assign) and any(_src(tg) == "backups" for tg in sub.targets) \
                    and not isinstance(sub.value, ast.Dict):
                out.append(sub)
        return out
    allowed = []
    for node in ast.walk(fn):
        if isinstance(node, ast.For) and _src(node.iter) == "finished":
            seen_yield = False
            for stmt in node.body:
                if any(isinstance(x, ast.Yield) for x in ast.walk(stmt)):
                    seen_yield = True
                elif seen_yield and isinstance(stmt, ast.If) and _src(stmt.test) == "use_backups":
                    allowed += removals(stmt)
    total = removals(fn)
    put("backupsUnlinkedOnlyOnSuccess", "Bool", b(len(total) == len(allowed) and len(allowed) == 2),
        rel + ":async_map_unordered `del backups[…]` only after the yield of a successful task")

    # ---- local.py ----------------------------------------------------------------------------------
    rel = "cubed/runtime/executors/local.py"
    t = _parse(repo, rel)
    fn = _func(t, "threads_create_futures_func", rel)

    # tolerant reading: a default may be a literal or the name of a module-level integer constant; the option may be popped
    # directly (`kwargs.pop("retries", d)`) or by a module-level helper that is handed `kwargs` and pops it.  (Whether such
    # a helper treats an explicit 0 correctly is a question for the oracle, not for the extractor.)
    consts = {}
    for node in t.body:
        if isinstance(node, ast.Assign) and len(node.targets) == 1 and isinstance(node.targets[0], ast.Name) \
                and isinstance(node.value, ast.Constant):
            consts[node.targets[0].id] = node.value.value

    def value_of(node):
        if isinstance(node, ast.Constant):
            return node.value
        if isinstance(node, ast.Name) and node.id in consts:
            return consts[node.id]
        return ExtractError

    def default_of(fnode, arg):
        a = fnode.args
        pos = a.posonlyargs + a.args
        for x, dflt in list(zip(pos[len(pos) - len(a.defaults):], a.defaults)) + list(zip(a.kwonlyargs, a.kw_defaults)):
            if x.arg == arg and dflt is not None:
                v = value_of(dflt)
                if v is not ExtractError:
                    return v
        raise ExtractError(f"{rel}: default of {fnode.name}({arg}) not found")

    def is_pop_retries(n):
        return isinstance(n, ast.Call) and isinstance(n.func, ast.Attribute) and n.func.attr == "pop" and n.args \
            and isinstance(n.args[0], ast.Constant) and n.args[0].value == "retries"

    poppers = {f.name for f in t.body if isinstance(f, ast.FunctionDef) and any(is_pop_retries(n) for n in ast.walk(f))}

    def pops_retries(node):
        return any(is_pop_retries(n) or (isinstance(n, ast.Call) and isinstance(n.func, ast.Name) and n.func.id in poppers
                                        and any(_src(a) == "kwargs" for a in n.args))
                   for n in ast.walk(node))

    d = default_of(fn, "retries")
    if not isinstance(d, int) or isinstance(d, bool) or d < 0:
        raise ExtractError(f"{rel}: retries default {d!r}")
    pops = []
    for node in ast.walk(t):
        if is_pop_retries(node) and len(node.args) == 2:
            v = value_of(node.args[1])
            if v is not ExtractError and v is not None:
                pops.append(v)
    if pops and any(p != d for p in pops):
        raise ExtractError(f"{rel}: retries defaults disagree: {d} vs {pops}")
    put("defaultRetries", "Nat", str(d), rel + ":threads_create_futures_func(retries=)")
    def policy(fnode, where):
        """(extra, zero_skips) of the Retrying built inside `fnode`"""
        extra = None
        reraise = False
        zero_skips = False
        for node in ast.walk(fnode):
            if isinstance(node, ast.Call) and _src(node.func) == "stop_after_attempt" and len(node.args) == 1:
                a = node.args[0]
                if isinstance(a, ast.Name) and a.id == "retries":
                    extra = 0
                elif isinstance(a, ast.BinOp) and isinstance(a.op, ast.Add) and _src(a.left) == "retries" \
                        and isinstance(a.right, ast.Constant) and isinstance(a.right.value, int):
                    extra = a.right.value
                elif isinstance(a, ast.BinOp) and isinstance(a.op, ast.Sub) and _src(a.left) == "retries":
                    raise ExtractError(f"{rel}:{where}: stop_after_attempt({_src(a)}) — fewer attempts than retries")
            if isinstance(node, ast.Call) and _src(node.func) == "Retrying":
                reraise = any(kw.arg == "reraise" and isinstance(kw.value, ast.Constant) and kw.value.value is True
                              for kw in node.keywords)
            if isinstance(node, ast.If) and _src(node.test) == "retries != 0":
                zero_skips = True
        if extra is None or extra < 0:
            raise ExtractError(f"{rel}:{where}: stop_after_attempt(retries + <const>) not found")
        if not reraise:
            raise ExtractError(f"{rel}:{where}: Retrying(reraise=True, ...) not found")
        return extra, zero_skips

    extra, zero_skips = policy(fn, "threads_create_futures_func")
    put("retryExtraAttempts", "Nat", str(extra), rel + ":threads_create_futures_func stop_after_attempt(retries + ·)")
    put("retriesZeroSkipsWrapper", "Bool", b(zero_skips), rel + ":threads_create_futures_func `if retries != 0`")
    # processes: processes_create_futures_func(…, retries=d) submits <wrapper>(pickled f, pickled input, retries, …);
    # the wrapper builds the Retrying inside the worker
    fnp = _func(t, "processes_create_futures_func", rel)
    wrapper = None
    for node in ast.walk(fnp):
        if isinstance(node, ast.Call) and _src(node.func) == "concurrent_executor.submit" and node.args:
            target = _src(node.args[0])
            for cand in t.body:
                if isinstance(cand, ast.FunctionDef) and cand.name == target and "Retrying" in _src(cand):
                    if "retries" in [_src(a) for a in node.args[1:]]:
                        wrapper = cand
    pops_everywhere = True
    for cls in t.body:
        if isinstance(cls, ast.ClassDef) and cls.name == "ProcessesExecutor":
            pops_everywhere = pops_retries(cls)
    put("processesPopRetries", "Bool", b(pops_everywhere), rel + ":ProcessesExecutor._async_execute_dag kwargs.pop('retries', ·)")
    if wrapper is None:
        put("processesHaveRetry", "Bool", "false", rel + ":processes_create_futures_func")
        put("procDefaultRetries", "Nat", "0", rel + ":processes_create_futures_func (no retry wrapper)")
        put("procRetryExtraAttempts", "Nat", "0", rel + ":processes_create_futures_func (no retry wrapper)")
        put("procRetriesZeroSkipsWrapper", "Bool", "false", rel + ":processes_create_futures_func (no retry wrapper)")
    else:
        pd = default_of(fnp, "retries")
        if not isinstance(pd, int) or isinstance(pd, bool) or pd < 0:
            raise ExtractError(f"{rel}: processes retries default {pd!r}")
        pextra, pzero = policy(wrapper, wrapper.name)
        put("processesHaveRetry", "Bool", "true", rel + ":processes_create_futures_func -> " + wrapper.name)
        put("procDefaultRetries", "Nat", str(pd), rel + ":processes_create_futures_func(retries=)")
        put("procRetryExtraAttempts", "Nat", str(pextra), rel + ":" + wrapper.name + " stop_after_attempt(retries + ·)")
        put("procRetriesZeroSkipsWrapper", "Bool", b(pzero), rel + ":" + wrapper.name + " `if retries != 0`")
    return out
