"""Plug-in extractor for C20: syntactic facts about name generation, plan merging and pickling
-> Model/GeneratedC20.lean (namespace Cubed.GeneratedC20).

Facts (each is tied to the model by `C20_generated_facts_match_model` in Properties/C20.lean, so a changed
fact breaks a proof obligation):
  gensymModules        for each of the five modules with a `gensym`: (module, default prefix, initial value of
                       `sym_counter`, increment, "pre" when the counter is incremented *before* formatting)
  gensymFormat         the format of the generated name, the same in all five: "{name}-{sym_counter:03}"
  picklingHooks        every `__getstate__/__setstate__/__reduce__/__reduce_ex__/__getnewargs__/__getnewargs_ex__/
                       __copy__/__deepcopy__` defined anywhere in the cubed package outside tests and vendor
                       (expected: none — objects are shipped as their instance dict, no code runs on load)
  counterWriters       every function (module:function) that assigns a module-global `sym_counter`
                       (expected: only the five `gensym`s)
  composeCall          how `arrays_to_dag` combines plans: the callee and its argument
  composeOrder         the list the DAGs are taken from ("arrays-in-argument-order")
  planNewGensyms       number of `gensym()` calls in `Plan._new` and whether it starts from `arrays_to_dag(*source_arrays)`
  newNodesOverwrite    `Plan._new` adds the op node and the array node with `dag.add_node(<name>, ...)` after composing
  readsKeyedByName     `general_blockwise` builds `array_map`/`read_proxies` as dicts keyed by the array names
  inNamesFromArrays    `core.ops.blockwise` passes `in_names = [a.name for a in arrays]` and draws `name = gensym()`
  targetPathIsName     `general_blockwise` creates the target with `path=target_names[i]` in `target_store`
"""
from __future__ import annotations

import ast
import os

from extract import ExtractError, _func, _module_const, _parse, _src, lean_str

GENSYM_MODULES = [
    "cubed/core/array.py",
    "cubed/core/plan.py",
    "cubed/core/optimization.py",
    "cubed/primitive/blockwise.py",
    "cubed/runtime/utils.py",
]
HOOKS = {"__getstate__", "__setstate__", "__reduce__", "__reduce_ex__", "__getnewargs__", "__getnewargs_ex__",
         "__copy__", "__deepcopy__"}


def _bool(b):
    return "true" if b else "false"


def _lean_list(items):
    return "[" + ", ".join(items) + "]"


def _gensym_facts(repo, rel):
    t = _parse(repo, rel)
    init = _module_const(t, "sym_counter", rel)
    fn = None
    for node in t.body:
        if isinstance(node, ast.FunctionDef) and node.name == "gensym":
            fn = node
    if fn is None:
        raise ExtractError(f"{rel}: module-level gensym not found")
    if len(fn.args.args) != 1 or fn.args.args[0].arg != "name":
        raise ExtractError(f"{rel}: gensym signature changed: {_src(fn.args)}")
    prefix = fn.args.defaults[0].value if fn.args.defaults and isinstance(fn.args.defaults[0], ast.Constant) else ""
    body = [st for st in fn.body if not (isinstance(st, ast.Expr) and isinstance(st.value, ast.Constant))]
    if len(body) != 3 or not isinstance(body[0], ast.Global) or body[0].names != ["sym_counter"]:
        raise ExtractError(f"{rel}: gensym body is no longer global/increment/return")
    inc = body[1]
    if not (isinstance(inc, ast.AugAssign) and isinstance(inc.op, ast.Add) and isinstance(inc.target, ast.Name)
            and inc.target.id == "sym_counter" and isinstance(inc.value, ast.Constant) and isinstance(inc.value.value, int)):
        raise ExtractError(f"{rel}: gensym does not increment sym_counter by a constant: {_src(inc)}")
    ret = body[2]
    if not (isinstance(ret, ast.Return) and isinstance(ret.value, ast.JoinedStr)):
        raise ExtractError(f"{rel}: gensym does not return an f-string")
    fmt = ""
    for part in ret.value.values:
        if isinstance(part, ast.Constant):
            fmt += part.value
        elif isinstance(part, ast.FormattedValue):
            spec = ""
            if part.format_spec is not None:
                spec = ":" + "".join(p.value for p in part.format_spec.values if isinstance(p, ast.Constant))
            fmt += "{" + _src(part.value) + spec + "}"
    return prefix, int(init), int(inc.value.value), "pre", fmt


def _iter_sources(repo):
    root = os.path.join(repo, "cubed")
    for d, dirs, files in os.walk(root):
        dirs[:] = [x for x in dirs if x not in ("tests", "vendor", "__pycache__")]
        for f in sorted(files):
            if f.endswith(".py"):
                yield os.path.relpath(os.path.join(d, f), repo)


def facts(repo):
    out = {}

    def put(name, typ, val, prov):
        out[name] = (typ, val, prov)

    # ---- the five gensyms ----------------------------------------------------------------------
    mods, fmts = [], set()
    for rel in GENSYM_MODULES:
        prefix, init, inc, when, fmt = _gensym_facts(repo, rel)
        mods.append("(%s, %s, %d, %d, %s)" % (lean_str(rel), lean_str(prefix), init, inc, lean_str(when)))
        fmts.add(fmt)
    put("gensymModules", "List (String × String × Nat × Nat × String)", _lean_list(mods), "sym_counter / gensym of " + ", ".join(GENSYM_MODULES))
    if len(fmts) != 1:
        raise ExtractError(f"gensym formats differ between modules: {sorted(fmts)}")
    put("gensymFormat", "String", lean_str(fmts.pop()), "the f-string returned by every gensym")

    # ---- pickling hooks and counter writers anywhere in the package ---------------------------
    hooks, writers = [], []
    for rel in _iter_sources(repo):
        t = _parse(repo, rel)
        for node in ast.walk(t):
            if isinstance(node, ast.ClassDef):
                for st in node.body:
                    if isinstance(st, (ast.FunctionDef, ast.AsyncFunctionDef)) and st.name in HOOKS:
                        hooks.append(f"{rel}:{node.name}.{st.name}")
                    if isinstance(st, ast.Assign) and any(isinstance(tg, ast.Name) and tg.id in HOOKS for tg in st.targets):
                        hooks.append(f"{rel}:{node.name}.{_src(st.targets[0])}")
            if isinstance(node, (ast.FunctionDef, ast.AsyncFunctionDef)):
                declared = any(isinstance(st, ast.Global) and "sym_counter" in st.names for st in ast.walk(node))
                assigns = False
                for st in ast.walk(node):
                    if isinstance(st, (ast.Assign, ast.AugAssign, ast.AnnAssign)):
                        tgs = st.targets if isinstance(st, ast.Assign) else [st.target]
                        for tg in tgs:
                            if isinstance(tg, ast.Name) and tg.id == "sym_counter" and declared:
                                assigns = True
                            if isinstance(tg, ast.Attribute) and tg.attr == "sym_counter":
                                assigns = True
                    if isinstance(st, ast.Call) and _src(st.func) == "setattr" and len(st.args) >= 2 \
                            and isinstance(st.args[1], ast.Constant) and st.args[1].value == "sym_counter":
                        assigns = True
                if assigns:
                    writers.append(f"{rel}:{node.name}")
        # copyreg registrations would also be a hook
        src = open(os.path.join(repo, rel)).read()
        if "copyreg" in src:
            hooks.append(f"{rel}:copyreg")
    put("picklingHooks", "List String", _lean_list(lean_str(h) for h in sorted(set(hooks))), "classes of the cubed package (tests/vendor excluded)")
    put("counterWriters", "List String", _lean_list(lean_str(w) for w in sorted(set(writers))), "functions assigning a module-global sym_counter")

    # ---- plan.py: arrays_to_dag, Plan._new -----------------------------------------------------
    rel = "cubed/core/plan.py"
    t = _parse(repo, rel)
    fn = _func(t, "arrays_to_dag", rel)
    rets = [st for st in ast.walk(fn) if isinstance(st, ast.Return)]
    if len(rets) != 1 or not isinstance(rets[0].value, ast.Call):
        raise ExtractError(f"{rel}: arrays_to_dag no longer returns one call")
    put("composeCall", "String", lean_str(_src(rets[0].value)), rel + ":arrays_to_dag")
    order = None
    for st in fn.body:
        if isinstance(st, ast.Assign) and _src(st.targets[0]) == "dags":
            s = _src(st.value).replace(" ", "")
            if s == "[x._plan.dagforxinarraysifhasattr(x,'_plan')]":
                order = "arrays-in-argument-order"
            else:
                order = _src(st.value)
    if order is None:
        raise ExtractError(f"{rel}: arrays_to_dag no longer builds `dags`")
    put("composeOrder", "String", lean_str(order), rel + ":arrays_to_dag")

    cls = None
    for node in t.body:
        if isinstance(node, ast.ClassDef) and node.name == "Plan":
            cls = node
    if cls is None:
        raise ExtractError(f"{rel}: class Plan not found")
    new = None
    for st in cls.body:
        if isinstance(st, ast.FunctionDef) and st.name == "_new":
            new = st
    if new is None:
        raise ExtractError(f"{rel}: Plan._new not found")
    ngensym = sum(1 for n in ast.walk(new) if isinstance(n, ast.Call) and _src(n.func) == "gensym")
    starts = any(isinstance(n, ast.Assign) and _src(n.targets[0]) == "dag" and _src(n.value) == "arrays_to_dag(*source_arrays)"
                 for n in ast.walk(new))
    put("planNewGensyms", "Nat", str(ngensym), rel + ":Plan._new")
    put("planNewComposesSources", "Bool", _bool(starts), rel + ":Plan._new")
    adds = [n for n in ast.walk(new) if isinstance(n, ast.Call) and _src(n.func) == "dag.add_node"]
    firsts = {_src(a.args[0]) for a in adds if a.args}
    put("newNodesOverwrite", "Bool", _bool(bool(adds) and firsts <= {"op_name_unique", "name", "n"} and "op_name_unique" in firsts
                                           and "name" in firsts), rel + ":Plan._new")
    edge_ok = any(isinstance(n, ast.Call) and _src(n.func) == "dag.add_edge" and [_src(a) for a in n.args] == ["x.name", "op_name_unique"]
                  for n in ast.walk(new))
    put("sourceEdgesByName", "Bool", _bool(edge_ok), rel + ":Plan._new")

    # ---- primitive/blockwise.py: general_blockwise --------------------------------------------
    rel = "cubed/primitive/blockwise.py"
    t = _parse(repo, rel)
    fn = _func(t, "general_blockwise", rel)
    src = _src(fn)
    keyed = ("array_map = {name: array for name, array in zip(array_names, arrays, strict=True)}" in src
             and "read_proxies = {name: CubedArrayProxy(array, array.chunks) for name, array in array_map.items()}" in src
             and "source_array_names=array_names" in src)
    put("readsKeyedByName", "Bool", _bool(keyed), rel + ":general_blockwise")
    put("targetPathIsName", "Bool", _bool("path=target_names[i]" in src and "lazy_zarr_array(target_store" in src.replace("\n", "").replace(" ", "")
                                          .replace("lazy_zarr_array(target_store", "lazy_zarr_array(target_store")), rel + ":general_blockwise")
    fn = _func(t, "get_chunk", rel)
    put("chunkReadByKeyName", "Bool", _bool("config.reads_map[name].open()" in _src(fn) and "name = in_key.name" in _src(fn)), rel + ":get_chunk")

    # ---- core/ops.py: blockwise ---------------------------------------------------------------
    rel = "cubed/core/ops.py"
    t = _parse(repo, rel)
    fn = None
    for node in t.body:
        if isinstance(node, ast.FunctionDef) and node.name == "blockwise":
            fn = node
    if fn is None:
        raise ExtractError(f"{rel}: blockwise not found")
    src = _src(fn)
    put("inNamesFromArrays", "Bool", _bool("in_names = [a.name for a in arrays]" in src and "name = gensym()" in src
                                           and "target_name=name" in src), rel + ":blockwise")

    # ---- plan.py: context directory -----------------------------------------------------------
    rel = "cubed/core/plan.py"
    fn = _func(t := _parse(repo, rel), "intermediate_store", rel)
    ctx_unique = False
    for node in t.body:
        if isinstance(node, ast.Assign) and _src(node.targets[0]) == "CONTEXT_ID":
            ctx_unique = "uuid.uuid4()" in _src(node.value)
    put("contextIdHasUuid", "Bool", _bool(ctx_unique and "join_path(work_dir, CONTEXT_ID)" in _src(fn)), rel + ":CONTEXT_ID / intermediate_store")
    return out
