"""Store-level write trace for property C05: a tracing zarr store and a sequential executor that
attributes every store access to the task that issued it.

* ``TracingStore`` wraps any zarr store (``zarr.storage.WrapperStore``) and appends
  ``(seq, task, kind, key)`` to the process-global ``TRACE.events`` for every data access
  (kind in get / set / delete).  zarr runs store coroutines on its own event-loop thread, so the
  "current task" is a process-global marker (``TRACE.task``), *not* a thread-local; the executor below
  is strictly sequential, so the attribution is exact.
* ``TraceExecutor`` is a ``DagExecutor`` that visits ``visit_nodes(dag)`` in topological order and, per
  operation, runs the tasks of ``pipeline.mappable`` one after the other in an adversarial order
  (``order`` in {"forward", "reverse", "shuffle"}), setting the marker to ``(op_name, index, input)``.

Nothing in /repo is touched: both are public extension points (``Spec(intermediate_store=...)``,
``executor=``).  zarr v3 chunk keys look like ``<array path>/c/<i>/<j>`` (``<array path>/c`` for 0-d
arrays); metadata keys end in ``zarr.json``.
"""
from __future__ import annotations

import random
import threading

import zarr
from zarr.storage import WrapperStore


class _Trace:
    def __init__(self):
        self.lock = threading.Lock()
        self.reset()

    def reset(self):
        self.events = []      # (seq, task, kind, store label, key)
        self.task = None      # process-global "current task" marker
        self.tasks = []       # every task started, in order: (op_name, index, input)
        self.ops = []         # per executed operation: dict(name, op_name, inputs, writes=[(array name, write proxy)])
        self.on = True

    def record(self, kind, label, key):
        if not self.on:
            return
        with self.lock:
            self.events.append((len(self.events), self.task, kind, label, key))


TRACE = _Trace()


class TracingStore(WrapperStore):
    """Delegates everything to the wrapped store and records data-key accesses.  `label` tells the
    stores of one computation apart (intermediate store, user targets)."""

    def __init__(self, store, label=""):
        super().__init__(store)
        self.label = label

    def _with_store(self, store):
        return type(self)(store, self.label)

    # zarr compares stores when it re-opens arrays; make the wrapper transparent for that
    def __eq__(self, other):
        return isinstance(other, TracingStore) and self._store == other._store

    def __hash__(self):
        return id(self._store)

    # ---- reads -------------------------------------------------------------------------------
    async def get(self, key, prototype, byte_range=None):
        TRACE.record("get", self.label, key)
        return await self._store.get(key, prototype, byte_range)

    async def get_partial_values(self, prototype, key_ranges):
        key_ranges = list(key_ranges)
        for k, _ in key_ranges:
            TRACE.record("get", self.label, k)
        return await self._store.get_partial_values(prototype, key_ranges)

    async def get_ranges(self, key, byte_ranges, *, prototype, **kwargs):
        TRACE.record("get", self.label, key)
        kwargs = {k: v for k, v in kwargs.items() if v is not None}
        async for group in self._store.get_ranges(key, byte_ranges, prototype=prototype, **kwargs):
            yield group

    async def _get_many(self, requests):
        requests = list(requests)
        for r in requests:
            TRACE.record("get", self.label, r[0])
        async for x in self._store._get_many(requests):
            yield x

    def get_sync(self, key, *, prototype=None, byte_range=None):
        TRACE.record("get", self.label, key)
        return self._store.get_sync(key, prototype=prototype, byte_range=byte_range)

    # ---- writes ------------------------------------------------------------------------------
    async def set(self, key, value):
        TRACE.record("set", self.label, key)
        await self._store.set(key, value)

    async def set_if_not_exists(self, key, value):
        TRACE.record("set", self.label, key)
        return await self._store.set_if_not_exists(key, value)

    async def _set_many(self, values):
        values = list(values)
        for k, _ in values:
            TRACE.record("set", self.label, k)
        await self._store._set_many(values)

    def set_sync(self, key, value):
        TRACE.record("set", self.label, key)
        self._store.set_sync(key, value)

    async def delete(self, key):
        TRACE.record("delete", self.label, key)
        await self._store.delete(key)

    def delete_sync(self, key):
        TRACE.record("delete", self.label, key)
        self._store.delete_sync(key)


def memory_store(label=""):
    """A fresh traced in-memory store."""
    return TracingStore(zarr.storage.MemoryStore(), label)


def _make_executor_class():
    from cubed.runtime.pipeline import visit_nodes
    from cubed.runtime.types import DagExecutor
    from cubed.runtime.utils import handle_operation_start_callbacks, handle_operation_end_callbacks

    class TraceExecutor(DagExecutor):
        """Sequential executor; sets the global current-task marker around each task."""

        def __init__(self, order="forward", seed=0, **kwargs):
            super().__init__(**kwargs)
            self.order = order
            self.seed = seed

        @property
        def name(self):
            return "verif-trace"

        def execute_dag(self, dag, callbacks=None, spec=None, compute_id=None, **kwargs):
            rng = random.Random(self.seed)
            for name, node in visit_nodes(dag):
                handle_operation_start_callbacks(callbacks, name)
                pipeline = node["pipeline"]
                inputs = list(pipeline.mappable)
                wm = getattr(pipeline.config, "writes_map", None)
                TRACE.ops.append({"name": name, "op_name": node.get("op_name"),
                                  "inputs": [tuple(m) if isinstance(m, (list, tuple)) else m for m in inputs],
                                  "writes": list(wm.items()) if wm else []})
                idx = list(range(len(inputs)))
                if self.order == "reverse":
                    idx.reverse()
                elif self.order == "shuffle":
                    rng.shuffle(idx)
                for i in idx:
                    m = inputs[i]
                    task = (name, i, tuple(m) if isinstance(m, (list, tuple)) else repr(m))
                    TRACE.tasks.append(task)
                    TRACE.task = task
                    try:
                        pipeline.function(m, config=pipeline.config)
                    finally:
                        TRACE.task = None
                handle_operation_end_callbacks(callbacks, name)

    return TraceExecutor


_EXECUTOR_CLASS = None


def trace_executor(order="forward", seed=0):
    """Import cubed lazily (the tree under test must be on sys.path first)."""
    global _EXECUTOR_CLASS
    if _EXECUTOR_CLASS is None:
        _EXECUTOR_CLASS = _make_executor_class()
    return _EXECUTOR_CLASS(order=order, seed=seed)


# -------------------------------------------------------------------------------------------------
# reading a trace
# -------------------------------------------------------------------------------------------------

def split_key(key):
    """'<path>/c/1/2' -> ('<path>', (1, 2));  '<path>/c' -> ('<path>', ());  metadata -> None."""
    if key.endswith("zarr.json") or key.endswith(".zarray") or key.endswith(".zattrs") or key.endswith(".zgroup"):
        return None
    parts = key.split("/")
    if "c" not in parts:
        return None
    i = len(parts) - 1 - parts[::-1].index("c")
    # everything after the *last* 'c' component must be integers
    tail = parts[i + 1:]
    try:
        coords = tuple(int(t) for t in tail)
    except ValueError:
        return None
    return "/".join(parts[:i]), coords


def per_task(events=None):
    """{(store label, array path): {task: {'set': [coords...], 'get': [...], 'rmw': [...]}}} from the
    data-key events.  'rmw' = chunk keys the task read (get) *before* writing (set) them: a partial,
    read-modify-write access."""
    events = TRACE.events if events is None else events
    out = {}
    for _, task, kind, label, key in events:
        sk = split_key(key)
        if sk is None or task is None:
            continue
        path, coords = sk
        d = out.setdefault((label, path), {}).setdefault(task, {"set": [], "get": [], "rmw": []})
        if kind == "get":
            d["get"].append(coords)
        elif kind in ("set", "delete"):
            if coords in d["get"] and coords not in d["rmw"]:
                d["rmw"].append(coords)
            d["set"].append(coords)
    return out
