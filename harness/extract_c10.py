"""Plug-in extractor for C10: the code shapes that Model/History.lean transcribes, read from the tree under test.

Written to Model/GeneratedC10.lean (namespace Cubed.GeneratedC10) on every run; `C10_model_matches_source` in
Properties/C10.lean states (by `decide`) that they are the shapes the model assumes, so a change of any of them
breaks the build instead of silently leaving the model behind.
"""
from __future__ import annotations

import ast

from extract import ExtractError, _func, _parse, _src, lean_str


def _b(x):
    return "true" if x else "false"


def _assign_targets(fn):
    """source text of every assignment target in a function"""
    out = []
    for node in ast.walk(fn):
        if isinstance(node, ast.Assign):
            for t in node.targets:
                out.append((_src(t), _src(node.value)))
    return out


def _call_kw(fn, callee_suffix):
    """keyword dicts of the calls in `fn` whose callee text ends with callee_suffix"""
    out = []
    for node in ast.walk(fn):
        if isinstance(node, ast.Call) and _src(node.func).endswith(callee_suffix):
            out.append({k.arg: _src(k.value) for k in node.keywords if k.arg})
    return out


def facts(repo):
    out = {}

    def put(name, typ, val, prov):
        out[name] = (typ, val, prov)

    # --- _store_array: in-place re-targeting of a lazy source --------------------------------------------------
    rel = "cubed/core/ops.py"
    t = _parse(repo, rel)
    fn = _func(t, "_store_array", rel)
    asg = _assign_targets(fn)
    has = lambda tgt, val: any(a == tgt and v == val for a, v in asg)
    lazy_branch = any(isinstance(n, ast.If) and "isinstance(source._zarray, LazyZarrArray)" in _src(n.test) for n in ast.walk(fn))
    if not lazy_branch:
        raise ExtractError(f"{rel}:_store_array no longer distinguishes lazy sources (isinstance(source._zarray, LazyZarrArray))")
    put("storeRetargetsArrayObject", "Bool", _b(has("source._zarray", "target")), rel + ":_store_array  source._zarray = target")
    put("storeRetargetsOwnDagNode", "Bool", _b(has("d['target']", "target") and "source._plan.dag.nodes(data=True)" in _src(fn)),
        rel + ":_store_array  d['target'] = target on source._plan.dag only")
    put("storeRetargetsSharedOp", "Bool", _b(has("op.target_array", "target") and has("writes_map[source.name].array", "target")),
        rel + ":_store_array  op.target_array / write proxy .array = target")
    put("storeMarksUnfusable", "Bool", _b(has("op.fusable_with_successors", "False")), rel + ":_store_array")
    returns_source = any(isinstance(n, ast.Return) and n.value is not None and _src(n.value) == "source" for n in ast.walk(fn))
    put("storeReturnsSameObject", "Bool", _b(returns_source), rel + ":_store_array  return source")
    ident = [kw for kw in _call_kw(fn, "blockwise") if "target_store" in kw]
    put("storeIdentityUnfusable", "Bool", _b(any(kw.get("fusable_with_successors") == "False" and kw.get("target_store") == "target" for kw in ident)),
        rel + ":_store_array  blockwise(identity, …, target_store=target, fusable_with_successors=False)")

    fn = _func(t, "from_zarr", rel)
    modes = [kw.get("mode") for kw in _call_kw(fn, "open_storage_array")]
    if len(modes) != 1 or modes[0] is None:
        raise ExtractError(f"{rel}:from_zarr open_storage_array(mode=…) not found")
    put("fromZarrMode", "String", lean_str(ast.literal_eval(modes[0])), rel + ":from_zarr")

    # --- plans ---------------------------------------------------------------------------------------------------
    rel = "cubed/core/plan.py"
    t = _parse(repo, rel)
    fn = _func(t, "arrays_to_dag", rel)
    put("dagsMergedByComposeAll", "Bool", _b(any(isinstance(n, ast.Return) and n.value is not None and _src(n.value) == "nx.compose_all(dags)"
                                                 for n in ast.walk(fn))), rel + ":arrays_to_dag")
    fn = _func(t, "_finalize", rel)
    stmts = [_src(s) for s in fn.body]
    try:
        i_copy = stmts.index("dag = dag.copy()")
        i_create = next(i for i, s in enumerate(stmts) if "_create_lazy_zarr_arrays(dag)" in s)
        copies = i_copy < i_create
    except (ValueError, StopIteration):
        copies = False
    put("finalizeCopiesDag", "Bool", _b(copies), rel + ":Plan._finalize  dag = dag.copy() before the create-arrays node is added")
    fn = _func(t, "create_zarr_array", rel)
    modes = [kw.get("mode") for kw in _call_kw(fn, ".create")]
    if len(modes) != 1 or modes[0] is None:
        raise ExtractError(f"{rel}:create_zarr_array lazy_zarr_array.create(mode=…) not found")
    put("createArraysMode", "String", lean_str(ast.literal_eval(modes[0])), rel + ":create_zarr_array")
    fn = _func(t, "_new", rel)
    src = _src(fn)
    put("newPlanComposesSources", "Bool", _b("dag = arrays_to_dag(*source_arrays)" in src and "dag.add_edge(x.name, op_name_unique)" in src),
        rel + ":Plan._new")

    # --- optimization works on copies; a fused op is a fresh PrimitiveOperation --------------------------------------
    rel = "cubed/core/optimization.py"
    t = _parse(repo, rel)
    fn = _func(t, "fuse_predecessors", rel)
    put("fuseCopiesDag", "Bool", _b(any(a == "fused_dag" and v == "dag.copy()" for a, v in _assign_targets(fn))),
        rel + ":fuse_predecessors  fused_dag = dag.copy()")
    fn = _func(t, "predecessor_ops_and_arrays", rel)
    put("canFuseNeedsFlagAndSingleConsumer", "Bool",
        _b("node_dict['primitive_op'].fusable_with_successors" in _src(fn) and "out_degree_unique(dag, input) == 1" in _src(fn)),
        rel + ":predecessor_ops_and_arrays")
    fn = _func(t, "can_fuse_predecessors", rel)
    put("noFuseWhenPredecessorRequested", "Bool", _b("set(array_names) & predecessor_array_names" in _src(fn)), rel + ":can_fuse_predecessors")

    rel = "cubed/primitive/blockwise.py"
    t = _parse(repo, rel)
    fn = _func(t, "fuse_multiple", rel)
    kws = _call_kw(fn, "PrimitiveOperation")
    if len(kws) != 1:
        raise ExtractError(f"{rel}:fuse_multiple no longer builds exactly one PrimitiveOperation")
    rel2 = "cubed/primitive/types.py"
    t2 = _parse(repo, rel2)
    default_true = False
    for node in ast.walk(t2):
        if isinstance(node, ast.ClassDef) and node.name == "PrimitiveOperation":
            for st in node.body:
                if isinstance(st, ast.AnnAssign) and _src(st.target) == "fusable_with_successors" and st.value is not None:
                    default_true = _src(st.value) == "True"
    put("fusedOpFusableAgain", "Bool", _b("fusable_with_successors" not in kws[0] and default_true),
        rel + ":fuse_multiple builds a PrimitiveOperation without fusable_with_successors (default True in " + rel2 + ")")
    fn = _func(t, "fuse_blockwise_specs", rel)
    src = _src(fn)
    put("fusedReadsMergedByName", "Bool", _b("read_proxies = dict(bw_spec.reads_map)" in src and "read_proxies.update(bws.reads_map)" in src),
        rel + ":fuse_blockwise_specs")
    fn = _func(t, "general_blockwise", rel)
    put("readProxyCapturedAtBuild", "Bool", _b("CubedArrayProxy(array, array.chunks)" in _src(fn)), rel + ":general_blockwise")

    rel = "cubed/core/array.py"
    t = _parse(repo, rel)
    fn = _func(t, "_read_stored", rel)
    put("readBackUsesCurrentZarray", "Bool", _b("open_if_lazy_zarr_array(self._zarray)" in _src(fn)), rel + ":CoreArray._read_stored")
    return out
