"""DAG programs built through cubed's public API (chains, diamonds, repeated arguments, mixed levels,
multi-output ops, reductions, selections, rechunks, lazy stores) and structural export of a plan's dag
for the Lean optimizer model (drivers/C02.lean).  Used by props/c02.py and props/c04.py.
"""
from __future__ import annotations

import numpy as np

OPS = ["neg", "add", "addself", "transpose", "flip", "rechunk", "sum0", "sum1", "index", "matmul",
       "unstack_stack", "concat", "mean0", "cumsum", "store", "astype", "mul3", "max_all_bcast", "where3", "sq_flip", "sq_sum", "sq_slice"]


def gen_dag_program(rng, n_steps=None):
    """A JSON-serialisable program over square (n, n) integer arrays."""
    n = rng.choice([4, 6])
    cs = [c for c in (1, 2, 3, n) if c <= n]
    n_in = rng.randint(1, 3)
    inputs = [{"chunks": [rng.choice(cs), rng.choice(cs)], "salt": i} for i in range(n_in)]
    steps = []
    n_steps = n_steps or rng.choice([1, 1, 2, 2, 3, 4, 5, 6, 7])
    nvals = n_in
    weights = {"neg": 5, "add": 6, "addself": 2, "transpose": 2, "flip": 1, "rechunk": 2, "sum0": 2, "sum1": 2, "index": 2,
               "matmul": 1, "unstack_stack": 1, "concat": 1, "mean0": 1, "cumsum": 1, "store": 1, "astype": 1, "mul3": 2,
               "max_all_bcast": 1, "where3": 3, "sq_flip": 2, "sq_sum": 2, "sq_slice": 2}
    names = list(weights)
    for _ in range(n_steps):
        op = rng.choices(names, [weights[k] for k in names])[0]
        a = rng.randrange(nvals)
        b = rng.randrange(nvals)
        c = rng.randrange(nvals)
        st = {"op": op, "a": a, "b": b, "c": c, "chunks": [rng.choice(cs), rng.choice(cs)]}
        steps.append(st)
        nvals += 1
    k = rng.randint(1, min(3, nvals))
    # bias towards late values but include intermediates (exercises the array_names guard)
    outs = sorted(set(rng.sample(range(n_in, nvals), min(k, nvals - n_in)) + ([rng.randrange(nvals)] if rng.random() < 0.4 else [])))
    return {"n": n, "inputs": inputs, "steps": steps, "outputs": outs}


def input_data(prog, i):
    n = prog["n"]
    return (np.arange(n * n, dtype="int64").reshape(n, n) + 1) * (prog["inputs"][i]["salt"] + 1) + 7 * prog["inputs"][i]["salt"]


def numpy_values(prog):
    n = prog["n"]
    vals = [input_data(prog, i) for i in range(len(prog["inputs"]))]
    for st in prog["steps"]:
        a, b, c = vals[st["a"]], vals[st["b"]], vals[st["c"]]
        op = st["op"]
        if op == "neg":
            v = -a
        elif op == "add":
            v = a + b
        elif op == "addself":
            v = a + a
        elif op == "transpose":
            v = a.T
        elif op == "flip":
            v = a[::-1, :]
        elif op in ("rechunk", "store", "astype"):
            v = a.copy()
        elif op == "sum0":
            v = a + a.sum(axis=0, keepdims=True)
        elif op == "sum1":
            v = a + a.sum(axis=1, keepdims=True)
        elif op == "index":
            v = np.concatenate([a[1:, :], b[:1, :]], axis=0)
        elif op == "matmul":
            v = (a % 5) @ (b % 5)
        elif op == "unstack_stack":
            v = np.stack([a[i] for i in range(n)][::-1], axis=0)
        elif op == "concat":
            v = np.concatenate([a, b], axis=0)[: n, :] + np.concatenate([a, b], axis=0)[n:, :]
        elif op == "mean0":
            v = a - (a.mean(axis=0, keepdims=True)).astype("int64")
        elif op == "cumsum":
            v = np.cumsum(a, axis=0)
        elif op == "mul3":
            v = a * b + c
        elif op == "max_all_bcast":
            v = a + a.max()
        elif op == "where3":
            v = np.where(a > 20, (-b).astype("int8"), (-c).astype("int8")).astype("int64")
        elif op == "sq_flip":
            v = a[::-1, :] * a[::-1, :]
        elif op == "sq_sum":
            v = a + a.sum(axis=0, keepdims=True) * a.sum(axis=0, keepdims=True)
        elif op == "sq_slice":
            v = np.concatenate([a[1:, :] * a[1:, :], b[:1, :]], axis=0)
        vals.append(v)
    return vals


def numpy_values_cache(prog):
    key = id(prog)
    if _CACHE.get("key") != key:
        _CACHE["key"] = key
        _CACHE["vals"] = numpy_values(prog)
    return _CACHE["vals"]


_CACHE = {}


def build(prog, spec, store_dir=None):
    """Build the cubed arrays for every value of the program."""
    import cubed
    import cubed.array_api as xp

    n = prog["n"]
    vals = []
    for i, inp in enumerate(prog["inputs"]):
        vals.append(xp.asarray(input_data(prog, i), chunks=tuple(inp["chunks"]), spec=spec))
    for j, st in enumerate(prog["steps"]):
        a, b, c = vals[st["a"]], vals[st["b"]], vals[st["c"]]
        op = st["op"]
        if op == "neg":
            v = xp.negative(a)
        elif op == "add":
            v = xp.add(a, b)
        elif op == "addself":
            v = xp.add(a, a)
        elif op == "transpose":
            v = xp.permute_dims(a, (1, 0))
        elif op == "flip":
            v = xp.flip(a, axis=0)
        elif op == "rechunk":
            v = a.rechunk(tuple(st["chunks"]))
        elif op == "astype":
            v = xp.astype(a, xp.int64, copy=True)
        elif op == "store":
            if store_dir is None:
                v = xp.positive(a)
            else:
                v = cubed.store(xp.positive(a), f"{store_dir}/store-{j}.zarr", compute=False)[0]
        elif op == "sum0":
            v = xp.add(a, xp.sum(a, axis=0, keepdims=True))
        elif op == "sum1":
            v = xp.add(a, xp.sum(a, axis=1, keepdims=True))
        elif op == "index":
            v = xp.concat([a[1:, :], b[:1, :]], axis=0)
        elif op == "matmul":
            v = xp.matmul(xp.remainder(a, xp.asarray(5, spec=spec)), xp.remainder(b, xp.asarray(5, spec=spec)))
        elif op == "unstack_stack":
            parts = xp.unstack(a, axis=0)
            v = xp.stack(list(parts)[::-1], axis=0)
        elif op == "concat":
            cc = xp.concat([a, b], axis=0)
            v = xp.add(cc[:n, :], cc[n:, :])
        elif op == "mean0":
            v = xp.subtract(a, xp.astype(xp.mean(xp.astype(a, xp.float64), axis=0, keepdims=True), xp.int64))
        elif op == "cumsum":
            v = xp.cumulative_sum(a, axis=0)
        elif op == "mul3":
            v = xp.add(xp.multiply(a, b), c)
        elif op == "max_all_bcast":
            v = xp.add(a, xp.max(a))
        elif op == "where3":
            # a three-input op whose predecessors (negative -> int8 cast) need more memory than the op itself
            # (the condition is a plain in-memory input: a non-fusable first argument)
            mask = xp.asarray(numpy_values_cache(prog)[st["a"]] > 20, chunks=tuple(st["chunks"]), spec=spec)
            v = xp.astype(xp.where(mask, xp.astype(xp.negative(b), xp.int8), xp.astype(xp.negative(c), xp.int8)), xp.int64)
        elif op == "sq_flip":
            # the same array twice, produced by an op whose key function yields a STREAM of blocks (selection)
            f = xp.flip(a, axis=0)
            v = xp.multiply(f, f)
        elif op == "sq_sum":
            r = xp.sum(a, axis=0, keepdims=True)   # reduction: stream of blocks
            v = xp.add(a, xp.multiply(r, r))
        elif op == "sq_slice":
            sl = a[1:, :]
            v = xp.concat([xp.multiply(sl, sl), b[:1, :]], axis=0)
        vals.append(v)
    return vals


# ------------------------------------------------------------------------------------------------------

def export_dag(dag):
    """Structural export: (ops string, topological order, dag.nodes order, virtual arrays)."""
    import networkx as nx

    from cubed.primitive.blockwise import apply_blockwise
    from cubed.storage.virtual import VirtualArray
    from cubed.utils import chunk_memory

    recs = []
    virtual = []
    for name, d in dag.nodes(data=True):
        if d.get("type") == "array" or "target" in d and d.get("type") != "op":
            if isinstance(d.get("target"), VirtualArray):
                virtual.append(name)
            continue
        if d.get("type") != "op":
            continue
        pop = d.get("primitive_op")
        ine = [u for u, _ in dag.in_edges(name)]
        outs = list(dict.fromkeys(v for _, v in dag.out_edges(name)))
        if pop is None:
            rec = [name, "-", ",".join(ine) or "-", ",".join(outs) or "-", "0", "0", "0", "0", "0", "-", "0", "0", "0"]
        else:
            ta = pop.target_array
            try:
                cm = 0 if isinstance(ta, list) or ta is None else int(chunk_memory(ta))
            except Exception:
                cm = 0
            cfg = pop.pipeline.config
            nib = getattr(cfg, "num_input_blocks", ()) or ()
            rec = [name, ",".join(pop.source_array_names) or "-", ",".join(ine) or "-", ",".join(outs) or "-", "1",
                   "1" if pop.pipeline.function == apply_blockwise else "0",
                   "1" if pop.fusable_with_predecessors else "0", "1" if pop.fusable_with_successors else "0",
                   str(int(pop.num_tasks)), ",".join(str(int(x)) for x in nib) or "-", str(int(pop.projected_mem)),
                   str(int(pop.allowed_mem)), str(cm)]
        recs.append(":".join(rec))
    order = list(nx.topological_sort(dag))
    return ";".join(recs), order, list(dag.nodes()), virtual


def canon_dag(dag):
    """Canonical description of a (possibly optimized) dag, in the format of drivers/C02.lean `showDag` (ops part)."""
    out = []
    for name, d in dag.nodes(data=True):
        if d.get("type") != "op":
            continue
        pop = d.get("primitive_op")
        ine = sorted(u for u, _ in dag.in_edges(name))
        outs = list(dict.fromkeys(v for _, v in dag.out_edges(name)))
        if pop is None:
            out.append((name, "%s::%s:%s::0:0:0:0" % (name, ",".join(ine), ",".join(outs))))
        else:
            nib = getattr(pop.pipeline.config, "num_input_blocks", ()) or ()
            out.append((name, "%s:%s:%s:%s:%s:%d:%d:%d:%d" % (
                name, ",".join(pop.source_array_names), ",".join(ine), ",".join(outs),
                ",".join(str(int(x)) for x in nib), int(pop.projected_mem), int(pop.num_tasks),
                1 if pop.fusable_with_predecessors else 0, 1 if pop.fusable_with_successors else 0)))
    return ";".join(s for _, s in sorted(out))


def check_topo(dag, order):
    pos = {n: i for i, n in enumerate(order)}
    return all(pos[u] < pos[v] for u, v in dag.edges())


def opt_request(mode, array_names, max_src, max_blocks, always, never, order, virtual, ops):
    def lst(x):
        return "none" if x is None else (",".join(x) or "-")
    return "opt|%s|%s|%s|%s|%s|%s|%s|%s|%s" % (
        mode, ",".join(array_names) or "-", max_src, "none" if max_blocks is None else max_blocks, lst(always), lst(never),
        ",".join(order) or "-", ",".join(virtual) or "-", ops)
