"""Virtual-time asyncio event loop and scripted futures for driving the REAL
`cubed.runtime.asyncio.async_map_unordered` coroutine deterministically (property C08).

* `VirtualLoop`  : a SelectorEventLoop whose clock is a plain number.  When nothing is ready the clock
                   jumps to the next timer, so `asyncio.wait(..., timeout=2)` and completion timers fire
                   instantly and *every timer with the same deadline fires in the same loop turn* (that is how
                   several futures end up in one `finished` set).
* `VClock`       : object with `time()` / `monotonic()` reading the loop's clock; the harness installs it as
                   `cubed.runtime.asyncio.time` for the duration of one run (inside the harness process only).
* `run_script`   : runs the real coroutine on a script  submission index -> (ok, duration)  and returns what the
                   property talks about: results, exception identity, submissions per input, rounds.

Nothing here knows anything about the Lean model.
"""
from __future__ import annotations

import asyncio
import contextlib
import heapq
import io


class VirtualLoop(asyncio.SelectorEventLoop):
    def __init__(self):
        super().__init__()
        self._vt = 0
        self._clock_resolution = 1e-9
        self.idle_jumps = 0

    def time(self):
        return self._vt

    def _run_once(self):
        # drop cancelled timers at the head, then, if nothing is ready, jump to the next deadline
        while self._scheduled and self._scheduled[0]._cancelled:
            h = heapq.heappop(self._scheduled)
            h._scheduled = False
            self._timer_cancelled_count = max(0, self._timer_cancelled_count - 1)
        if not self._ready and self._scheduled:
            when = self._scheduled[0]._when
            if when > self._vt:
                self._vt = when
                self.idle_jumps += 1
        super()._run_once()


class VClock:
    """stand-in for the `time` module inside cubed.runtime.asyncio"""

    def __init__(self, loop):
        self._loop = loop

    def time(self):
        return self._loop.time()

    def monotonic(self):
        return self._loop.time()


class ScriptError(Exception):
    """the exception a scripted failing submission raises; `sub` identifies the submission"""

    def __init__(self, sub, inp):
        super().__init__(f"scripted failure of submission {sub} (input {inp})")
        self.sub = sub
        self.inp = inp


class Script:
    """submission index -> (ok: bool, duration: int >= 1).  Submissions beyond the list succeed after `default`."""

    def __init__(self, entries, default=(True, 1)):
        self.entries = [tuple(e) for e in entries]
        self.default = tuple(default)

    def get(self, k):
        return self.entries[k] if k < len(self.entries) else self.default


class Recorder:
    def __init__(self, loop, script, with_stats):
        self.loop = loop
        self.script = script
        self.with_stats = with_stats
        self.subs = []          # (submission index, input, submit time)
        self.futs = []          # the futures, by submission index
        self.cancel_seen = []   # submission indices cancelled while still running

    def create_futures_func(self, inputs, **kwargs):
        out = []
        for i in inputs:
            k = len(self.subs)
            ok, dur = self.script.get(k)
            fut = self.loop.create_future()
            self.subs.append((k, i, self.loop.time()))
            self.futs.append(fut)

            def fire(fut=fut, k=k, i=i, ok=ok):
                if fut.done():      # cancelled as the backup / original of a task that succeeded
                    return
                if ok:
                    fut.set_result((("res", i, k), {}) if self.with_stats else ("res", i, k))
                else:
                    fut.set_exception(ScriptError(k, i))

            self.loop.call_at(self.loop.time() + dur, fire)
            out.append((i, fut))
        return out


def run_script(inputs, script, use_backups=False, batch_size=None, return_stats=False, max_results=100000,
               consumer_delay=None):
    """Drive the real coroutine.  Returns a dict:
         outcome  : 'done' | 'raised' | 'crash'
         results  : list of (input, submission) in yield order
         raised   : submission index of the ScriptError raised, or None
         crash    : repr of any other exception
         subs     : list of (submission, input, submit time)
         rounds   : number of virtual-clock jumps (a bound on wait rounds)
       `consumer_delay`: if set, the consumer awaits `asyncio.sleep(consumer_delay)` after each result (models a
       consumer that lets the loop run between results, as aiostream's merge does)."""
    import cubed.runtime.asyncio as cra

    loop = VirtualLoop()
    rec = Recorder(loop, script, return_stats)
    results = []
    res = {"outcome": None, "results": results, "raised": None, "crash": None}

    async def consume():
        agen = cra.async_map_unordered(rec.create_futures_func, list(inputs), use_backups=use_backups,
                                       batch_size=batch_size, return_stats=return_stats)
        async for r in agen:
            if return_stats:
                r = r[0]
            results.append((r[1], r[2]))
            if len(results) > max_results:
                raise RuntimeError("too many results")
            if consumer_delay is not None:
                await asyncio.sleep(consumer_delay)

    old_time = cra.time
    cra.time = VClock(loop)
    try:
        with contextlib.redirect_stdout(io.StringIO()):
            try:
                loop.run_until_complete(asyncio.wait_for(consume(), timeout=10_000_000))
                res["outcome"] = "done"
            except ScriptError as e:
                res["outcome"] = "raised"
                res["raised"] = e.sub
            except BaseException as e:  # KeyError, RuntimeError(StopIteration), TimeoutError (= hang) ...
                res["outcome"] = "crash"
                res["crash"] = f"{type(e).__name__}: {e}"[:200]
    finally:
        cra.time = old_time
        try:
            for f in rec.futs:
                if not f.done():
                    f.cancel()
                elif not f.cancelled():
                    f.exception()       # mark as retrieved (no "exception was never retrieved" noise)
            loop.run_until_complete(asyncio.sleep(0))
        except Exception:
            pass
        loop.close()
    res["subs"] = rec.subs
    res["end_time"] = loop.time()
    res["rounds"] = loop.idle_jumps
    return res
