"""Child-process helpers for C20: run a small *program* of array constructions in a fresh Python
process (multiprocessing `spawn`: every `sym_counter` starts at 0, own `CONTEXT_ID`), ship arrays with
`cloudpickle`, export the real plans (`x._plan.dag`) in a canonical JSON form, compute values.

A program is a list of instructions; registers are appended in order (a failed instruction appends None):

  ["leaf", k]                      xp.asarray(leaf_values(k), chunks=CHUNK, spec=spec)
  ["leaf", k, "alt"]               the same with a different Spec (only useful as the second operand of "bump")
  ["apply", fn, [i, j, ...]]       getattr(xp, fn)(*[regs[i] ...])          fn in FUNCS
  ["roundtrip", i]                 cloudpickle.loads(cloudpickle.dumps(regs[i]))
  ["bump", i, j]                   xp.add(regs[i], regs[j]) with operands of different specs: draws an array name, then
                                   raises ValueError (no register, no op name)
  ["recv", key]                    cloudpickle.loads(job["blobs"][key])
  ["ship", i, key]                 result["blobs"][key] = cloudpickle.dumps(regs[i])           (no register)
  ["compute", [i, ...], opts]      cubed.compute(*regs, optimize_graph=opts["optimize"], executor=…)  (no register)
  ["plan", [i, ...]]               export of arrays_to_plan(*regs).dag                         (no register)

The module is importable without side effects; `run_job` is the entry point used by the pool.
"""
from __future__ import annotations

import os
import sys
import traceback

N = 4
CHUNK = 2
FUNCS = {"negative": 1, "abs": 1, "subtract": 2, "add": 2, "multiply": 2}


def leaf_values(k):
    """Distinct, non-zero data for leaf id k (shared with the harness' NumPy reference)."""
    return [1000 * k + 7 * j * j + j + 1 for j in range(N)]


def loc_id(t):
    """Canonical storage location of a node target / zarr array object (survives pickling)."""
    if t is None:
        return "none"
    cls = type(t).__name__
    if cls == "LazyZarrArray":
        return "Z|%s|%s" % (t.store, t.path)
    if cls == "VirtualInMemoryArray":
        import numpy as np
        return "V|" + ",".join(str(int(v)) for v in np.asarray(t.array).ravel().tolist())
    store = getattr(t, "store", None)
    if store is not None:
        return "S|%s|%s" % (getattr(store, "root", store), getattr(t, "path", ""))
    return "X|%s" % cls


def export_dag(dag):
    """nodes: ["A", name, loc, [preds...]] | ["O", name, fn, prim, [srcs], [[name, loc]...reads], [[name, loc]...writes], [preds]]"""
    nodes = []
    for n, d in dag.nodes(data=True):
        preds = sorted(str(u) for u, _ in dag.in_edges(n))
        kind = d.get("type")
        if kind == "array":
            nodes.append(["A", str(n), loc_id(d.get("target")), preds])
        elif kind == "op":
            po = d.get("primitive_op")
            fn = str(d.get("func_name") or d.get("op_name") or "?")
            if po is None:
                nodes.append(["O", str(n), fn, 0, [], [], [], preds])
            else:
                cfg = po.pipeline.config
                reads = [[str(k), loc_id(v.array)] for k, v in getattr(cfg, "reads_map", {}).items()]
                writes = [[str(k), loc_id(v.array)] for k, v in getattr(cfg, "writes_map", {}).items()]
                nodes.append(["O", str(n), fn, 1, [str(s) for s in po.source_array_names], reads, writes, preds])
        else:
            nodes.append(["?", str(n), str(kind), preds])
    edges = sorted([str(u), str(v), int(k)] for u, v, k in dag.edges(keys=True))
    return {"nodes": nodes, "edges": edges}


def counters():
    import cubed.core.array as ca
    import cubed.core.plan as cp
    import cubed.primitive.blockwise as pb
    return [ca.sym_counter, cp.sym_counter, pb.sym_counter]


def _describe(x):
    return {"name": str(x.name), "loc": loc_id(x._zarray), "dag": export_dag(x._plan.dag)}


def _executor(name):
    if name in (None, "default"):
        return None
    from cubed.runtime.create import create_executor
    return create_executor(name)


def run_program(job):
    """Run job["program"] in *this* process; see module docstring.  Returns a picklable dict."""
    repo = job["repo"]
    if repo not in sys.path:
        sys.path.insert(0, repo)
    import logging
    import warnings
    warnings.filterwarnings("ignore")
    logging.disable(logging.CRITICAL)      # failing tasks are outcomes here, not something to log
    import cloudpickle
    import numpy as np

    import cubed
    import cubed.array_api as xp
    from cubed.core.plan import arrays_to_plan

    spec = cubed.Spec(work_dir=job["work_dir"], allowed_mem="200MB", reserved_mem=0)
    other_spec = cubed.Spec(work_dir=job["work_dir"], allowed_mem="201MB", reserved_mem=0)
    regs = []
    out = {"pid": os.getpid(), "cubed_file": cubed.__file__, "context": None, "start_counters": counters(),
           "regs": [], "events": [], "blobs": {}}
    import cubed.core.plan as cp
    out["context"] = cp.CONTEXT_ID
    for pos, ins in enumerate(job["program"]):
        kind = ins[0]
        try:
            if kind == "leaf":
                x = xp.asarray(np.array(leaf_values(ins[1]), dtype="int64"), chunks=CHUNK,
                               spec=other_spec if len(ins) > 2 and ins[2] == "alt" else spec)
            elif kind == "apply":
                args = [regs[i] for i in ins[2]]
                if any(a is None for a in args):
                    raise RuntimeError("operand register is empty")
                x = getattr(xp, ins[1])(*args)
            elif kind == "roundtrip":
                if regs[ins[1]] is None:
                    raise RuntimeError("operand register is empty")
                x = cloudpickle.loads(cloudpickle.dumps(regs[ins[1]]))
            elif kind == "recv":
                x = cloudpickle.loads(job["blobs"][ins[1]])
            elif kind == "bump":
                try:
                    xp.add(regs[ins[1]], regs[ins[2]])
                    out["events"].append({"pos": pos, "kind": "bump", "error": "no exception"})
                except ValueError as e:
                    if "same spec" not in str(e):
                        raise
                    out["events"].append({"pos": pos, "kind": "bump", "counters": counters()})
                continue
            elif kind == "ship":
                if regs[ins[1]] is None:
                    raise RuntimeError("operand register is empty")
                out["blobs"][ins[2]] = cloudpickle.dumps(regs[ins[1]])
                continue
            elif kind == "compute":
                arrs = [regs[i] for i in ins[1]]
                opts = ins[2] if len(ins) > 2 else {}
                ev = {"pos": pos, "kind": "compute", "regs": list(ins[1]), "opts": opts}
                if any(a is None for a in arrs):
                    ev["error"] = "operand register is empty"
                else:
                    try:
                        res = cubed.compute(*arrs, optimize_graph=bool(opts.get("optimize", True)),
                                            executor=_executor(opts.get("executor")))
                        ev["values"] = [np.asarray(r).ravel().tolist() for r in res]
                    except BaseException as e:  # noqa: BLE001 - everything is an outcome here
                        ev["error"] = "%s: %s" % (type(e).__name__, str(e)[:160])
                out["events"].append(ev)
                continue
            elif kind == "plan":
                arrs = [regs[i] for i in ins[1]]
                ev = {"pos": pos, "kind": "plan", "regs": list(ins[1])}
                if any(a is None for a in arrs):
                    ev["error"] = "operand register is empty"
                else:
                    try:
                        ev["dag"] = export_dag(arrays_to_plan(*arrs).dag)
                    except BaseException as e:  # noqa: BLE001
                        ev["error"] = "%s: %s" % (type(e).__name__, str(e)[:160])
                out["events"].append(ev)
                continue
            else:
                raise RuntimeError("unknown instruction %r" % (ins,))
            regs.append(x)
            out["regs"].append(dict(_describe(x), pos=pos, counters=counters()))
        except BaseException as e:  # noqa: BLE001
            if kind in ("leaf", "apply", "roundtrip", "recv"):
                regs.append(None)
                out["regs"].append({"pos": pos, "error": "%s: %s" % (type(e).__name__, str(e)[:160]), "counters": counters()})
            else:
                out["events"].append({"pos": pos, "kind": kind, "error": "%s: %s" % (type(e).__name__, str(e)[:160])})
    return out


def run_job(job):
    """Pool entry point (fresh process)."""
    try:
        return run_program(job)
    except BaseException as e:  # noqa: BLE001
        return {"fatal": "%s: %s" % (type(e).__name__, e), "trace": traceback.format_exc()[-1500:]}


def _child_main(job, conn):
    try:
        conn.send(run_job(job))
    finally:
        conn.close()


class FreshProcesses:
    """Every job runs in its own freshly spawned interpreter (multiprocessing `spawn`, one process per job)."""

    def __init__(self, workers=4):
        import multiprocessing as mp
        import threading
        self.ctx = mp.get_context("spawn")
        self.workers = workers
        self.slots = threading.Semaphore(workers)

    def run_one(self, job, timeout=600):
        with self.slots:
            parent, child = self.ctx.Pipe(duplex=False)
            pr = self.ctx.Process(target=_child_main, args=(job, child))
            pr.start()
            child.close()
            try:
                if not parent.poll(timeout):
                    pr.kill()
                    return {"fatal": "timeout after %ss" % timeout}
                res = parent.recv()
            except EOFError:
                res = {"fatal": "child exited without a result (exit code %s)" % pr.exitcode}
            finally:
                pr.join(10)
                parent.close()
            return res

    def map(self, jobs, timeout=600):
        """Independent jobs, concurrently."""
        from concurrent.futures import ThreadPoolExecutor
        if not jobs:
            return []
        with ThreadPoolExecutor(max_workers=self.workers) as ex:
            return list(ex.map(lambda j: self.run_one(j, timeout), jobs))

    def map_chains(self, chains, timeout=600):
        """`chains`: list of callables `f(run_one) -> result`; each runs its own jobs one after the other
        (a later job needs the blobs of the earlier ones), different chains run concurrently."""
        from concurrent.futures import ThreadPoolExecutor
        if not chains:
            return []
        with ThreadPoolExecutor(max_workers=max(1, len(chains))) as ex:
            return list(ex.map(lambda f: f(lambda j: self.run_one(j, timeout)), chains))


def run_emulated(job):
    """The same program in the *calling* process, emulating a fresh interpreter: the name counters are
    reset to 0 and `CONTEXT_ID` gets a new unique value (harness-side monkey patch; restored afterwards)."""
    repo = job["repo"]
    if repo not in sys.path:
        sys.path.insert(0, repo)
    import uuid

    import cubed.core.array as ca
    import cubed.core.plan as cp
    import cubed.primitive.blockwise as pb
    saved = (ca.sym_counter, cp.sym_counter, pb.sym_counter, cp.CONTEXT_ID)
    ca.sym_counter = cp.sym_counter = pb.sym_counter = 0
    cp.CONTEXT_ID = "cubed-emulated-%s" % uuid.uuid4()
    try:
        return run_program(job)
    finally:
        ca.sym_counter, cp.sym_counter, pb.sym_counter, cp.CONTEXT_ID = saved


if __name__ == "__main__":
    # manual use:  python pickleproc.py '<json job>'
    import json
    job = json.loads(sys.argv[1])
    job.setdefault("repo", os.environ.get("VERIF_REPO", "/repo"))
    job.setdefault("blobs", {})
    res = FreshProcesses(1).map([job])[0]
    res["blobs"] = {k: len(v) for k, v in res.get("blobs", {}).items()}
    print(json.dumps(res, indent=1, default=str))
