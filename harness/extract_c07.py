"""Plug-in extractor for C07: the syntactic facts of the scheduling code the model of Model/Sched.lean relies on.

    visit_nodes iterates nx.topological_sort(dag)                      -> hypothesis `Topo` is about the right order
    visit_node_generations iterates nx.topological_generations(dag)    -> hypothesis `Gens`
    skip_node = no pipeline, else the `computed` flag                  -> `Dag.skip`
    _create_lazy_zarr_arrays adds create-arrays -> arrays -> n for every pipeline node n   -> `CreateFirst`
    async_map_dag: operation-start before the stream is opened, operation-end after the `async with` block,
    in both modes; SingleThreadedExecutor likewise around its task loop   -> `openGen` / `closeGen` emission

A changed shape gives a value the theorem `C07_code_shape` (Properties/C07.lean, `by decide`) no longer accepts.
"""
from __future__ import annotations

import ast

from extract import ExtractError, _func, _parse, _src, lean_str


def _for_iter_in(fn, rel, contains):
    for node in ast.walk(fn):
        if isinstance(node, ast.For) and contains in _src(node.iter):
            return node
    return None


def _order_fact(fn, rel, nxname):
    """Name of the networkx function whose result the traversal iterates over (possibly wrapped in list())."""
    for node in ast.walk(fn):
        if isinstance(node, ast.For):
            it = node.iter
            if isinstance(it, ast.Call) and _src(it.func) == "list" and len(it.args) == 1:
                it = it.args[0]
            if isinstance(it, ast.Call) and _src(it.func).startswith("nx.") and [_src(a) for a in it.args] == ["dag"]:
                return _src(it.func)[3:]
            return "other:" + _src(node.iter)[:40]
    raise ExtractError(f"{rel}: {fn.name} has no for loop")


def _calls_in_order(stmts):
    """Flat list of markers for a statement list: 'start', 'drain', 'end', 'task' in source order."""
    out = []
    for s in stmts:
        src = _src(s)
        if isinstance(s, (ast.AsyncWith, ast.With)):
            out.append("drain")
        elif isinstance(s, ast.For) and "handle_operation_start_callbacks" in src and "handle_operation_end_callbacks" not in src:
            out.append("start")
        elif isinstance(s, ast.For) and "handle_operation_end_callbacks" in src and "handle_operation_start_callbacks" not in src:
            out.append("end")
        elif isinstance(s, ast.For) and ("on_task_end" in src or "exec_stage_func" in src):
            out.append("drain")
        elif isinstance(s, ast.Expr) and "handle_operation_start_callbacks" in src:
            out.append("start")
        elif isinstance(s, ast.Expr) and "handle_operation_end_callbacks" in src:
            out.append("end")
    return out


def facts(repo):
    out = {}

    def put(name, typ, val, prov):
        out[name] = (typ, val, prov)

    rel = "cubed/runtime/pipeline.py"
    t = _parse(repo, rel)
    put("visitNodesOrder", "String", lean_str(_order_fact(_func(t, "visit_nodes", rel), rel, "topological_sort")), rel + ":visit_nodes")
    put("visitGensOrder", "String", lean_str(_order_fact(_func(t, "visit_node_generations", rel), rel, "topological_generations")),
        rel + ":visit_node_generations")
    fn = _func(t, "skip_node", rel)
    src = _src(fn)
    shape = "pipeline-none-or-computed" if ("if pipeline is None:\n        return True" in src
                                            and "return nodes[name].get('computed', False)" in src) else "other"
    put("skipNodeShape", "String", lean_str(shape), rel + ":skip_node")
    for name in ("visit_nodes", "visit_node_generations"):
        if "skip_node(name, dag, nodes)" not in _src(_func(t, name, rel)):
            raise ExtractError(f"{rel}: {name} no longer filters with skip_node")

    rel = "cubed/core/plan.py"
    t = _parse(repo, rel)
    fn = _func(t, "_create_lazy_zarr_arrays", rel)
    src = _src(fn)
    to_arrays = "dag.add_edge(name, 'arrays')" in src and "name = 'create-arrays'" in src
    loop = None
    for node in ast.walk(fn):
        if isinstance(node, ast.For) and _src(node.iter) == "all_pipeline_nodes":
            loop = node
    from_arrays = loop is not None and any("dag.add_edge('arrays', n)" == _src(s).strip() for s in loop.body)
    collects = "if 'primitive_op' in d:\n            all_pipeline_nodes.append(n)" in src
    put("createEdges", "String", lean_str("create>arrays>all-pipeline-nodes" if (to_arrays and from_arrays and collects) else
                                          "other:%d%d%d" % (to_arrays, from_arrays, collects)), rel + ":_create_lazy_zarr_arrays")

    rel = "cubed/runtime/asyncio.py"
    t = _parse(repo, rel)
    fn = _func(t, "async_map_dag", rel)
    top_if = next((s for s in fn.body if isinstance(s, ast.If)), None)
    if top_if is None:
        raise ExtractError(f"{rel}: async_map_dag has no mode switch")
    seq_for = next((s for s in top_if.body if isinstance(s, ast.For)), None)
    gen_for = next((s for s in top_if.orelse if isinstance(s, ast.For)), None)
    if seq_for is None or gen_for is None:
        raise ExtractError(f"{rel}: async_map_dag loops not found")
    put("seqModeIterates", "String", lean_str(_src(seq_for.iter)), rel + ":async_map_dag")
    put("genModeIterates", "String", lean_str(_src(gen_for.iter)), rel + ":async_map_dag")
    put("seqModeBracket", "String", lean_str(",".join(_calls_in_order(seq_for.body))), rel + ":async_map_dag")
    put("genModeBracket", "String", lean_str(",".join(_calls_in_order(gen_for.body))), rel + ":async_map_dag")

    rel = "cubed/runtime/executors/local.py"
    t = _parse(repo, rel)
    cls = next((n for n in ast.walk(t) if isinstance(n, ast.ClassDef) and n.name == "SingleThreadedExecutor"), None)
    if cls is None:
        raise ExtractError(f"{rel}: SingleThreadedExecutor not found")
    fn = _func(cls, "execute_dag", rel)
    loop = next((s for s in fn.body if isinstance(s, ast.For)), None)
    if loop is None:
        raise ExtractError(f"{rel}: SingleThreadedExecutor.execute_dag has no loop")
    put("singleThreadedIterates", "String", lean_str(_src(loop.iter)), rel + ":SingleThreadedExecutor.execute_dag")
    put("singleThreadedBracket", "String", lean_str(",".join(_calls_in_order(loop.body))), rel + ":SingleThreadedExecutor.execute_dag")
    return out
