"""The translator: syntactic facts of the repository under test -> Lean (`Model/Generated.lean`).

Run on every check.  Each `fact_*` function looks at one syntactic shape with Python's `ast`; when the
shape it expects is gone it raises ExtractError ("model out of date") rather than guessing.  The Lean
text it emits is imported by the property files, so a changed constant / operator / mode makes the
dependent theorem fail to compile — a broken proof obligation.
"""
from __future__ import annotations

import ast
import os


class ExtractError(Exception):
    pass


def _parse(repo, rel):
    path = os.path.join(repo, rel)
    try:
        return ast.parse(open(path).read(), filename=rel)
    except (OSError, SyntaxError) as e:
        raise ExtractError(f"cannot parse {rel}: {e}")


def _func(tree, name, rel):
    for node in ast.walk(tree):
        if isinstance(node, (ast.FunctionDef, ast.AsyncFunctionDef)) and node.name == name:
            return node
    raise ExtractError(f"{rel}: function {name} not found")


def _module_const(tree, name, rel):
    for node in tree.body:
        if isinstance(node, ast.Assign) and len(node.targets) == 1 and isinstance(node.targets[0], ast.Name) \
                and node.targets[0].id == name and isinstance(node.value, ast.Constant):
            return node.value.value
    raise ExtractError(f"{rel}: module constant {name} not found")


def _default(fn, arg, rel):
    args = fn.args
    pos = args.posonlyargs + args.args
    defaults = args.defaults
    for a, d in zip(pos[len(pos) - len(defaults):], defaults):
        if a.arg == arg and isinstance(d, ast.Constant):
            return d.value
    for a, d in zip(args.kwonlyargs, args.kw_defaults):
        if a.arg == arg and isinstance(d, ast.Constant):
            return d.value
    raise ExtractError(f"{rel}: default of {fn.name}({arg}) not found")


OPS = {ast.Gt: "gt", ast.GtE: "ge", ast.Lt: "lt", ast.LtE: "le", ast.Eq: "eq", ast.NotEq: "ne"}


def _cmp_op(node):
    if isinstance(node, ast.Compare) and len(node.ops) == 1:
        return OPS.get(type(node.ops[0]))
    return None


def _src(node):
    return ast.unparse(node)


def lean_str(s):
    return '"' + s.replace("\\", "\\\\").replace('"', '\\"') + '"'


def facts(repo):
    """Return an ordered dict name -> (lean type, lean value, provenance comment)."""
    out = {}

    def put(name, typ, val, prov):
        out[name] = (typ, val, prov)

    # --- optimization.py -------------------------------------------------------------------------
    rel = "cubed/core/optimization.py"
    t = _parse(repo, rel)
    put("defaultMaxTotalSourceArrays", "Nat", str(_module_const(t, "DEFAULT_MAX_TOTAL_SOURCE_ARRAYS", rel)), rel)
    put("defaultMaxTotalNumInputBlocks", "Nat", str(_module_const(t, "DEFAULT_MAX_TOTAL_NUM_INPUT_BLOCKS", rel)), rel)

    # --- blockwise.py: comparison in can_fuse_multiple_primitive_ops ----------------------------
    rel = "cubed/primitive/blockwise.py"
    t = _parse(repo, rel)
    fn = _func(t, "can_fuse_multiple_primitive_ops", rel)
    op = None
    for node in ast.walk(fn):
        if isinstance(node, ast.If) and _cmp_op(node.test) and "peak_projected" in _src(node.test) \
                and "allowed_mem" in _src(node.test):
            left = _src(node.test.left)
            op = _cmp_op(node.test)
            if left != "peak_projected":
                raise ExtractError(f"{rel}: unexpected left operand {left} in peak/allowed comparison")
            # the branch must refuse fusion
            if not any(isinstance(s, ast.Return) and isinstance(s.value, ast.Constant) and s.value.value is False
                       for s in node.body):
                raise ExtractError(f"{rel}: peak/allowed branch no longer returns False")
    if op is None:
        raise ExtractError(f"{rel}: peak_projected vs allowed_mem comparison not found")
    put("fuseMemRefuseOp", "String", lean_str(op), rel + ":can_fuse_multiple_primitive_ops")
    fn = _func(t, "fuse_multiple", rel)
    src = _src(fn)
    put("fusedMemIsMax", "Bool", "true" if "projected_mem = max(primitive_op.projected_mem, peak_projected_mem(" in src.replace("\n", "") else "false",
        rel + ":fuse_multiple")
    fn = _func(t, "fuse", rel)
    put("fusedPairMemIsMax", "Bool", "true" if "projected_mem = max(primitive_op1.projected_mem, primitive_op2.projected_mem)" in _src(fn) else "false",
        rel + ":fuse")

    # --- plan.py: admission comparison, create mode, already_computed ---------------------------
    rel = "cubed/core/plan.py"
    t = _parse(repo, rel)
    fn = _func(t, "_find_ops_exceeding_memory", rel)
    op = None
    for node in ast.walk(fn):
        if isinstance(node, ast.If) and _cmp_op(node.test):
            s = _src(node.test)
            if "projected_mem" in s and "allowed_mem" in s:
                if not _src(node.test.left).endswith("projected_mem"):
                    raise ExtractError(f"{rel}: unexpected operand order in {s}")
                op = _cmp_op(node.test)
    if op is None:
        raise ExtractError(f"{rel}: projected_mem vs allowed_mem comparison not found")
    put("admitRefuseOp", "String", lean_str(op), rel + ":_find_ops_exceeding_memory")

    # FinalizedPlan.execute: first statement is self.validate(); validate raises iff _ops_exceeding_memory
    fn = _func(t, "execute", rel)
    body = [st for st in fn.body if not (isinstance(st, ast.Expr) and isinstance(st.value, ast.Constant))]
    first = _src(body[0]) if body else ""
    put("executeValidatesFirst", "Bool", "true" if first == "self.validate()" else "false", rel + ":FinalizedPlan.execute")
    fn = _func(t, "validate", rel)
    body = [st for st in fn.body if not (isinstance(st, ast.Expr) and isinstance(st.value, ast.Constant))]
    okv = (len(body) == 1 and isinstance(body[0], ast.If) and _src(body[0].test) == "self._ops_exceeding_memory"
           and any(isinstance(x, ast.Raise) for x in body[0].body) and not body[0].orelse)
    put("validateRaisesIffExceeding", "Bool", "true" if okv else "false", rel + ":FinalizedPlan.validate")
    fn = _func(t, "_finalize", rel)
    put("finalizeRecordsExceeding", "Bool", "true" if "ops_exceeding_memory = self._find_ops_exceeding_memory(dag)" in _src(fn)
        and "ops_exceeding_memory)" in _src(fn) else "false", rel + ":Plan._finalize")

    fn = _func(t, "already_computed", rel)
    src = _src(fn)
    put("alreadyComputedTest", "String", lean_str("ndim==0|nchunks_initialized!=nchunks" if
        "target.ndim == 0 or target.nchunks_initialized != target.nchunks" in src else "other:" + str(hash(src) % 100000)),
        rel + ":already_computed")

    # --- storage/zarr.py : LazyZarrArray.create mode -------------------------------------------
    rel = "cubed/storage/zarr.py"
    t = _parse(repo, rel)
    mode = None
    for node in ast.walk(t):
        if isinstance(node, ast.FunctionDef) and node.name == "create":
            try:
                mode = _default(node, "mode", rel)
            except ExtractError:
                pass
    if mode is None:
        raise ExtractError(f"{rel}: LazyZarrArray.create(mode=…) default not found")
    put("lazyCreateDefaultMode", "String", lean_str(mode), rel + ":LazyZarrArray.create")

    # --- rechunk constants ----------------------------------------------------------------------
    rel = "cubed/vendor/rechunker/algorithm.py"
    t = _parse(repo, rel)
    put("maxStages", "Nat", str(_module_const(t, "MAX_STAGES", rel)), rel)

    # --- backup thresholds ------------------------------------------------------------------------
    rel = "cubed/runtime/backup.py"
    t = _parse(repo, rel)
    fn = _func(t, "should_launch_backup", rel)
    put("backupMinTasks", "Nat", str(_default(fn, "min_tasks", rel)), rel)

    return out


HEADER = """/-
  GENERATED by harness/%s.py from the repository under test — do not edit.
  Regenerated on every check run; theorems that depend on these facts are re-checked by `lake build`.
-/
namespace Cubed.%s

"""


def generate(repo, mod=None, name="Generated"):
    """Lean text for the facts of `mod` (this module by default; plug-ins are harness/extract_cNN.py
    exposing `facts(repo) -> {name: (lean type, lean value, provenance)}` and may use the helpers here)."""
    import sys
    mod = mod or sys.modules[__name__]
    fs = mod.facts(repo)
    lines = [HEADER % (mod.__name__, name)]
    for fname, (typ, val, prov) in fs.items():
        lines.append(f"/-- from {prov} -/\ndef {fname} : {typ} := {val}\n")
    lines.append(f"end Cubed.{name}\n")
    return "\n".join(lines)


if __name__ == "__main__":
    import sys
    print(generate(sys.argv[1] if len(sys.argv) > 1 else "/repo"))
