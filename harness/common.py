"""Shared plumbing for the per-property checks: repository selection, Lean build / audit / driver,
known findings, replay files, evidence, verdict.

Every check is run as  ./check Cnn [--tier quick|thorough] [--replay FILE]
Environment: VERIF_SEED (int), VERIF_TIER, VERIF_REPO (default /repo).
"""
from __future__ import annotations

import collections
import fcntl
import hashlib
import json
import os
import random
import re
import shutil
import subprocess
import sys
import time
import traceback

VERIF = os.path.dirname(os.path.dirname(os.path.abspath(__file__)))
REPO = os.path.abspath(os.environ.get("VERIF_REPO", "/repo"))
LEAN_SRC = os.path.join(VERIF, "lean", "CubedModel")
STD_AXIOMS = {"propext", "Classical.choice", "Quot.sound"}
FORBIDDEN = re.compile(r"\b(sorry|admit|native_decide|bv_decide|implemented_by)\b|^\s*axiom\s|unsafe\s|maxHeartbeats\s+0")

BASE_TRUSTED = [
    "Lean 4.33.0 kernel; axioms allowed: propext, Classical.choice, Quot.sound (audited by #print axioms on every property theorem each run)",
    "no sorry/admit/native_decide/bv_decide/own axioms (grep audited each run)",
    "the Python correspondence harness and the AST extractor (harness/*.py)",
]


def use_repo():
    """Make `import cubed` resolve to the tree under test."""
    if REPO not in sys.path:
        sys.path.insert(0, REPO)
    os.environ["PYTHONPATH"] = REPO + os.pathsep + os.path.join(VERIF, "harness") + os.pathsep + os.environ.get("PYTHONPATH", "")
    # keep zarr / cubed quiet and deterministic
    os.environ.setdefault("CUBED_VERIF", "1")


# ---------------------------------------------------------------------------------------------
# Lean side
# ---------------------------------------------------------------------------------------------

class Lean:
    """Build, audit and drive the Lean project.  When the tree under test is not /repo the project
    is copied to a private work directory so that Generated.lean of the committed project is never
    overwritten by a scratch tree."""

    def __init__(self):
        self.dir = LEAN_SRC
        self.private = False
        if REPO != "/repo":
            work = os.path.join(VERIF, ".work", f"lean-{os.getpid()}")
            os.makedirs(os.path.dirname(work), exist_ok=True)
            shutil.copytree(LEAN_SRC, work, symlinks=True, ignore=shutil.ignore_patterns(".audit_*", "verif.lock"), ignore_dangling_symlinks=True)
            self.dir = work
            self.private = True
        self.build_log = ""

    def cleanup(self):
        if self.private:
            shutil.rmtree(self.dir, ignore_errors=True)

    def _lock(self):
        os.makedirs(os.path.join(self.dir, ".lake"), exist_ok=True)
        f = open(os.path.join(self.dir, ".lake", "verif.lock"), "w")
        fcntl.flock(f, fcntl.LOCK_EX)
        return f

    def regenerate(self, prop=None):
        """Run the translator: AST facts of the repo -> Model/Generated.lean, and the property's own
        plug-in extractor harness/extract_<prop>.py -> Model/Generated<Prop>.lean when it exists.
        Returns (ok, message)."""
        import extract

        jobs = [(extract, "Generated")]
        if prop and os.path.exists(os.path.join(VERIF, "harness", f"extract_{prop.lower()}.py")):
            import importlib
            jobs.append((importlib.import_module(f"extract_{prop.lower()}"), f"Generated{prop}"))
        msgs = []
        for mod, name in jobs:
            try:
                text = extract.generate(REPO, mod, name)
            except extract.ExtractError as e:
                return False, f"extractor ({name}): model out of date: {e}"
            path = os.path.join(self.dir, "CubedModel", "Model", f"{name}.lean")
            old = open(path).read() if os.path.exists(path) else None
            if old != text:
                with open(path, "w") as f:
                    f.write(text)
            msgs.append(f"{name}: " + ("regenerated" if old != text else "unchanged"))
        return True, "; ".join(msgs)

    def driver_imports(self, driver):
        path = os.path.join(self.dir, "drivers", f"{driver}.lean")
        if not driver or not os.path.exists(path):
            return []
        return re.findall(r"^import\s+(CubedModel\.\S+)", open(path).read(), re.M)

    def build(self, prop=None, driver=None, timeout=1500):
        """lake build (only the modules this property needs) under a lock.  Returns (ok, log)."""
        lock = self._lock()
        try:
            ok_gen, msg = self.regenerate(prop)
            if not ok_gen:
                self.build_log = msg
                return False, msg
            targets = []
            if prop:
                targets = [f"CubedModel.Properties.{prop}"] + self.driver_imports(driver)
            cmd = ["lake", "build"] + targets
            p = subprocess.run(cmd, cwd=self.dir, capture_output=True, text=True, timeout=timeout)
            self.build_log = p.stdout + p.stderr
            return p.returncode == 0, self.build_log
        finally:
            lock.close()

    def theorems(self, prop):
        path = os.path.join(self.dir, "CubedModel", "Properties", f"{prop}.lean")
        src = open(path).read()
        ns = re.search(r"^namespace\s+(\S+)", src, re.M)
        ns = ns.group(1) if ns else ""
        names = re.findall(r"^theorem\s+(\S+)", src, re.M)
        return [(f"{ns}.{n}" if ns else n) for n in names], src

    def audit(self, prop):
        """#print axioms for every theorem of Properties/<prop>.lean + forbidden-token grep.
        Returns dict(obligations, discharged, bad=[...], theorems=[...])."""
        names, _ = self.theorems(prop)
        tmp = os.path.join(self.dir, f".audit_{prop}_{os.getpid()}.lean")
        with open(tmp, "w") as f:
            f.write(f"import CubedModel.Properties.{prop}\n")
            for n in names:
                f.write(f"#print axioms {n}\n")
        try:
            p = subprocess.run(["lake", "env", "lean", tmp], cwd=self.dir, capture_output=True, text=True, timeout=600)
        finally:
            os.unlink(tmp)
        out = p.stdout + p.stderr
        res = {}
        for m in re.finditer(r"'([^']+)' depends on axioms: \[([^\]]*)\]", out):
            res[m.group(1)] = {a.strip() for a in m.group(2).replace("\n", " ").split(",") if a.strip()}
        for m in re.finditer(r"'([^']+)' does not depend on any axioms", out):
            res[m.group(1)] = set()
        bad = []
        discharged = 0
        for n in names:
            if n not in res:
                bad.append(f"{n}: not checked ({out.strip()[:200]})")
            elif not res[n] <= STD_AXIOMS:
                bad.append(f"{n}: non-standard axioms {sorted(res[n] - STD_AXIOMS)}")
            else:
                discharged += 1
        # forbidden tokens in the import closure of the property file (comments stripped)
        for path in self.closure(f"CubedModel.Properties.{prop}"):
            fn = os.path.basename(path)
            txt = open(path).read()
            txt = re.sub(r"/-.*?-/", "", txt, flags=re.S)
            for ln in txt.splitlines():
                ln = ln.split("--")[0]
                if FORBIDDEN.search(ln):
                    bad.append(f"{fn}: forbidden token in: {ln.strip()[:80]}")
        return {"obligations": len(names), "discharged": discharged, "bad": bad, "theorems": names}

    def closure(self, module, seen=None):
        """Source files of `module` and of every CubedModel module it imports (transitively)."""
        seen = seen if seen is not None else {}
        if module in seen:
            return []
        path = os.path.join(self.dir, *module.split(".")) + ".lean"
        if not os.path.exists(path):
            return []
        seen[module] = path
        for imp in re.findall(r"^import\s+(CubedModel\.\S+)", open(path).read(), re.M):
            self.closure(imp, seen)
        return list(seen.values())

    def leanchecker(self, prop):
        p = subprocess.run(["lake", "env", "leanchecker", f"CubedModel.Properties.{prop}"], cwd=self.dir,
                           capture_output=True, text=True, timeout=1800)
        return p.returncode == 0, (p.stdout + p.stderr)[-500:]

    def drive(self, driver, lines, timeout=1200):
        """Run drivers/<driver>.lean on the request lines; one answer line per request."""
        if not lines:
            return []
        for ln in lines:
            assert "\n" not in ln
        p = subprocess.run(["lake", "env", "lean", "--run", os.path.join("drivers", f"{driver}.lean")],
                           cwd=self.dir, input="\n".join(lines) + "\n", capture_output=True, text=True, timeout=timeout)
        out = p.stdout.split("\n")
        if out and out[-1] == "":
            out.pop()
        if p.returncode != 0 or len(out) != len(lines):
            raise DriverError(f"driver {driver}: rc={p.returncode} answers={len(out)}/{len(lines)} stderr={p.stderr[-400:]}")
        return out


class DriverError(Exception):
    pass


# ---------------------------------------------------------------------------------------------
# findings / replay / evidence
# ---------------------------------------------------------------------------------------------

def load_findings():
    path = os.path.join(VERIF, "KNOWN_FINDINGS.txt")
    out = []
    if os.path.exists(path):
        for ln in open(path):
            ln = ln.strip()
            m = re.match(r"finding:\s+property=(\S+)\s+key=(\S+)\s+(.*)", ln)
            if m:
                out.append({"property": m.group(1), "key": m.group(2), "text": m.group(3)})
    return out


class Ctx:
    def __init__(self, prop, tier, seed):
        self.prop = prop
        self.tier = tier
        self.seed = seed
        self.rng = random.Random(seed)
        self.t0 = time.time()
        self.evaluations = 0
        self.distinct = set()
        self.samples = []
        self.dist = collections.Counter()
        self.disagreements = []   # correspondence relations that no longer check
        self.failures = []        # oracle failures on the implementation: dict(case, what, key)
        self.broken = []          # proof obligations that no longer check
        self.notes = []
        self.assumptions = []
        self.trusted = list(BASE_TRUSTED)
        self.audit = {"obligations": 0, "discharged": 0, "bad": [], "theorems": []}
        self.rule = ""
        self.extra = {}
        self.findings = [f for f in load_findings() if f["property"] == prop]
        self.exhaustive = False
        self.traces = 0
        self.lean = None

    # -- bookkeeping ---------------------------------------------------------------------------
    def count(self, case, nontrivial=True, kind=None):
        """Register one evaluated case.  `case` must be JSON-serialisable (it is hashed for the
        distinct count and may be written out as a sample)."""
        self.evaluations += 1
        if kind:
            self.dist[kind] += 1
        if nontrivial:
            h = hashlib.sha1(json.dumps(case, sort_keys=True, default=str).encode()).hexdigest()
            if h not in self.distinct:
                self.distinct.add(h)
                if len(self.samples) < 6 or (len(self.samples) < 12 and self.rng.random() < 0.02):
                    self.samples.append(case)

    def elapsed(self):
        return time.time() - self.t0

    def budget(self, quick, thorough):
        return quick if self.tier == "quick" else thorough

    def disagree(self, relation, case, model, impl):
        self.disagreements.append({"relation": relation, "case": case, "model": model, "impl": impl})

    def fail(self, what, case, key=None):
        """An oracle failure on the real implementation.  `key` is the classifier result used to
        match KNOWN_FINDINGS (None = unclassified => violation)."""
        self.failures.append({"what": what, "case": case, "key": key})

    def known(self, key):
        return any(f["key"] == key for f in self.findings)


def write_replay(ctx, kind, body):
    d = os.path.join(VERIF, "replays")
    os.makedirs(d, exist_ok=True)
    path = os.path.join(d, f"{ctx.prop}-{ctx.seed}-{kind}.json")
    body = dict(body)
    body.update({"property": ctx.prop, "kind": kind, "seed": ctx.seed, "tier": ctx.tier, "repo": REPO,
                 "rerun": f"VERIF_SEED={ctx.seed} ./check {ctx.prop} --tier {ctx.tier}"})
    with open(path, "w") as f:
        json.dump(body, f, indent=1, default=str)
    return os.path.relpath(path, VERIF)


def write_evidence(ctx, violations):
    # evidence committed under /verif/evidence must come from runs against /repo itself; runs against a
    # scratch tree (VERIF_REPO) write theirs under .work/
    d = os.path.join(VERIF, "evidence") if REPO == "/repo" else os.path.join(VERIF, ".work", "evidence-scratch")
    os.makedirs(d, exist_ok=True)
    cov = {
        "obligations": ctx.audit["obligations"],
        "discharged": ctx.audit["discharged"],
        "checker_cmd": f"cd lean/CubedModel && lake build CubedModel.Properties.{ctx.prop} && lake env lean <#print axioms for each theorem>"
                       + (" && lake env leanchecker CubedModel.Properties.%s" % ctx.prop if ctx.tier == "thorough" else ""),
        "trusted_base": ctx.trusted,
        "theorems": ctx.audit["theorems"],
        "audit_problems": ctx.audit["bad"],
        "evaluations": ctx.evaluations,
        "distinct_nontrivial": len(ctx.distinct),
        "rule": ctx.rule,
        "samples": ctx.samples[:12] if ctx.samples else [{"theorems": ctx.audit["theorems"]}],
        "input_distribution": dict(ctx.dist),
        "correspondence_disagreements": len(ctx.disagreements),
        "oracle_failures": len(ctx.failures),
        "traces_validated_against_impl": ctx.traces,
        "exhaustive": ctx.exhaustive,
        "notes": ctx.notes,
    }
    cov.update(ctx.extra)
    ev = {
        "property_id": ctx.prop,
        "tier": ctx.tier,
        "seed": ctx.seed,
        "level": "proof",
        "coverage": cov,
        "assumptions": ctx.assumptions,
        "wall_s": round(ctx.elapsed(), 2),
        "violations": violations,
    }
    with open(os.path.join(d, f"{ctx.prop}.json"), "w") as f:
        json.dump(ev, f, indent=1, default=str)


# ---------------------------------------------------------------------------------------------
# the generic run: build, audit, correspondence, oracle, verdict
# ---------------------------------------------------------------------------------------------

def run_check(prop, mod, tier, seed, replay=None):
    """`mod` provides:  DRIVER (name or None), corr(ctx), oracle(ctx), search(ctx) [optional],
    replay(ctx, body) [optional], RULE, ASSUMPTIONS, TRUSTED."""
    use_repo()
    ctx = Ctx(prop, tier, seed)
    ctx.rule = getattr(mod, "RULE", "")
    ctx.assumptions = list(getattr(mod, "ASSUMPTIONS", []))
    ctx.trusted += list(getattr(mod, "TRUSTED", []))
    lean = Lean()
    ctx.lean = lean
    violations = 0
    try:
        if replay:
            body = json.load(open(replay))
            if hasattr(mod, "replay"):
                mod.replay(ctx, body)
            else:
                print("this property has no replay hook; re-run with the seed in the replay file")
        # 1-3 build + audit
        ok, log = lean.build(prop, getattr(mod, "DRIVER", None))
        if not ok:
            names = re.findall(r"error: (\S+\.lean:\d+:\d+)[: ]*(.*)", log)
            ctx.broken.append({"what": "lake build failed", "where": names[:5], "log": log[-1500:]})
        else:
            ctx.audit = lean.audit(prop)
            for b in ctx.audit["bad"]:
                ctx.broken.append({"what": "audit", "where": b})
            if tier == "thorough":
                okc, msg = lean.leanchecker(prop)
                ctx.extra["leanchecker"] = "ok" if okc else msg
                if not okc:
                    ctx.broken.append({"what": "leanchecker", "where": msg})
        # 4 correspondence + direct oracle
        if ok and not replay:
            try:
                mod.corr(ctx)
            except DriverError as e:
                ctx.broken.append({"what": "driver", "where": str(e)})
        if not replay:
            mod.oracle(ctx)
        # 5 verdict
        unlisted = [f for f in ctx.failures if not (f["key"] and ctx.known(f["key"]))]
        listed = [f for f in ctx.failures if f["key"] and ctx.known(f["key"])]
        if (ctx.broken or ctx.disagreements) and not unlisted and hasattr(mod, "search") and not replay:
            # a proof obligation / correspondence no longer checks: look for a concrete failing input
            mod.search(ctx)
            unlisted = [f for f in ctx.failures if not (f["key"] and ctx.known(f["key"]))]
            listed = [f for f in ctx.failures if f["key"] and ctx.known(f["key"])]
        seen = set()
        for f in listed:
            if f["key"] not in seen:
                seen.add(f["key"])
                txt = next(k["text"] for k in ctx.findings if k["key"] == f["key"])
                print(f"KNOWN-FINDING: property={prop} key={f['key']} {txt}")
        if unlisted:
            f0 = unlisted[0]
            path = write_replay(ctx, "failing-input", {"what": f0["what"], "case": f0["case"], "classified": f0["key"],
                                                      "others": [u["what"] for u in unlisted[1:6]],
                                                      "broken_obligations": ctx.broken, "disagreements": ctx.disagreements[:3]})
            print(f"VIOLATION property={prop} replay={path}")
            violations = len(unlisted)
        elif ctx.broken or ctx.disagreements:
            what = ctx.broken[0] if ctx.broken else ctx.disagreements[0]
            path = write_replay(ctx, "broken-obligation", {"no_longer_checks": what, "all_broken": ctx.broken[:5],
                                                          "disagreements": ctx.disagreements[:5]})
            print(f"VIOLATION property={prop} replay={path} no-failing-input-found")
            violations = 1
    except subprocess.TimeoutExpired as e:
        print(f"TIMEOUT {e}")
        lean.cleanup()
        write_evidence(ctx, 0)
        return 2
    except Exception:
        traceback.print_exc()
        lean.cleanup()
        ctx.notes.append("harness error: " + traceback.format_exc()[-800:])
        write_evidence(ctx, 0)
        return 3
    lean.cleanup()
    write_evidence(ctx, violations)
    print(f"{prop} tier={tier} seed={seed} obligations={ctx.audit['obligations']} discharged={ctx.audit['discharged']} "
          f"evaluations={ctx.evaluations} distinct={len(ctx.distinct)} disagreements={len(ctx.disagreements)} "
          f"failures={len(ctx.failures)} violations={violations} wall={ctx.elapsed():.1f}s")
    return 1 if violations else 0
