"""Recording of the float-dependent steps of the real rechunk planners (used by props/c14.py).

Nothing in /repo is edited: the planners are observed by (1) passing `max_mem` as an `int` subclass whose
true division records the float quotient the code really computed, and (2) wrapping, inside this process
only, the module globals `calculate_stage_chunks` (algorithm.py), `_multspace` / `floor` /
`calculate_regular_stage_chunks` (rechunk.py) and
the two planner names looked up by `ops._rechunk_plan`.
"""
from __future__ import annotations

import contextlib
import warnings


class Rec:
    def __init__(self):
        self.div = {}      # b -> (gt1, ge1, int(f))    for max_mem / b
        self.num = None    # the numerator (max_mem) of all recorded divisions
        self.geo = {}      # stage_count -> (read, write, [tuples])
        self.ms = {}       # (start, stop, num) -> [quotients]
        self.reg = {}      # stage_count -> (read, write, [tuples]) of calculate_regular_stage_chunks
        self.cur = None
        self.planner_calls = []   # (name, kwargs) for calls made through ops._rechunk_plan
        self.mixed_numerators = False


REC = None


class TracedInt(int):
    """max_mem: behaves like int; `max_mem / chunk_mem` records what the float division returned."""

    def __truediv__(self, other):
        f = int.__truediv__(self, other)
        if REC is not None:
            if REC.num is not None and REC.num != int(self):
                REC.mixed_numerators = True
            REC.num = int(self)
            REC.div[int(other)] = (bool(f > 1), bool(f >= 1), int(f))
        return f


@contextlib.contextmanager
def recording():
    global REC
    import importlib
    O = importlib.import_module("cubed.core.ops")
    R = importlib.import_module("cubed.core.rechunk")   # `cubed.core.rechunk` the attribute is the function
    A = importlib.import_module("cubed.vendor.rechunker.algorithm")

    rec = Rec()
    saved = (A.calculate_stage_chunks, R._multspace, R.floor, O.multistage_rechunking_plan, O.multistage_regular_rechunking_plan,
             R.calculate_regular_stage_chunks)
    orig_csc, orig_ms, orig_floor, orig_irr, orig_reg, orig_crs = saved

    def crs(read_chunks, write_chunks, stage_count=1):
        out = orig_crs(read_chunks, write_chunks, stage_count)
        # one planner call never repeats a stage_count, so this key is unambiguous
        rec.reg[int(stage_count)] = (tuple(read_chunks), tuple(write_chunks), [tuple(int(c) for c in s) for s in out])
        return out

    def csc(read_chunks, write_chunks, stage_count=1):
        out = orig_csc(read_chunks, write_chunks, stage_count)
        rec.geo[int(stage_count)] = (tuple(read_chunks), tuple(write_chunks), [tuple(int(c) for c in s) for s in out])
        return out

    def ms(start, stop, num):
        rec.cur = rec.ms[(int(start), int(stop), int(num))] = []
        try:
            yield from orig_ms(start, stop, num)
        finally:
            rec.cur = None

    def fl(x):
        r = orig_floor(x)
        if rec.cur is not None:
            rec.cur.append(int(r))
        return r

    def wrap_planner(name, f):
        def g(**kw):
            kw = dict(kw)
            rec.planner_calls.append((name, {k: (tuple(v) if isinstance(v, (tuple, list)) else int(v)) for k, v in kw.items()}))
            kw["max_mem"] = TracedInt(kw["max_mem"])
            return f(**kw)
        return g

    A.calculate_stage_chunks = csc
    R._multspace = ms
    R.floor = fl
    R.calculate_regular_stage_chunks = crs
    O.multistage_rechunking_plan = wrap_planner("irr", orig_irr)
    O.multistage_regular_rechunking_plan = wrap_planner("reg", orig_reg)
    REC = rec
    try:
        with warnings.catch_warnings():
            warnings.simplefilter("ignore")
            yield rec
    finally:
        REC = None
        (A.calculate_stage_chunks, R._multspace, R.floor, O.multistage_rechunking_plan, O.multistage_regular_rechunking_plan,
         R.calculate_regular_stage_chunks) = saved


# canonical names of the outcomes (identical to the strings in Model/Rechunk.lean)
def canon_exc(e):
    msg = str(e)
    if isinstance(e, ZeroDivisionError):
        return "ZeroDivisionError"
    if isinstance(e, ValueError):
        for pre, name in (("Invalid chunk_limits", "Invalid chunk_limits"),
                          ("chunk_mem", "chunk_mem > max_mem"),
                          ("source_chunks", "source_chunks must have length ndim"),
                          ("target_chunks", "target_chunks must have length ndim"),
                          ("Source chunk memory", "Source chunk memory exceeds max_mem"),
                          ("Target chunk memory", "Target chunk memory exceeds max_mem"),
                          ("max_mem (", "max_mem cannot be smaller than min_mem")):
            if msg.startswith(pre):
                return name
    if isinstance(e, AssertionError):
        if msg.startswith("Failed to find a feasible"):
            return "AssertionError Failed to find a feasible multi-staging rechunking scheme"
        if msg == "":
            return "AssertionError headroom"
    if isinstance(e, NotImplementedError):
        if msg.startswith("start must"):
            return "NotImplementedError start must be 1 or more"
        if msg.startswith("stop must"):
            return "NotImplementedError stop must be 1 or more"
    return "other:%s:%s" % (type(e).__name__, msg[:60])


EXPLICIT_ERRORS = {
    "Invalid chunk_limits", "chunk_mem > max_mem", "source_chunks must have length ndim",
    "target_chunks must have length ndim", "Source chunk memory exceeds max_mem",
    "Target chunk memory exceeds max_mem", "max_mem cannot be smaller than min_mem",
}


def nats(t):
    return ",".join(str(int(v)) for v in t)


def div_table(rec):
    return ";".join("%d:%d:%d:%d" % (b, g, e, h) for b, (g, e, h) in sorted(rec.div.items())) or "-"


def geo_table(rec):
    return ";".join("%d=%s" % (k, "/".join(nats(s) for s in v[2])) for k, v in sorted(rec.geo.items())) or "-"


def ms_table(rec):
    return ";".join("%d,%d,%d=%s" % (k[0], k[1], k[2], nats(v)) for k, v in sorted(rec.ms.items())) or "-"
