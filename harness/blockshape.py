"""blockshape — shape-recording executor and call tracer used by the C12 check.

Nothing here touches the tree under test: observation goes through a `DagExecutor` subclass and through
monkey-patching *inside the harness process only*.

* `make_executor_class()` -> `BlockShapeExecutor`: runs every op of the plan sequentially (`visit_nodes`), each task
  through the tree's own stage function (`pipeline.function`, i.e. `apply_blockwise`) — but with the op's block
  function wrapped (`dataclasses.replace(config, function=wrapped)` on a copy of the `BlockwiseSpec`), so that the
  shape of every block the function returns is recorded *before* zarr gets to see it.  After the task, each recorded
  block shape is compared with the extent of the region `key_to_slices(out_coords, write_proxy.array,
  write_proxy.chunks)` the stage function wrote it into (zarr silently broadcasts a compatible smaller block, which is
  what hides violations).  Dict-valued (structured) results are compared field by field; every output of multi-output
  ops is compared.
      executor.records    : list of dict(op, array, coords, block, region[, field])
      executor.mismatches : the records with block != region
      executor.by_array   : array name -> {coords tuple -> block shape}   (first output field for structured results)
      executor.errors     : (op, coords, repr(exception)) of tasks that raised (the exception is re-raised)

* `CallTracer`: context manager that replaces the shape-calculus functions of cubed (`blockwise`, `_map_blocks`,
  `partial_reduce`, `squeeze`, `expand_dims`, `permute_dims`, `concat`, `stack`, `unstack`, `repeat`, `_rechunk`,
  `merge_chunks`, `map_selection`, `index`, `BlockView.__getitem__`, `_qr_first_step`, ... ) in every loaded `cubed.*` module by recording
  wrappers.  A record holds the positional / keyword arguments (arrays replaced by `ArrayMeta` snapshots: name, shape,
  chunks, dtype) and the result (likewise).  Used to present the *real* parameters of every op of a real plan to the
  Lean model.
"""
from __future__ import annotations

import dataclasses
import inspect
import sys


def np_shape(x):
    import numpy as np
    return tuple(int(s) for s in np.shape(x))


def _shapes_of(result):
    """block -> shape, dict block -> {field: shape}"""
    if isinstance(result, dict):
        return {k: np_shape(v) for k, v in result.items()}
    return np_shape(result)


def make_executor_class():
    from cubed.primitive.blockwise import BlockwiseSpec, key_to_slices
    from cubed.runtime.pipeline import visit_nodes
    from cubed.runtime.types import DagExecutor, TaskEndEvent
    from cubed.runtime.utils import handle_operation_end_callbacks, handle_operation_start_callbacks

    class BlockShapeExecutor(DagExecutor):
        def __init__(self, stop_on_mismatch=False, **kwargs):
            super().__init__(**kwargs)
            self.records = []
            self.mismatches = []
            self.by_array = {}
            self.errors = []
            self.region_errors = []
            self.ops = []
            self.stop_on_mismatch = stop_on_mismatch

        @property
        def name(self):
            return "blockshape"

        def _run_task(self, opname, pipeline, m):
            config = pipeline.config
            if not isinstance(config, BlockwiseSpec):
                return pipeline.function(m, config=config)
            seen = []
            orig = config.function
            if inspect.isgeneratorfunction(orig):
                def wrapped(*a, **k):
                    for r in orig(*a, **k):
                        seen.append(_shapes_of(r))
                        yield r
            else:
                def wrapped(*a, **k):
                    r = orig(*a, **k)
                    if isinstance(r, tuple):
                        seen.extend(_shapes_of(x) for x in r)
                    else:
                        seen.append(_shapes_of(r))
                    return r
            cfg = dataclasses.replace(config, function=wrapped)
            try:
                result = pipeline.function(m, config=cfg)
            except Exception as e:  # noqa: BLE001
                self.errors.append((opname, tuple(m), repr(e)[:300]))
                # blocks the function did return before the failure are still compared (zarr refusing a block
                # that cannot be broadcast into its region is the loud form of a block-shape violation)
                self._compare(opname, config, m, seen, key_to_slices, complete=False)
                raise
            self._compare(opname, config, m, seen, key_to_slices)
            return result

        def _compare(self, opname, config, m, seen, key_to_slices, complete=True):
            coords = tuple(int(c) for c in m)
            for shp, (aname, wp) in zip(seen, config.writes_map.items()):
                try:
                    sl = key_to_slices(coords, wp.array, wp.chunks)
                    region = tuple(int(s.stop - s.start) for s in sl)
                except Exception as e:  # noqa: BLE001
                    # the stage function computes the same region and fails the same way: the task raises (loudly),
                    # nothing is written -- not a block/region mismatch
                    self.region_errors.append((opname, aname, coords, repr(e)[:80]))
                    continue
                fields = shp.items() if isinstance(shp, dict) else [(None, shp)]
                first = True
                for field, bs in fields:
                    rec = {"op": opname, "array": aname, "coords": coords, "block": tuple(bs), "region": region}
                    if field is not None:
                        rec["field"] = field
                    self.records.append(rec)
                    if first:
                        self.by_array.setdefault(aname, {})[coords] = tuple(bs)
                        first = False
                    if tuple(bs) != region:
                        self.mismatches.append(rec)
            if complete and len(seen) != len(config.writes_map):
                self.mismatches.append({"op": opname, "array": ",".join(config.writes_map), "coords": coords,
                                        "block": "function returned %d blocks" % len(seen),
                                        "region": "%d outputs" % len(config.writes_map)})

        def execute_dag(self, dag, callbacks=None, spec=None, compute_id=None, **kwargs):
            for opname, node in visit_nodes(dag):
                handle_operation_start_callbacks(callbacks, opname)
                pipeline = node["pipeline"]
                n = 0
                for m in pipeline.mappable:
                    result = self._run_task(opname, pipeline, m)
                    n += 1
                    if callbacks is not None:
                        event = TaskEndEvent(name=opname, result=result)
                        for cb in callbacks:
                            cb.on_task_end(event)
                self.ops.append((opname, n))
                handle_operation_end_callbacks(callbacks, opname)

    return BlockShapeExecutor


# ---------------------------------------------------------------------------------------------------
# call tracing
# ---------------------------------------------------------------------------------------------------

class ArrayMeta:
    __slots__ = ("name", "shape", "chunks", "dtype", "numblocks", "chunksize")

    def __init__(self, a):
        self.name = a.name
        self.shape = tuple(int(s) for s in a.shape)
        self.chunks = tuple(tuple(int(c) for c in cs) for cs in a.chunks)
        self.dtype = a.dtype
        self.numblocks = tuple(len(c) for c in self.chunks)
        self.chunksize = tuple(max(c) for c in self.chunks)

    def __repr__(self):
        return "ArrayMeta(%s, shape=%s, chunks=%s)" % (self.name, self.shape, self.chunks)


def _snap(v):
    from cubed.core.array import CoreArray
    if isinstance(v, CoreArray):
        return ArrayMeta(v)
    if isinstance(v, tuple) and hasattr(v, "_fields"):   # namedtuple (QRResult)
        return tuple(_snap(x) for x in v)
    if isinstance(v, (list, tuple)):
        return type(v)(_snap(x) for x in v)
    if isinstance(v, dict):
        return {k: _snap(x) for k, x in v.items()}
    return v


# (module, attribute) of the functions whose calls are recorded
TRACED = [
    ("cubed.core.ops", "blockwise"),
    ("cubed.core.ops", "_map_blocks"),
    ("cubed.core.ops", "partial_reduce"),
    ("cubed.core.ops", "squeeze"),
    ("cubed.core.ops", "_rechunk"),
    ("cubed.core.ops", "merge_chunks"),
    ("cubed.core.ops", "map_selection"),
    ("cubed.core.ops", "elemwise"),
    ("cubed.core.ops", "reduction"),
    ("cubed.core.ops", "arg_reduction"),
    ("cubed.core.indexing", "index"),
    ("cubed.array_api.manipulation_functions", "expand_dims"),
    ("cubed.array_api.manipulation_functions", "permute_dims"),
    ("cubed.array_api.manipulation_functions", "concat"),
    ("cubed.array_api.manipulation_functions", "stack"),
    ("cubed.array_api.manipulation_functions", "unstack"),
    ("cubed.array_api.manipulation_functions", "repeat"),
    ("cubed.array_api.manipulation_functions", "flip"),
    ("cubed.array_api.manipulation_functions", "broadcast_to"),
    ("cubed.array_api.manipulation_functions", "reshape_chunks"),
    ("cubed.array_api.linalg", "_qr_first_step"),
    ("cubed.array_api.linalg", "_qr_second_step"),
    ("cubed.array_api.linalg", "_qr_third_step"),
]


class CallTracer:
    """with CallTracer() as t: ...build cubed expressions... ; t.calls = [dict(fn, args, kwargs, result, depth)]"""

    def __init__(self):
        self.calls = []        # completed calls, in order of *return*
        self._saved = []
        self._stack = []       # ids of the traced calls in progress
        self._next = 0

    def _wrap(self, fname, orig):
        tracer = self

        def traced(*args, **kwargs):
            sargs, skw = _snap(args), _snap(kwargs)
            cid = tracer._next
            tracer._next += 1
            parent = tracer._stack[-1] if tracer._stack else None
            tracer._stack.append(cid)
            try:
                res = orig(*args, **kwargs)
            finally:
                tracer._stack.pop()
            # what the real function did to its operands (e.g. unify_chunks) is read from the result's plan
            tracer.calls.append({"id": cid, "parent": parent, "fn": fname, "args": sargs, "kwargs": skw,
                                 "result": _snap(res), "depth": len(tracer._stack), "raw_result": res,
                                 "raw_args": args, "raw_kwargs": kwargs})
            return res
        traced.__wrapped__ = orig
        traced.__name__ = getattr(orig, "__name__", fname)
        return traced

    def __enter__(self):
        import importlib
        for modname, attr in TRACED:
            try:
                mod = importlib.import_module(modname)
                orig = getattr(mod, attr)
            except (ImportError, AttributeError):
                continue
            if getattr(orig, "__wrapped__", None) is not None and getattr(orig, "_c12_traced", False):
                continue
            w = self._wrap(attr, orig)
            w._c12_traced = True
            # replace the reference in every loaded cubed module that imported it by name
            for m in list(sys.modules.values()):
                name = getattr(m, "__name__", "")
                if not (name == "cubed" or name.startswith("cubed.")):
                    continue
                d = getattr(m, "__dict__", None)
                if not d:
                    continue
                for k, v in list(d.items()):
                    if v is orig:
                        self._saved.append((m, k, orig))
                        setattr(m, k, w)
        # `Array.blocks[...]` is a method of BlockView
        try:
            from cubed.core.indexing import BlockView
            orig = BlockView.__getitem__
            if not getattr(orig, "_c12_traced", False):
                w = self._wrap("blocks", orig)
                w._c12_traced = True
                self._saved.append((BlockView, "__getitem__", orig))
                BlockView.__getitem__ = w
        except (ImportError, AttributeError):
            pass
        return self

    def __exit__(self, *exc):
        for m, k, orig in reversed(self._saved):
            setattr(m, k, orig)
        self._saved = []
        return False


def source_metas(arr):
    """ArrayMeta of the arrays the op that produced `arr` really reads (after unify_chunks etc.), in the order of the
    primitive op's `source_array_names`."""
    dag = arr._plan.dag
    opnodes = [p for p in dag.predecessors(arr.name)]
    if not opnodes:
        return None
    op = dag.nodes[opnodes[0]].get("primitive_op")
    if op is None:
        return None
    out = []
    from cubed.utils import normalize_chunks
    for n in op.source_array_names:
        t = dag.nodes[n].get("target") if n in dag.nodes else None
        if t is None:
            out.append(None)
            continue
        m = ArrayMeta.__new__(ArrayMeta)
        m.name = n
        m.shape = tuple(int(s) for s in t.shape)
        m.chunks = tuple(tuple(int(c) for c in cs) for cs in normalize_chunks(t.chunks, shape=t.shape, dtype=t.dtype))
        m.dtype = t.dtype
        m.numblocks = tuple(len(c) for c in m.chunks)
        m.chunksize = tuple(max(c) for c in m.chunks)
        out.append(m)
    return out
