"""Plug-in extractor for C18: syntactic facts about resource specs and size literals -> Model/GeneratedC18.lean.

Facts (all from the tree under test, by `ast` only):
  specEqFields, specInitParams        cubed/spec.py  Spec.__eq__ / Spec.__init__
  unitTable, unitBase, bytesSteps     cubed/utils.py convert_to_bytes
  checkSpecsShape, checkSites         cubed/core/array.py check_array_specs and every caller
  opMemSources, fusedMemSources, createArraysMem
                                      where each primitive op takes allowed_mem / reserved_mem from
  siteTable                           every function/method of the analysed modules that can receive two or more arrays,
                                      with kind "checked" (all array arguments reach one spec-checked call),
                                      "eager-index" (the others are only used as an eagerly evaluated index) or "unchecked".

The site analysis is a small flow-insensitive dataflow over names (see `sites`).  It is deliberately simple: it is a
tripwire for "a multi-array entry point no longer routes through the check", the decisive evidence is the API sweep in
harness/props/c18.py.
"""
from __future__ import annotations

import ast
import glob
import os

from extract import ExtractError, _func, _parse, _src, lean_str

SITE_GLOBS = ["cubed/array_api/*.py", "cubed/core/*.py", "cubed/array/*.py", "cubed/icechunk.py", "cubed/random.py"]
SITE_SKIP = {"cubed/core/optimization.py", "cubed/core/rechunk.py"}


# ------------------------------------------------------------------------------------------------
# spec.py
# ------------------------------------------------------------------------------------------------

def spec_facts(repo):
    rel = "cubed/spec.py"
    t = _parse(repo, rel)
    cls = next((n for n in t.body if isinstance(n, ast.ClassDef) and n.name == "Spec"), None)
    if cls is None:
        raise ExtractError(f"{rel}: class Spec not found")
    init = next((n for n in cls.body if isinstance(n, ast.FunctionDef) and n.name == "__init__"), None)
    eq = next((n for n in cls.body if isinstance(n, ast.FunctionDef) and n.name == "__eq__"), None)
    if init is None or eq is None:
        raise ExtractError(f"{rel}: Spec.__init__/__eq__ not found")
    params = [a.arg for a in init.args.posonlyargs + init.args.args + init.args.kwonlyargs if a.arg != "self"]
    # __eq__: `if isinstance(other, Spec): return (self.f == other.f and ...) else: return False`
    other = eq.args.args[1].arg if len(eq.args.args) == 2 else None
    if other is None or len(eq.body) != 1 or not isinstance(eq.body[0], ast.If):
        raise ExtractError(f"{rel}: Spec.__eq__ has an unexpected shape")
    iff = eq.body[0]
    if _src(iff.test) != f"isinstance({other}, Spec)":
        raise ExtractError(f"{rel}: Spec.__eq__ guard is {_src(iff.test)}")
    if len(iff.body) != 1 or not isinstance(iff.body[0], ast.Return):
        raise ExtractError(f"{rel}: Spec.__eq__ body is not a single return")
    if not (len(iff.orelse) == 1 and isinstance(iff.orelse[0], ast.Return) and _src(iff.orelse[0].value) == "False"):
        raise ExtractError(f"{rel}: Spec.__eq__ else branch is not `return False`")
    val = iff.body[0].value
    conj = val.values if isinstance(val, ast.BoolOp) and isinstance(val.op, ast.And) else [val]
    fields = []
    for c in conj:
        ok = (isinstance(c, ast.Compare) and len(c.ops) == 1 and isinstance(c.ops[0], ast.Eq)
              and isinstance(c.left, ast.Attribute) and isinstance(c.comparators[0], ast.Attribute)
              and _src(c.left.value) == "self" and _src(c.comparators[0].value) == other
              and c.left.attr == c.comparators[0].attr)
        if not ok:
            raise ExtractError(f"{rel}: Spec.__eq__ conjunct `{_src(c)}` is not self.f == other.f")
        fields.append(c.left.attr)
    # the memory properties must return the stored, converted values
    props = {}
    for n in cls.body:
        if isinstance(n, ast.FunctionDef) and n.name in ("allowed_mem", "reserved_mem"):
            rets = [s for s in ast.walk(n) if isinstance(s, ast.Return)]
            props[n.name] = _src(rets[0].value) if len(rets) == 1 else "?"
    if props != {"allowed_mem": "self._allowed_mem", "reserved_mem": "self._reserved_mem"}:
        raise ExtractError(f"{rel}: Spec.allowed_mem/reserved_mem properties changed: {props}")
    src = _src(init)
    conv = []
    for want in ("self._reserved_mem = convert_to_bytes(reserved_mem or 0)",
                 "self._allowed_mem = self.reserved_mem",
                 "self._allowed_mem = convert_to_bytes(allowed_mem)"):
        conv.append(want if want in src else "MISSING: " + want)
    return fields, params, conv


# ------------------------------------------------------------------------------------------------
# utils.py convert_to_bytes
# ------------------------------------------------------------------------------------------------

def bytes_facts(repo):
    rel = "cubed/utils.py"
    t = _parse(repo, rel)
    fn = _func(t, "convert_to_bytes", rel)
    table = None
    for n in ast.walk(fn):
        tgt = None
        if isinstance(n, ast.AnnAssign) and isinstance(n.target, ast.Name):
            tgt, v = n.target.id, n.value
        elif isinstance(n, ast.Assign) and len(n.targets) == 1 and isinstance(n.targets[0], ast.Name):
            tgt, v = n.targets[0].id, n.value
        if tgt == "units" and isinstance(v, ast.Dict):
            try:
                table = [(k.value, int(x.value)) for k, x in zip(v.keys, v.values)]
            except AttributeError:
                raise ExtractError(f"{rel}: units table is not a literal dict")
    if table is None or not all(isinstance(k, str) and isinstance(x, int) and x >= 0 for k, x in table):
        raise ExtractError(f"{rel}: units table not found in convert_to_bytes")
    base = None
    for n in ast.walk(fn):
        if isinstance(n, ast.Assign) and _src(n.targets[0]) == "unit_factor" and isinstance(n.value, ast.BinOp) \
                and isinstance(n.value.op, ast.Pow):
            if not (isinstance(n.value.left, ast.Constant) and isinstance(n.value.left.value, int)
                    and _src(n.value.right) == "units[unit]"):
                raise ExtractError(f"{rel}: unit_factor is {_src(n.value)}")
            base = n.value.left.value
    if base is None:
        raise ExtractError(f"{rel}: `unit_factor = <base> ** units[unit]` not found")
    src = _src(fn)
    steps = []

    def step(label, *needles):
        steps.append(label if all(x in src for x in needles) else "MISSING:" + label)

    step("strip-spaces", "size = size.replace(' ', '')")
    step("numeric-test-float", "float(s)", "except ValueError")
    step("plain", "if is_numeric_str(size):")
    step("suffix-B", "elif size[-1] == 'B' and is_numeric_str(size[:-1]):")
    step("suffix-unit", "elif size[-2:] in units and is_numeric_str(size[:-2]):", "unit = size[-2:]", "value = size[:-2]")
    step("decimal-parse", "decimal_value = Decimal(value)", "except ArithmeticError:", "decimal_value = Decimal('nan')")
    step("finite-test", "if not decimal_value.is_finite():")
    step("exact-rational", "exact_size = Fraction(decimal_value) * unit_factor")
    step("whole-test", "if exact_size.denominator != 1:")
    step("to-int", "size = int(exact_size)")
    step("float-whole", "if size.is_integer():", "size = int(size)")
    step("nonneg", "if size >= 0:", "return size")
    # out-of-range test: `if decimal_value != 0 and abs(decimal_value.adjusted()) > <bound>: raise ValueError`
    bound = None
    for n in ast.walk(fn):
        if isinstance(n, ast.If) and "adjusted()" in _src(n.test):
            t = n.test
            ok = (isinstance(t, ast.BoolOp) and isinstance(t.op, ast.And) and len(t.values) == 2
                  and _src(t.values[0]) == "decimal_value != 0"
                  and isinstance(t.values[1], ast.Compare) and len(t.values[1].ops) == 1 and isinstance(t.values[1].ops[0], ast.Gt)
                  and _src(t.values[1].left) == "abs(decimal_value.adjusted())"
                  and isinstance(t.values[1].comparators[0], ast.Constant) and isinstance(t.values[1].comparators[0].value, int)
                  and any(isinstance(x, ast.Raise) for x in n.body))
            if not ok:
                raise ExtractError(f"{rel}: exponent range test is `{_src(t)}`")
            bound = t.values[1].comparators[0].value
    if bound is None:
        # without the test the model (which rejects out-of-range exponents before converting) is out of date, and its
        # evaluation of huge exponents would not even terminate
        raise ExtractError(f"{rel}: exponent range test `abs(decimal_value.adjusted()) > <bound>` not found in convert_to_bytes")
    steps.append("range-test")
    # order of the tests on the parsed value
    order = [k for k in ("decimal_value = Decimal(value)", "decimal_value.is_finite()", "decimal_value.adjusted()",
                         "Fraction(decimal_value)", "exact_size.denominator != 1", "size = int(exact_size)") if k in src]
    pos = [src.index(k) for k in order]
    steps.append("order-ok" if len(order) == 6 and pos == sorted(pos) else "MISSING:order")
    plain_factors = [_src(n.value) for n in ast.walk(fn)
                     if isinstance(n, ast.Assign) and _src(n.targets[0]) == "unit_factor" and isinstance(n.value, ast.Constant)]
    steps.append("plain-factor:" + ",".join(sorted(set(plain_factors))))
    return table, base, steps, (bound if bound is not None else 0)


# ------------------------------------------------------------------------------------------------
# check_array_specs and where the memory settings of ops come from
# ------------------------------------------------------------------------------------------------

def check_facts(repo):
    rel = "cubed/core/array.py"
    t = _parse(repo, rel)
    fn = _func(t, "check_array_specs", rel)
    body = [_src(s) for s in fn.body if not (isinstance(s, ast.Expr) and isinstance(s.value, ast.Constant))]
    want0 = "specs = [a.spec for a in arrays if hasattr(a, 'spec')]"
    ok = (len(body) == 3 and body[0] == want0
          and body[1].startswith("if not all((s == specs[0] for s in specs)):\n    raise ValueError(")
          and body[2] == "return arrays[0].spec")
    shape = "all-equal-first;raise-ValueError;return-first" if ok else "other: " + " ;; ".join(b.split("\n")[0] for b in body)
    return shape


def mem_sources(repo):
    out = []
    rel = "cubed/core/ops.py"
    t = _parse(repo, rel)
    for fn in ast.walk(t):
        if not isinstance(fn, ast.FunctionDef):
            continue
        for c in ast.walk(fn):
            if isinstance(c, ast.Call):
                kw = {k.arg: _src(k.value) for k in c.keywords if k.arg in ("allowed_mem", "reserved_mem")}
                if kw:
                    spec_src = [_src(s.value) for s in ast.walk(fn)
                                if isinstance(s, ast.Assign) and _src(s.targets[0]) == "spec"]
                    out.append((f"{rel}:{fn.name}->{_src(c.func)}", kw.get("allowed_mem", "-"), kw.get("reserved_mem", "-"),
                                "|".join(spec_src)))
    if not out:
        raise ExtractError(f"{rel}: no call passing allowed_mem= found")
    fused = []
    rel = "cubed/primitive/blockwise.py"
    t = _parse(repo, rel)
    for name in ("fuse", "fuse_multiple"):
        fn = _func(t, name, rel)
        a = [_src(s.value) for s in ast.walk(fn) if isinstance(s, ast.Assign) and _src(s.targets[0]) == "allowed_mem"]
        r = [_src(s.value) for s in ast.walk(fn) if isinstance(s, ast.Assign) and _src(s.targets[0]) == "reserved_mem"]
        passed = any(isinstance(c, ast.Call) and {k.arg: _src(k.value) for k in c.keywords}.get("allowed_mem") == "allowed_mem"
                     and {k.arg: _src(k.value) for k in c.keywords}.get("reserved_mem") == "reserved_mem" for c in ast.walk(fn))
        fused.append((name, "|".join(a), "|".join(r) + ("" if passed else "|NOT-PASSED")))
    rel = "cubed/core/plan.py"
    t = _parse(repo, rel)
    fn = _func(t, "_create_lazy_zarr_arrays", rel)
    src = _src(fn)
    create = []
    for want in ("allowed_mem = max(allowed_mem, d['primitive_op'].allowed_mem)",
                 "reserved_mem = max(reserved_mem, d['primitive_op'].reserved_mem)",
                 "create_zarr_arrays(lazy_zarr_arrays, allowed_mem, reserved_mem)"):
        create.append(want if want in src else "MISSING: " + want)
    fn = _func(t, "create_zarr_arrays", rel)
    kws = sorted({(k.arg, _src(k.value)) for c in ast.walk(fn) if isinstance(c, ast.Call) for k in c.keywords
                  if k.arg in ("allowed_mem", "reserved_mem")})
    create.append(";".join(f"{a}={b}" for a, b in kws))
    return out, fused, create


# ------------------------------------------------------------------------------------------------
# site table
# ------------------------------------------------------------------------------------------------

class Fn:
    def __init__(self, rel, qual, node, cls):
        self.rel, self.qual, self.node, self.cls = rel, qual, node, cls
        a = node.args
        self.pos = [x.arg for x in a.posonlyargs + a.args]
        self.kwonly = [x.arg for x in a.kwonlyargs]
        self.vararg = a.vararg.arg if a.vararg else None
        self.params = self.pos + ([self.vararg] if self.vararg else []) + self.kwonly
        self.array_params = set()
        self.eager = set()
        self.multi = set()       # params that may hold several arrays
        self.checked_cover = set()  # best set of array params reaching a single checked call
        self.deps = None

    @property
    def key(self):
        return f"{self.rel}:{self.qual}"


def _module_name(rel):
    m = rel[:-3].replace("/", ".")
    return m[:-9] if m.endswith(".__init__") else m


def load_modules(repo):
    rels = []
    for g in SITE_GLOBS:
        rels += sorted(os.path.relpath(p, repo) for p in glob.glob(os.path.join(repo, g)))
    rels = [r for r in rels if r not in SITE_SKIP]
    if len(rels) < 15:
        raise ExtractError(f"site analysis: only {len(rels)} modules found")
    mods = {}
    for rel in rels:
        mods[rel] = _parse(repo, rel)
    # package __init__ files, for re-exports
    for pk in ("cubed/__init__.py", "cubed/core/__init__.py", "cubed/array_api/__init__.py", "cubed/array/__init__.py"):
        if pk not in mods and os.path.exists(os.path.join(repo, pk)):
            mods[pk] = _parse(repo, pk)
    return mods


def build_tables(mods):
    fns = {}       # (rel, qual) -> Fn
    imports = {}   # rel -> {local name: (module dotted, original name)}
    by_module = {_module_name(rel): rel for rel in mods}
    for rel, tree in mods.items():
        imp = {}
        pkg = _module_name(rel) if rel.endswith("__init__.py") else _module_name(rel).rsplit(".", 1)[0]
        for n in ast.walk(tree):
            if isinstance(n, ast.ImportFrom):
                base = n.module or ""
                if n.level:
                    parts = pkg.split(".")
                    parts = parts[:len(parts) - (n.level - 1)]
                    base = ".".join(parts + ([n.module] if n.module else []))
                for a in n.names:
                    imp[a.asname or a.name] = (base, a.name)
        imports[rel] = imp
        for n in tree.body:
            if isinstance(n, ast.FunctionDef):
                fns[(rel, n.name)] = Fn(rel, n.name, n, None)
            elif isinstance(n, ast.ClassDef):
                for m in n.body:
                    if isinstance(m, ast.FunctionDef):
                        fns[(rel, f"{n.name}.{m.name}")] = Fn(rel, f"{n.name}.{m.name}", m, n.name)
    methods = {}
    for (rel, qual), f in fns.items():
        if f.cls:
            methods.setdefault(qual.split(".")[1], []).append(f)

    def resolve_name(rel, name, depth=0):
        if (rel, name) in fns:
            return fns[(rel, name)]
        if depth > 4:
            return None
        imp = imports.get(rel, {}).get(name)
        if imp is None:
            return None
        mod, orig = imp
        target = by_module.get(mod)
        if target is None:
            return None
        return resolve_name(target, orig, depth + 1)

    return fns, methods, resolve_name


class Analysis:
    """Flow-insensitive dataflow over names: which parameters of a function are arrays (reach an array parameter of a
    callee, ultimately `check_array_specs(arrays)`), and whether all of them reach one spec-checked call together."""

    def __init__(self, repo):
        self.mods = load_modules(repo)
        self.fns, self.methods, self.resolve_name = build_tables(self.mods)
        self.root = self.fns.get(("cubed/core/array.py", "check_array_specs"))
        if self.root is None or not self.root.pos:
            raise ExtractError("cubed/core/array.py: check_array_specs not found")
        for f in self.fns.values():
            f.returned = set()

    # -- call resolution ----------------------------------------------------------------------------
    def resolve_call(self, f, c):
        if isinstance(c.func, ast.Name):
            return self.resolve_name(f.rel, c.func.id), None
        if isinstance(c.func, ast.Attribute):
            cands = self.methods.get(c.func.attr, [])
            if len(cands) == 1:
                return cands[0], c.func.value
        return None, None

    @staticmethod
    def arg_map(g, recv, c):
        amap = {}
        pos = list(g.pos)
        if g.cls and pos and pos[0] in ("self", "cls"):
            if recv is not None:
                amap.setdefault(pos[0], []).append((recv, False))
            pos = pos[1:]
        i = 0
        for a in c.args:
            if isinstance(a, ast.Starred):
                for p in pos[i:]:
                    amap.setdefault(p, []).append((a.value, True))
                if g.vararg:
                    amap.setdefault(g.vararg, []).append((a.value, True))
                i = len(pos)
            elif i < len(pos):
                amap.setdefault(pos[i], []).append((a, False))
                i += 1
            elif g.vararg:
                amap.setdefault(g.vararg, []).append((a, False))
        for k in c.keywords:
            if k.arg is not None and k.arg in g.params:
                amap.setdefault(k.arg, []).append((k.value, False))
        return amap

    # -- names an expression's *array content* may come from -----------------------------------------
    def names(self, f, expr):
        out = set()

        def visit(n):
            if isinstance(n, ast.Name):
                out.add(n.id)
            elif isinstance(n, ast.Attribute):
                if not isinstance(n.value, ast.Name):   # p.attr is metadata (p.spec, p.shape, ...): not an array flow
                    visit(n.value)
            elif isinstance(n, ast.Call):
                g, recv = self.resolve_call(f, n)
                if g is not None:
                    allowed = g.array_params | g.returned
                    for p, exprs in self.arg_map(g, recv, n).items():
                        if p in allowed:
                            for e, _ in exprs:
                                visit(e)
                elif isinstance(n.func, ast.Name) and n.func.id[:1].isupper():
                    pass    # constructor of some class: opaque
                else:
                    if isinstance(n.func, ast.Attribute) and isinstance(n.func.value, ast.Name) \
                            and n.func.attr in ("compute", "rechunk", "astype", "copy", "reshape"):
                        out.add(n.func.value.id)   # array method on a name
                    for a in n.args:               # builtins / backend functions: positional arguments only
                        visit(a.value if isinstance(a, ast.Starred) else a)
            elif isinstance(n, (ast.ListComp, ast.SetComp, ast.GeneratorExp, ast.DictComp)):
                elts = [n.key, n.value] if isinstance(n, ast.DictComp) else [n.elt]
                for e in elts:
                    visit(e)
                for g_ in n.generators:
                    visit(g_.iter)
            elif isinstance(n, (ast.Lambda, ast.Constant, ast.Compare)):
                pass
            elif isinstance(n, ast.IfExp):
                visit(n.body)
                visit(n.orelse)
            else:
                for ch in ast.iter_child_nodes(n):
                    visit(ch)

        visit(expr)
        return out

    def local_deps(self, f):
        dep = {p: {p} for p in f.params}

        def add(targets, nms):
            for t in targets:
                dep.setdefault(t, set()).update(nms)

        def tnames(t):
            return [x.id for x in ast.walk(t) if isinstance(x, ast.Name)]

        def bind_iter(target, it):
            if isinstance(it, ast.Call) and _src(it.func) == "zip" and isinstance(target, ast.Tuple) \
                    and len(target.elts) == len(it.args):
                for te, ie in zip(target.elts, it.args):
                    add(tnames(te), self.names(f, ie))
            elif isinstance(it, ast.Call) and _src(it.func) == "enumerate" and isinstance(target, ast.Tuple) \
                    and len(target.elts) == 2 and it.args:
                add(tnames(target.elts[1]), self.names(f, it.args[0]))
            else:
                add(tnames(target), self.names(f, it))

        for n in ast.walk(f.node):
            if isinstance(n, ast.Assign):
                for t in n.targets:
                    if isinstance(t, ast.Tuple) and isinstance(n.value, ast.Tuple) and len(t.elts) == len(n.value.elts):
                        for te, ve in zip(t.elts, n.value.elts):
                            add(tnames(te), self.names(f, ve))
                    elif isinstance(t, ast.Subscript):
                        add(tnames(t.value), self.names(f, n.value))
                    else:
                        add(tnames(t), self.names(f, n.value))
            elif isinstance(n, (ast.AugAssign, ast.AnnAssign)) and n.value is not None:
                add(tnames(n.target), self.names(f, n.value))
            elif isinstance(n, ast.For):
                bind_iter(n.target, n.iter)
            elif isinstance(n, (ast.ListComp, ast.SetComp, ast.GeneratorExp, ast.DictComp)):
                for g_ in n.generators:
                    bind_iter(g_.target, g_.iter)
            elif isinstance(n, ast.Call) and isinstance(n.func, ast.Attribute) and n.func.attr in ("append", "extend", "insert") \
                    and isinstance(n.func.value, ast.Name):
                for a in n.args:
                    add([n.func.value.id], self.names(f, a))
        changed = True
        while changed:
            changed = False
            for v, s in dep.items():
                new = set(s)
                for x in s:
                    new |= dep.get(x, set())
                if new != s:
                    dep[v] = new
                    changed = True
        f.deps = dep
        return dep

    def pdeps(self, f, expr):
        out = set()
        for nme in self.names(f, expr):
            out |= f.deps.get(nme, {nme})
        return out & set(f.params)

    # -- fixpoints ----------------------------------------------------------------------------------------
    def run(self):
        root = self.root
        root.array_params = {root.pos[0]}
        root.multi = {root.pos[0]}
        checked = {root.key}
        fns = self.fns
        for it in range(40):
            changed = False
            for f in fns.values():
                self.local_deps(f)
            for f in fns.values():
                if f is root:
                    continue
                # parameters the return value may carry
                ret = set()
                for n in ast.walk(f.node):
                    if isinstance(n, ast.Return) and n.value is not None:
                        ret |= self.pdeps(f, n.value)
                if not ret <= f.returned:
                    f.returned |= ret
                    changed = True
                for c in ast.walk(f.node):
                    if not isinstance(c, ast.Call):
                        continue
                    g, recv = self.resolve_call(f, c)
                    if g is None:
                        continue
                    for p, exprs in self.arg_map(g, recv, c).items():
                        if p not in g.array_params:
                            continue
                        for e, starred in exprs:
                            ps = self.pdeps(f, e)
                            if not ps <= f.array_params:
                                f.array_params |= ps
                                changed = True
                            if p in g.multi and (starred or p != g.vararg) and not ps <= f.multi:
                                f.multi |= ps
                                changed = True
            if not changed:
                break
        else:
            raise ExtractError("site analysis: array-parameter fixpoint did not converge")
        for f in fns.values():
            if f.vararg and f.vararg in f.array_params:
                f.multi.add(f.vararg)
        # parameters that are evaluated eagerly on their own: receiver of `.compute()`, or used as an index of an
        # array-valued expression (x[..., p, ...] goes through CoreArray.__getitem__ -> index -> key.compute())
        for f in fns.values():
            f.eager = set()
            f.weak = set()
            final = {id(n.value) for n in ast.walk(f.node) if isinstance(n, ast.Expr)}   # `out.compute()` as a statement
            for n in ast.walk(f.node):
                if isinstance(n, ast.Call) and isinstance(n.func, ast.Attribute) and n.func.attr == "compute" \
                        and id(n) not in final:
                    f.eager |= self.pdeps(f, n.func.value) - {"self", "cls"}
                if isinstance(n, ast.Subscript) and isinstance(n.ctx, ast.Load):
                    base = self.pdeps(f, n.value) & (f.array_params | {"self"})
                    if base and not (base & f.multi):
                        idx = self.pdeps(f, n.slice)
                        f.weak |= {p for p in idx if p not in base and p not in ("self", "cls")
                                   and any(h in p.lower() for h in INDEX_NAME_HINTS)}
            f.eager |= f.weak
        # which functions pass all their (non-eager) array parameters to one checked call
        for it in range(40):
            changed = False
            for f in fns.values():
                if f is root or not (f.array_params | f.eager):
                    continue
                eager = set(f.eager)
                best = set(f.checked_cover) - eager
                for c in ast.walk(f.node):
                    if not isinstance(c, ast.Call):
                        continue
                    g, recv = self.resolve_call(f, c)
                    if g is None or g.key not in checked:
                        continue
                    cover = set()
                    for p, exprs in self.arg_map(g, recv, c).items():
                        for e, _ in exprs:
                            if p in g.eager:
                                eager |= self.pdeps(f, e) - {"self", "cls"}
                            elif p in g.array_params:
                                ps = self.pdeps(f, e)
                                # a parameter holding several arrays is only covered when the whole collection
                                # reaches a parameter of the callee that is checked as a collection
                                cover |= {q for q in ps if q not in f.multi or p in g.multi}
                    cover &= f.array_params - eager
                    if len(cover) > len(best):
                        best = cover
                if best != f.checked_cover or eager != f.eager:
                    f.checked_cover, f.eager = best, eager
                    changed = True
                if f.key not in checked and f.array_params - f.eager <= best:
                    checked.add(f.key)
                    changed = True
            if not changed:
                break
        return checked


INDEX_NAME_HINTS = ("ind", "key", "idx")


def sites(repo):
    """Return ([site dict], [checked function keys]) for every public function/method that may receive two or more
    arrays.  kind: "checked"     all array parameters reach one spec-checked call together;
                   "eager-index" the remaining ones are index-like parameters evaluated eagerly on their own;
                   "unchecked"   anything else (must be justified by the per-argument exemption of the property)."""
    an = Analysis(repo)
    checked = an.run()
    out = []
    for k, f in sorted(an.fns.items()):
        if f is an.root:
            continue
        nm = f.qual.split(".")[-1]
        if nm.startswith("_") and not (nm.startswith("__") and nm.endswith("__")):
            continue
        arrs = set(f.array_params) | set(f.eager)
        n_arr = len(arrs) + (1 if f.multi & arrs else 0)
        if n_arr < 2 or not f.array_params:
            continue
        eager = f.eager & arrs
        if f.key in checked and not eager:
            kind = "checked"
        elif f.key in checked and all(any(h in p.lower() for h in INDEX_NAME_HINTS) for p in eager):
            kind = "eager-index"
        else:
            kind = "unchecked"
        out.append({"name": f.key, "arrays": sorted(arrs - eager), "index": sorted(eager), "multi": sorted(f.multi & arrs),
                    "kind": kind, "cover": sorted(f.checked_cover)})
    if len(out) < 40:
        raise ExtractError(f"site analysis found only {len(out)} multi-array functions; the analysis no longer fits the code")
    return out, sorted(checked)


def check_sites(repo):
    """Every function that calls check_array_specs directly."""
    mods = load_modules(repo)
    out = []
    for rel, tree in sorted(mods.items()):
        for fn in ast.walk(tree):
            if isinstance(fn, ast.FunctionDef):
                for c in ast.walk(fn):
                    if isinstance(c, ast.Call) and isinstance(c.func, ast.Name) and c.func.id == "check_array_specs":
                        arg = _src(c.args[0]) if c.args else "?"
                        out.append((f"{rel}:{fn.name}", arg))
    if not out:
        raise ExtractError("no caller of check_array_specs found")
    return sorted(set(out))


# ------------------------------------------------------------------------------------------------

def lean_list(items):
    return "[" + ", ".join(items) + "]"


def facts(repo):
    out = {}

    def put(name, typ, val, prov):
        out[name] = (typ, val, prov)

    fields, params, conv = spec_facts(repo)
    put("specEqFields", "List String", lean_list(lean_str(f) for f in fields), "cubed/spec.py:Spec.__eq__ (fields compared, in order)")
    put("specInitParams", "List String", lean_list(lean_str(f) for f in params), "cubed/spec.py:Spec.__init__ parameters")
    put("specMemInit", "List String", lean_list(lean_str(f) for f in conv), "cubed/spec.py:Spec.__init__ (how the memory settings are stored)")

    table, base, steps, bound = bytes_facts(repo)
    put("unitTable", "List (String × Nat)", lean_list(f"({lean_str(k)}, {v})" for k, v in table), "cubed/utils.py:convert_to_bytes units")
    put("unitBase", "Nat", str(base), "cubed/utils.py:convert_to_bytes `unit_factor = <base> ** units[unit]`")
    put("adjustedBound", "Nat", str(bound), "cubed/utils.py:convert_to_bytes `abs(decimal_value.adjusted()) > <bound>` (0 = test absent)")
    put("bytesSteps", "List String", lean_list(lean_str(s) for s in steps), "cubed/utils.py:convert_to_bytes (statement shapes the model mirrors)")

    put("checkSpecsShape", "String", lean_str(check_facts(repo)), "cubed/core/array.py:check_array_specs")
    put("checkSites", "List (String × String)", lean_list(f"({lean_str(a)}, {lean_str(b)})" for a, b in check_sites(repo)),
        "every direct caller of check_array_specs (function, argument)")
    ops, fused, create = mem_sources(repo)
    put("opMemSources", "List (String × String × String × String)",
        lean_list(f"({lean_str(a)}, {lean_str(b)}, {lean_str(c)}, {lean_str(d)})" for a, b, c, d in ops),
        "cubed/core/ops.py: calls passing allowed_mem=/reserved_mem= (site, allowed, reserved, where `spec` comes from)")
    put("fusedMemSources", "List (String × String × String)",
        lean_list(f"({lean_str(a)}, {lean_str(b)}, {lean_str(c)})" for a, b, c in fused),
        "cubed/primitive/blockwise.py: memory settings of fused ops")
    put("createArraysMem", "List String", lean_list(lean_str(s) for s in create), "cubed/core/plan.py: create-arrays op")

    st, checked = sites(repo)
    put("siteTable", "List (String × String × String)",
        "[\n  " + ",\n  ".join(f"({lean_str(s['name'])}, {lean_str(s['kind'])}, "
                               f"{lean_str(','.join(s['arrays']) + ('|index:' + ','.join(s['index']) if s['index'] else ''))})"
                               for s in st) + "]",
        "functions/methods that can receive two or more arrays: (site, kind, array parameters)")
    return out


if __name__ == "__main__":
    import sys
    import extract
    repo = sys.argv[1] if len(sys.argv) > 1 else "/repo"
    if len(sys.argv) > 2 and sys.argv[2] == "sites":
        st, checked = sites(repo)
        for s in st:
            print(s)
        print(len(st), "sites;", len(checked), "checked functions")
    else:
        print(extract.generate(repo, sys.modules[__name__], "GeneratedC18"))
