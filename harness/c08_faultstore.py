"""Fault-injecting zarr store for the end-to-end part of C08.

`FaultStore(inner, log=..., match=..., op=..., k=...)` is a `zarr.storage.WrapperStore` that raises `InjectedIOError`
on the first `k` accesses (`op` = "set" or "get") of every key that ends with `match`.  Accesses are counted in an
append-only log file under a file lock so the count is shared by threads and by worker processes (the store is
pickled into them).  It is handed to cubed as `cubed.Spec(intermediate_store=FaultStore(...))` — a public extension
point; nothing in the repository under test is modified.
"""
from __future__ import annotations

import fcntl
import os

from zarr.storage import WrapperStore


class InjectedIOError(OSError):
    pass


class FaultStore(WrapperStore):
    def __init__(self, store, log=None, match=None, op="set", k=0):
        super().__init__(store)
        self._log = log
        self._match = match
        self._op = op
        self._k = k

    def _with_store(self, store):
        return type(self)(store, log=self._log, match=self._match, op=self._op, k=self._k)

    # the count is the number of lines already in the log for (op, key)
    def _access(self, op, key):
        if self._match is None or op != self._op or not key.endswith(self._match):
            return
        fd = os.open(self._log, os.O_RDWR | os.O_CREAT | os.O_APPEND, 0o644)
        try:
            fcntl.flock(fd, fcntl.LOCK_EX)
            with open(self._log) as f:
                n = sum(1 for ln in f if ln.split(" ")[1:3] == [op, key])
            fail = n < self._k
            os.write(fd, f"{os.getpid()} {op} {key} {'FAIL' if fail else 'ok'}\n".encode())
        finally:
            os.close(fd)
        if fail:
            raise InjectedIOError(f"injected failure #{n + 1} of {op} {key}")

    async def get(self, key, prototype, byte_range=None):
        self._access("get", key)
        return await self._store.get(key, prototype, byte_range)

    async def set(self, key, value):
        self._access("set", key)
        await self._store.set(key, value)

    def __eq__(self, other):
        return type(other) is type(self) and self._store == other._store and self._log == other._log


def read_log(path):
    """list of (pid, op, key, 'FAIL'|'ok')"""
    if not os.path.exists(path):
        return []
    return [tuple(ln.split()) for ln in open(path) if ln.strip()]


def make_counter():
    from cubed.runtime.types import Callback

    class Counter(Callback):
        def __init__(self):
            self.tasks = {}
            self.num_tasks = {}
            self.op_start = []
            self.op_end = []

        def on_compute_start(self, event):
            for name, node in event.dag.nodes(data=True):
                if node.get("primitive_op") is not None:
                    self.num_tasks[name] = node["primitive_op"].num_tasks

        def on_operation_start(self, event):
            self.op_start.append(event.name)

        def on_operation_end(self, event):
            self.op_end.append(event.name)

        def on_task_end(self, event):
            self.tasks[event.name] = self.tasks.get(event.name, 0) + getattr(event, "num_tasks", 1)

    return Counter()
