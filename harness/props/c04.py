"""C04 — over-budget plans are refused before anything runs; fusion stays within budget.

corr   : Lean admission (`admits` / `exceeding`, operator regenerated from the source) on the exported *finalized* dag vs the
         plan's own ops_exceeding_memory; the optimizer model vs the real optimizers under *tight* budgets (so that the
         `peak_projected > allowed_mem` refusal in can_fuse_multiple_primitive_ops is exercised).
oracle : budgets on both sides of and exactly at the admission boundary (and reserved_mem shifts): compute raises
         ValueError iff some op projects more than allowed; when refused the executor was never entered and nothing was
         written; when admitted the values are right; a plan that fits unoptimized still fits after any non-forcing
         optimization; a fused op never reports less memory than any op it absorbed.
"""
from __future__ import annotations

import os
import shutil
import tempfile

import numpy as np

import dagexport as dx
from props import c02

DRIVER = "C02"
RULE = ("DAG programs of dagexport.gen_dag_program rebuilt under allowed_mem in {m-1, m, m+1} around the measured maximum "
        "projected memory m (re-measured after each rebuild because the budget feeds back into rechunk planning) x reserved_mem "
        "in {0, 1000} x optimize_graph on/off x optimizer parameters; non-trivial = the budget is within 1 byte of the boundary "
        "or the plan is refused; distinct by (program, allowed, reserved, optimizer)")
ASSUMPTIONS = [
    "nothing between validate() and execute_dag touches storage (observed: work_dir empty, executor not entered)",
    "FinalizedPlan.execute calls validate() first; validate raises iff the finalized plan recorded an exceeding op (regenerated from the source each run)",
]
TRUSTED = ["modelled not verified: the per-op projected_mem values themselves (property C03); networkx"]


def make_exec():
    from cubed.runtime.executors.local import SingleThreadedExecutor

    class RecExec(SingleThreadedExecutor):
        entered = 0

        def execute_dag(self, dag, **kw):
            RecExec.entered += 1
            return super().execute_dag(dag, **kw)
    return RecExec


def dir_files(d):
    n = 0
    for _, _, fs in os.walk(d):
        n += len(fs)
    return n


def plan_of(arrays, **kw):
    from cubed.core.array import plan
    return plan(*arrays, **kw)


def exceeding_direct(fp):
    """independent of the plan's own list: recompute from the dag nodes"""
    out = []
    for n, d in fp.dag.nodes(data=True):
        op = d.get("primitive_op")
        if op is not None and op.projected_mem > op.allowed_mem:
            out.append(n)
    return sorted(out)


def one_case(ctx, prog, expect, allowed, reserved, og, optfn, label, Rec):
    import cubed
    work = tempfile.mkdtemp(prefix="c04-")
    case = {"program": prog, "allowed_mem": allowed, "reserved_mem": reserved, "optimize_graph": og, "optimizer": label}
    try:
        try:
            spec = cubed.Spec(work_dir=work, allowed_mem=allowed, reserved_mem=reserved)
            vals = dx.build(prog, spec)
            arrays = [vals[i] for i in prog["outputs"]]
            kw = {"optimize_graph": og}
            if og and optfn is not None:
                kw["optimize_function"] = optfn(arrays)
            fp = plan_of(arrays, **kw)
        except Exception as e:
            ctx.dist["declined:" + type(e).__name__] += 1
            return None
        M = fp.max_projected_mem
        exc = exceeding_direct(fp)
        refuse = len(exc) > 0
        near = abs(M - allowed) <= 1
        ctx.count(case, nontrivial=near or refuse, kind=("refused" if refuse else "admitted") + (":boundary" if near else ""))
        if sorted(n for n, _ in fp.ops_exceeding_memory) != exc:
            ctx.fail("plan.ops_exceeding_memory %s differs from the ops with projected_mem > allowed_mem %s"
                     % ([n for n, _ in fp.ops_exceeding_memory], exc), case)
        before_files = dir_files(work)
        entered0 = Rec.entered
        try:
            res = cubed.compute(*arrays, executor=Rec(), **kw)
            raised = None
        except Exception as e:
            raised = e
        if refuse:
            if not isinstance(raised, ValueError) or "exceeds allowed_mem" not in str(raised):
                ctx.fail("plan with projected %d > allowed %d was not refused with the memory ValueError (got %r)" % (M, allowed, raised), case)
            if Rec.entered != entered0:
                ctx.fail("an over-budget plan reached the executor before being refused", case)
            if dir_files(work) != before_files:
                ctx.fail("an over-budget plan wrote to storage before being refused", case)
        else:
            if raised is not None:
                if isinstance(raised, ValueError) and "exceeds allowed_mem" in str(raised):
                    ctx.fail("plan with max projected %d <= allowed %d was refused: %s" % (M, allowed, raised), case)
                else:
                    ctx.dist["execution-error:" + type(raised).__name__] += 1  # not C04's concern
            else:
                for r, want in zip(res, expect):
                    if r.shape != want.shape or not np.array_equal(r, want):
                        ctx.fail("admitted plan computed a wrong value", case)
                        break
        return {"M": M, "refuse": refuse, "fp": fp, "arrays": arrays}
    finally:
        shutil.rmtree(work, ignore_errors=True)


def absorbed_check(ctx, case, dag_unopt, dag_opt):
    """a fused op never reports less projected memory than itself before fusion or any op it absorbed"""
    un = {n: d["primitive_op"] for n, d in dag_unopt.nodes(data=True) if d.get("primitive_op") is not None}
    for n, d in dag_opt.nodes(data=True):
        op = d.get("primitive_op")
        if op is None or n not in un or n == "create-arrays":
            continue
        if op is un[n]:
            continue
        # ops absorbed: walk back in the unoptimized dag through nodes that no longer exist
        absorbed, stack = [], [n]
        seen = set()
        while stack:
            x = stack.pop()
            for p in dag_unopt.predecessors(x):
                if p not in dag_opt and p not in seen:
                    seen.add(p)
                    stack.append(p)
                    if p in un:
                        absorbed.append(p)
        lows = [a for a in [n] + absorbed if un[a].projected_mem > op.projected_mem]
        if lows:
            ctx.fail("fused op %s reports projected_mem %d, less than op(s) it replaced: %s"
                     % (n, op.projected_mem, [(a, un[a].projected_mem) for a in lows]), case)


def fits_case(ctx, prog, a, reserved, optfn, label):
    """a plan that fits unoptimized must still fit after a non-forcing optimization; fused mem >= absorbed ops"""
    import cubed
    work = tempfile.mkdtemp(prefix="c04-")
    try:
        try:
            spec = cubed.Spec(work_dir=work, allowed_mem=a, reserved_mem=reserved)
            vals = dx.build(prog, spec)
            arrays = [vals[i] for i in prog["outputs"]]
            fu = plan_of(arrays, optimize_graph=False)
            kw = {"optimize_function": optfn(arrays)} if optfn else {}
            fo = plan_of(arrays, optimize_graph=True, **kw)
        except Exception as e:
            ctx.dist["declined:" + type(e).__name__] += 1
            return
        case = {"program": prog, "allowed_mem": a, "reserved_mem": reserved, "optimizer": label}
        ctx.count(dict(case, kind="fits"), nontrivial=True, kind="fusion-within-budget")
        if not exceeding_direct(fu) and exceeding_direct(fo):
            ctx.fail("plan fits unoptimized (max %d <= %d) but not after optimization %s (max %d)"
                     % (fu.max_projected_mem, a, label, fo.max_projected_mem), case)
        absorbed_check(ctx, case, fu.dag, fo.dag)
    finally:
        shutil.rmtree(work, ignore_errors=True)


def optimizers(rng):
    import functools
    from cubed.core import optimization as O
    outs = [("default", None)]
    ms, mb = rng.choice([1, 2, 4, 8]), rng.choice([None, 1, 4, 10, 50])
    outs.append(("multi(%s,%s)" % (ms, mb),
                 lambda arrays, ms=ms, mb=mb: functools.partial(O.multiple_inputs_optimize_dag, max_total_source_arrays=ms,
                                                                max_total_num_input_blocks=mb)))
    return outs


# fixed programs run first in every tier, each at the admission boundary of its unoptimized plan (allowed_mem = max
# projected_mem of the unoptimized plan, +1, +4): a three-input op whose first argument cannot be fused and whose other
# predecessors are heavier than the op itself (the fusion memory test must look at *all* fusable predecessors)
CORPUS = [
    {"n": 4, "inputs": [{"chunks": [2, 2], "salt": 0}, {"chunks": [2, 2], "salt": 1}],
     "steps": [{"op": "where3", "a": 0, "b": 1, "c": 0, "chunks": [2, 2]}], "outputs": [2]},
    {"n": 6, "inputs": [{"chunks": [3, 2], "salt": 0}, {"chunks": [3, 2], "salt": 1}, {"chunks": [3, 2], "salt": 2}],
     "steps": [{"op": "neg", "a": 1, "b": 0, "c": 0, "chunks": [3, 2]}, {"op": "where3", "a": 0, "b": 3, "c": 2, "chunks": [3, 2]}],
     "outputs": [4]},
    {"n": 4, "inputs": [{"chunks": [1, 4], "salt": 0}],
     "steps": [{"op": "where3", "a": 0, "b": 0, "c": 0, "chunks": [1, 4]}, {"op": "add", "a": 1, "b": 0, "c": 0, "chunks": [1, 4]}],
     "outputs": [2]},
]


def boundary_corpus(ctx):
    import cubed
    for prog in CORPUS:
        try:
            vals = dx.build(prog, cubed.Spec(allowed_mem=500_000_000, reserved_mem=0))
            m = plan_of([vals[i] for i in prog["outputs"]], optimize_graph=False).max_projected_mem
        except Exception as e:
            ctx.fail("fixed corpus program no longer builds: %s: %s" % (type(e).__name__, e), {"program": prog})
            continue
        for a in (m, m + 1, m + 4):
            fits_case(ctx, prog, a, 0, None, "default")


def oracle(ctx, nprog=None):
    import cubed
    Rec = make_exec()
    if not getattr(ctx, "_c04_corpus_done", False):
        ctx._c04_corpus_done = True
        boundary_corpus(ctx)
    nprog = nprog or ctx.budget(8, 28)
    for _ in range(nprog):
        prog = dx.gen_dag_program(ctx.rng)
        try:
            expect_all = dx.numpy_values(prog)
        except Exception:
            continue
        expect = [expect_all[i] for i in prog["outputs"]]
        # measure under a generous budget
        base = {}
        for og in (False, True):
            r = one_case(ctx, prog, expect, 500_000_000, 0, og, None, "default", Rec)
            if r is None:
                break
            base[og] = r
        if len(base) < 2:
            continue
        # forced fusion: the FINAL (fused) plan decides admission - budgets around the fused maximum
        from cubed.core.optimization import fuse_all_optimize_dag
        forced = lambda arrays: fuse_all_optimize_dag
        rf = one_case(ctx, prog, expect, 500_000_000, 0, True, forced, "fuse_all", Rec)
        if rf is not None:
            for a in sorted({rf["M"] - 1, rf["M"], base[False]["M"], base[False]["M"] + 1}):
                if a > 0:
                    one_case(ctx, prog, expect, a, 0, True, forced, "fuse_all", Rec)
        if getattr(ctx, "_c04_deadline", None) and ctx.elapsed() > ctx._c04_deadline:
            break
        for label, optfn in optimizers(ctx.rng):
            for reserved in (0, 1000):
                tried = set()
                for og in (False, True):
                    m = base[og]["M"] + reserved
                    cands = [m - 1, m, m + 1]
                    for a in cands:
                        if a <= reserved or (a, og) in tried:
                            continue
                        tried.add((a, og))
                        r = one_case(ctx, prog, expect, a, reserved, og, optfn if og else None, label if og else "none", Rec)
                        if r is not None and r["M"] != m and (r["M"], og) not in tried and r["M"] > reserved:
                            # the budget fed back into planning: try exactly at the new boundary too
                            tried.add((r["M"], og))
                            one_case(ctx, prog, expect, r["M"], reserved, og, optfn if og else None, label if og else "none", Rec)
                # fusion within budget, at budgets where the unoptimized plan just fits
                for a in (base[False]["M"] + reserved, base[False]["M"] + reserved + 1):
                    fits_case(ctx, prog, a, reserved, optfn, label)
        # forced fusion: memory of fused ops still dominates what they replaced
        work = tempfile.mkdtemp(prefix="c04-")
        try:
            from cubed.core.optimization import fuse_all_optimize_dag
            spec = cubed.Spec(work_dir=work, allowed_mem=500_000_000, reserved_mem=0)
            try:
                vals = dx.build(prog, spec)
                arrays = [vals[i] for i in prog["outputs"]]
                fu = plan_of(arrays, optimize_graph=False)
                fo = plan_of(arrays, optimize_graph=True, optimize_function=fuse_all_optimize_dag)
                absorbed_check(ctx, {"program": prog, "optimizer": "fuse_all"}, fu.dag, fo.dag)
                ctx.count({"program": prog, "optimizer": "fuse_all"}, nontrivial=True, kind="fused-mem-ge")
            except Exception as e:
                ctx.dist["declined:" + type(e).__name__] += 1
        finally:
            shutil.rmtree(work, ignore_errors=True)


def corr(ctx):
    import cubed
    from cubed.core.plan import arrays_to_plan

    reqs, exp, metas = [], [], []
    for _ in range(ctx.budget(25, 120)):
        prog = dx.gen_dag_program(ctx.rng)
        # generous measure, then tight budgets so that the memory test inside can_fuse matters
        try:
            spec0 = cubed.Spec(allowed_mem=500_000_000, reserved_mem=0)
            vals = dx.build(prog, spec0)
            m = plan_of([vals[i] for i in prog["outputs"]], optimize_graph=False).max_projected_mem
        except Exception as e:
            ctx.dist["declined:" + type(e).__name__] += 1
            continue
        for allowed in sorted({max(1, m - ctx.rng.randint(0, m // 2 + 1)), m, m + 1, max(1, m // 2)}):
            try:
                spec = cubed.Spec(allowed_mem=allowed, reserved_mem=0)
                vals = dx.build(prog, spec)
                arrays = [vals[i] for i in prog["outputs"]]
                plan = arrays_to_plan(*arrays)
            except Exception as e:
                ctx.dist["declined:" + type(e).__name__] += 1
                continue
            dag = plan.dag
            names = tuple(a.name for a in arrays)
            ops, order, nodes_order, virtual = dx.export_dag(dag)
            opnames = [n for n in dag.nodes() if n.startswith("op-")]
            for label, mode, kw, (ms, mb, al, nv) in c02.configs(ctx.rng, opnames, "quick")[:4]:
                fn = c02.real_optimizer(mode, kw)
                try:
                    got = "ops=" + dx.canon_dag(fn(dag, array_names=names))
                except Exception:
                    got = "raises"
                reqs.append(dx.opt_request(mode, names, ms, mb, al, nv, order, virtual, ops))
                exp.append(got)
                metas.append({"program": prog, "allowed_mem": allowed, "config": [label, ms, mb, al, nv], "kind": "optimize"})
            # admission on the finalized dag
            for og in (False, True):
                try:
                    fp = plan_of(arrays, optimize_graph=og)
                except Exception as e:
                    ctx.dist["declined:" + type(e).__name__] += 1
                    continue
                fops, forder, _, fvirtual = dx.export_dag(fp.dag)
                reqs.append(dx.opt_request("none", names, 4, 10, None, None, forder, fvirtual, fops))
                exc = sorted(n for n, _ in fp.ops_exceeding_memory)
                exp.append("admit=%d exceeding=%s" % (0 if exc else 1, ",".join(exc)))
                metas.append({"program": prog, "allowed_mem": allowed, "optimize_graph": og, "kind": "admit"})
    ans = ctx.lean.drive(DRIVER, reqs)
    for rq, e, a, m in zip(reqs, exp, ans, metas):
        ctx.count(m, nontrivial=True, kind="corr:" + m["kind"])
        got = a.split(" admit=")[0] if m["kind"] == "optimize" else "admit=" + a.split(" admit=", 1)[1] if " admit=" in a else a
        if got != e:
            ctx.disagree("Opt.admits/exceeding = plan.ops_exceeding_memory" if m["kind"] == "admit"
                         else "Opt.optimize = real optimizer under a tight budget", dict(m, request=rq[:1500]), got[:1200], e[:1200])


def search(ctx):
    import functools
    from cubed.core import optimization as O
    # first: the disagreeing inputs lifted to end-to-end cases
    for d in ctx.disagreements[:40]:
        c = d["case"]
        if c.get("kind") != "optimize" or "program" not in c:
            continue
        label, ms, mb, al, nv = c["config"]
        if al is not None or label not in ("default", "multi"):
            continue   # forced fusion is exempt from the within-budget clause
        optfn = (lambda arrays, ms=ms, mb=mb, nv=nv: functools.partial(
            O.multiple_inputs_optimize_dag, max_total_source_arrays=ms, max_total_num_input_blocks=mb, never_fuse=nv))
        for a in (c["allowed_mem"], c["allowed_mem"] + 1):
            fits_case(ctx, c["program"], a, 0, optfn, "lifted:" + str(c["config"]))
    if any(not (f["key"] and ctx.known(f["key"])) for f in ctx.failures):
        return
    ctx._c04_deadline = ctx.elapsed() + ctx.budget(240, 900)   # time box for the search
    ctx.rng.seed(ctx.seed + 15485863)
    oracle(ctx, nprog=ctx.budget(25, 60))
