"""C16 — building, planning and visualizing are lazy and free of side effects.

Lean side (Properties/C16.lean): the execution-site table regenerated from the source (harness/extract_c16.py)
is closed `by decide` against the allowed list; the lifecycle model proves no-effect of build/plan/visualize,
create-only-inside-execute and create-before-chunk-writes (under the explicit executor contract).

corr  : (1) every public name of `cubed` / `cubed.array_api` (+ `cubed.random`, `linalg`, the `Array` methods,
            properties and dunders) is called with arguments generated from its signature under
            `raise_if_computes()` and a tracing store; "did it try to execute" is compared with the model's
            effect table (`publicExec`, driver request `public|<variant>`);
        (2) real computations are run under a tracing store; the observed event trace is given to the model's
            acceptor (`trace|...`), and the real finalized dag is given to the model's `finalize` whose create
            list / written arrays / create-arrays-is-predecessor are compared with the real dag and the real trace.
oracle: the same observations judged directly in Python, independent of Lean: a lazy variant must not execute,
        nothing may `set`/`delete`/read a chunk/create an array/create a directory during build, plan(), visualize();
        in real runs array metadata is written only after the executing call started and before the first chunk of
        that array.
The API-wide sweep is *differential validation* of the effect table, not proof.
"""
from __future__ import annotations

import inspect
import os
import shutil
import tempfile
import warnings

DRIVER = "C16"
RULE = ("one evaluation = one public call (or one generated program / real run) with generated arguments, observed for "
        "execution attempts and store effects, followed by plan() and (sampled) visualize() of its result; arguments from a "
        "type-directed table: arrays of 1-3 dims (sizes 1-6, 1..dim chunks, dtypes float64/int64/bool/complex128), axes, "
        "scalars, dtypes, shapes; plus a fixed scalar-slot corpus: every parameter that takes a scalar (clip bounds, scalars of "
        "binary elementwise ops / where / operators, fill values, arange/linspace/eye/tril/triu/roll/repeat/tile arguments, "
        "axes, shapes, split_every, correction, chunks, index keys ...) also gets a 0-d cubed array, constant (asarray) and "
        "data-dependent (a reduction), alone, all together and mixed; three Spec flavours (tracing intermediate_store / "
        "work_dir directory / none); non-trivial = the "
        "call was accepted (returned or tripped the execution detector), distinct by (variant, arguments)")
ASSUMPTIONS = [
    "executor contract `Barrier` (every task of every predecessor node has run before a task starts) — C07's property; "
    "hypothesis of C16_create_before_tasks, observed to hold on every real trace checked here",
    "the site table lists syntactic call sites (names/attributes with import aliases resolved); aliasing through getattr / "
    "higher-order passing is not followed — covered dynamically by the API-wide sweep only",
    "API-wide sweep = differential validation of the effect table on generated arguments, not proof",
]
TRUSTED = [
    "modelled not verified: zarr-python's own behaviour for mode 'r'/'r+' (open only) and 'a' (create unless present); "
    "observed on the tracing store (second compute does not re-set zarr.json)",
    "harness/c16_trace.py (tracing WrapperStore, process-local wrappers around zarr.create_array/open_* and "
    "FinalizedPlan.execute) and cubed.runtime.utils.raise_if_computes of the tree under test as execution detector",
]

DECLINE = (ValueError, TypeError, NotImplementedError, IndexError, KeyError, AttributeError, AssertionError,
           ZeroDivisionError, OverflowError, RuntimeError)


class Uncovered(Exception):
    pass


# ----------------------------------------------------------------------------------------------
# environment
# ----------------------------------------------------------------------------------------------

class Env:
    def __init__(self, ctx):
        import cubed
        import numpy as np
        import zarr

        import c16_trace as T
        self.T = T
        self.ctx = ctx
        self.rng = ctx.rng
        self.root = tempfile.mkdtemp(prefix="verif-c16-")
        self.work_dir = os.path.join(self.root, "work")
        self.target_dir = os.path.join(self.root, "targets")
        self.viz_dir = os.path.join(self.root, "viz")
        for d in (self.work_dir, self.target_dir, self.viz_dir):
            os.makedirs(d)
        T.DET.install()
        T.DET.reset()
        self.istore = T.memory_store("I")
        self.spec_a = cubed.Spec(intermediate_store=self.istore, allowed_mem="200MB", reserved_mem=0)
        self.spec_b = cubed.Spec(work_dir=self.work_dir, allowed_mem="200MB", reserved_mem=0)
        # a source array for from_zarr / from_array (created by the "user", not by cubed)
        self.zstore = T.memory_store("Z")
        T.DET.on = False
        try:
            z = zarr.create_array(store=self.zstore, name="src", shape=(6, 4), dtype="int64", chunks=(2, 2))
            z[...] = np.arange(24).reshape(6, 4)
            z1 = zarr.create_array(store=self.zstore, name="src1", shape=(8,), dtype="float64", chunks=(4,))
            z1[...] = np.arange(8.0)
            self.zarr_src = z
        finally:
            T.DET.on = True
        self.n_target = 0
        self.context_dir = None
        try:
            from cubed.core.plan import CONTEXT_ID
            self.context_dir = os.path.join(tempfile.gettempdir(), CONTEXT_ID)
        except Exception:
            pass
        self.uncovered = {}
        self.accepted = {}
        self.verdicts = {}       # variant -> set of bools (executed?)
        self.attempted = {}      # variant -> last decline outcome

    def close(self):
        self.T.DET.uninstall()
        shutil.rmtree(self.root, ignore_errors=True)

    def spec(self):
        """A: tracing intermediate_store, B: work_dir directory, C: no spec at all (library default: temp dir)."""
        r = self.rng.random()
        return self.spec_a if r < 0.65 else self.spec_b if r < 0.88 else None

    def spec_name(self, spec):
        return "A:intermediate_store" if spec is self.spec_a else "B:work_dir" if spec is self.spec_b else "C:default(None)"

    def snapshot(self):
        s = {("work", p) for p in self.T.fs_snapshot(self.work_dir)} | {("targets", p) for p in self.T.fs_snapshot(self.target_dir)}
        if self.context_dir and os.path.exists(self.context_dir):
            s.add(("tmp", "context-dir"))
        return s

    def new_target_path(self):
        self.n_target += 1
        return os.path.join(self.target_dir, "t%d.zarr" % self.n_target)

    def new_target_store(self):
        self.n_target += 1
        return self.T.memory_store("S%d" % self.n_target)


# ----------------------------------------------------------------------------------------------
# type-directed argument table
# ----------------------------------------------------------------------------------------------

DTYPES = ["float64", "int64", "bool", "complex128"]


def rand_shape(rng, ndim=None, lo=1, hi=6):
    nd = ndim if ndim is not None else rng.choice([1, 1, 2, 2, 3])
    return tuple(rng.randint(lo, hi) for _ in range(nd))


def rand_chunks(rng, shape):
    return tuple(rng.randint(1, max(1, s)) for s in shape)


def np_data(shape, dtype):
    import numpy as np
    n = int(np.prod(shape)) if shape else 1
    base = np.arange(n).reshape(shape)
    if dtype == "bool":
        return base % 3 != 0
    if dtype == "complex128":
        return (base + 1j * (n - base)).astype(dtype)
    if dtype == "float64":
        return (base * 0.5 + 0.25).astype(dtype)
    return (base + 1).astype(dtype)


def mk_array(env, spec, shape=None, dtype="float64", chunks=None, ndim=None):
    import cubed.array_api as xp
    rng = env.rng
    shape = rand_shape(rng, ndim) if shape is None else tuple(shape)
    chunks = rand_chunks(rng, shape) if chunks is None else chunks
    return xp.asarray(np_data(shape, dtype), chunks=chunks, spec=spec)


def describe(v, depth=0):
    """JSON-able description of an argument (enough to rebuild it by hand)."""
    import numpy as np
    try:
        import cubed
        if isinstance(v, cubed.Array):
            return {"cubed": list(v.shape), "chunks": [list(c) for c in v.chunks], "dtype": str(v.dtype)}
    except Exception:
        pass
    if isinstance(v, np.ndarray):
        return {"numpy": list(v.shape), "dtype": str(v.dtype)}
    if isinstance(v, (list, tuple)) and depth < 3:
        return [describe(x, depth + 1) for x in v]
    if isinstance(v, dict) and depth < 3:
        return {str(k): describe(x, depth + 1) for k, x in v.items()}
    if isinstance(v, (int, float, str, bool)) or v is None:
        return v
    if isinstance(v, slice):
        return "slice(%s,%s,%s)" % (v.start, v.stop, v.step)
    return type(v).__name__ if not callable(v) or inspect.isclass(v) else getattr(v, "__name__", "callable")


class Args:
    """Generates (args, kwargs) for one public callable from its signature."""

    def __init__(self, env, spec, dtype):
        self.env, self.spec, self.dtype, self.rng = env, spec, dtype, env.rng
        self.shape = rand_shape(self.rng)
        self.x = None

    def array(self, shape=None, dtype=None):
        a = mk_array(self.env, self.spec, shape or self.shape, dtype or self.dtype)
        if self.x is None:
            self.x = a
        return a

    def value(self, name, param, fname):
        rng = self.rng
        creation = fname in ("empty", "full", "ones", "zeros", "random", "integers")
        if name in ("x", "x1", "x2", "obj", "from_"):
            if fname == "asarray" and rng.random() < 0.5:
                return np_data(self.shape, self.dtype) if rng.random() < 0.7 else [[1, 2], [3, 4]]
            return self.array()
        if name == "condition":
            return self.array(dtype="bool")
        if name in ("shape", "size"):
            return self.shape
        if name == "axis":
            nd = len(self.shape)
            return rng.choice([None, 0, -1, nd - 1])
        if name == "keepdims":
            return rng.random() < 0.5
        if name == "split_every":
            return rng.choice([None, 2])
        if name == "dtype":
            if param.default is inspect.Parameter.empty:
                return rng.choice(["float64", "int64"])
            return rng.choice([None, None, "float64"]) if not creation else rng.choice([None, "int32", "float32"])
        if name in ("device", "copy", "sorter", "prepend", "append", "min_mem"):
            return None
        if name == "correction":
            return rng.choice([0.0, 1.0])
        if name == "k":
            return rng.choice([-1, 0, 1])
        if name in ("include_initial", "invert", "trim", "endpoint", "allow_irregular"):
            return rng.random() < 0.5
        if name == "side":
            return rng.choice(["left", "right"])
        if name == "n":
            return 1
        if name == "indexing":
            return rng.choice(["xy", "ij"])
        if name == "chunks":
            if creation or param.default == "auto":
                return rng.choice(["auto", rand_chunks(rng, self.shape)])
            return None
        if name == "spec":
            return self.spec
        if name == "fill_value":
            return 7
        if name in ("min", "max"):
            v = {"min": 1, "max": 5}[name]
            if rng.random() < 0.3 and self.x is not None and self.dtype in ("float64", "int64"):
                import cubed.array_api as xp      # array-valued bound (0-d, same spec as x)
                return xp.asarray(v, dtype=self.dtype, spec=self.spec)
            return v
        if param.default is not inspect.Parameter.empty:
            return param.default
        raise Uncovered("no table entry for required parameter %r" % name)

    def from_signature(self, fname, fn):
        try:
            sig = inspect.signature(fn)
        except (TypeError, ValueError):
            raise Uncovered("no signature")
        args, kwargs = [], {}
        for name, p in sig.parameters.items():
            if p.kind is p.VAR_KEYWORD:
                continue
            if p.kind is p.VAR_POSITIONAL:
                if name == "arrays":
                    args += [self.array(), self.array()]
                elif name == "arrays_and_dtypes":
                    args += [self.array(), "float32"]
                elif name == "shapes":
                    args += [self.shape, (1,) * len(self.shape)]
                else:
                    raise Uncovered("no table entry for *%s" % name)
                continue
            v = self.value(name, p, fname)
            if p.kind in (p.POSITIONAL_ONLY, p.POSITIONAL_OR_KEYWORD) and p.default is inspect.Parameter.empty:
                args.append(v)
            elif p.default is inspect.Parameter.empty or self.rng.random() < 0.6 or name == "spec":
                if p.kind is p.POSITIONAL_ONLY:
                    args.append(v)
                else:
                    kwargs[name] = v
        return args, kwargs


def special_args(env, fname, spec, dtype):
    """Hand-written argument recipes for signatures the generic table cannot satisfy.  Returns
    list of (variant label, args, kwargs) or None when `fname` is not special."""
    import numpy as np

    import cubed
    import cubed.array_api as xp
    rng = env.rng
    A = lambda shape=None, dt=None, chunks=None, ndim=None: mk_array(env, spec, shape, dt or dtype, chunks, ndim)  # noqa: E731
    viz = os.path.join(env.viz_dir, "v%d" % rng.randrange(10 ** 9))
    if fname == "arange":
        return [("arange", [rng.randint(0, 3), rng.randint(4, 12)], {"step": rng.choice([1, 2]), "chunks": rng.choice(["auto", 3]), "spec": spec})]
    if fname == "linspace":
        return [("linspace", [0.0, 1.0, rng.randint(2, 9)], {"chunks": rng.choice(["auto", 2]), "spec": spec})]
    if fname == "eye":
        return [("eye", [rng.randint(1, 5), rng.choice([None, 3])], {"k": rng.choice([-1, 0, 1]), "chunks": rng.choice(["auto", 2]), "spec": spec})]
    if fname == "full":
        s = rand_shape(rng)
        return [("full", [s, 7], {"chunks": rand_chunks(rng, s), "spec": spec})]
    if fname == "meshgrid":
        return [("meshgrid", [A((3,)), A((4,))], {"indexing": rng.choice(["xy", "ij"])})]
    if fname == "can_cast":
        return [("can_cast", [xp.int32, xp.float64], {}), ("can_cast", [A(), xp.float64], {})]
    if fname in ("finfo", "iinfo"):
        return [(fname, [xp.float32 if fname == "finfo" else xp.int16], {})]
    if fname == "isdtype":
        return [("isdtype", [xp.float32, rng.choice(["real floating", "numeric", "bool"])], {})]
    if fname == "broadcast_to":
        x = A()
        return [("broadcast_to", [x, (2,) + tuple(x.shape)], {})]
    if fname in ("concat", "stack"):
        s = rand_shape(rng)
        c = rand_chunks(rng, s)
        return [(fname, [[A(s, chunks=c), A(s, chunks=c)]], {"axis": rng.choice([0, -1])})]
    if fname == "expand_dims":
        return [("expand_dims", [A()], {"axis": rng.choice([0, -1])})]
    if fname == "moveaxis":
        return [("moveaxis", [A(ndim=3), 0, -1], {})]
    if fname == "permute_dims":
        x = A()
        ax = list(range(x.ndim))
        rng.shuffle(ax)
        return [("permute_dims", [x, tuple(ax)], {})]
    if fname == "repeat":
        return [("repeat", [A(), rng.randint(1, 3)], {"axis": 0})]
    if fname == "reshape":
        x = A()
        return [("reshape", [x, rng.choice([(-1,), (x.size,), (1,) + tuple(x.shape)])], {})]
    if fname == "roll":
        return [("roll", [A(), rng.randint(-2, 3)], {"axis": rng.choice([None, 0])})]
    if fname == "squeeze":
        return [("squeeze", [A((1, 4), chunks=(1, 2)), 0], {})]
    if fname == "tile":
        x = A()
        return [("tile", [x, (2,) * x.ndim], {})]
    if fname == "take":
        x = A((6, 3), chunks=(2, 3))
        return [("take", [x, np.asarray([0, 2, 5])], {"axis": 0}),
                ("take[cubed-indices]", [x, xp.asarray(np.asarray([0, 2, 5]), chunks=2, spec=spec)], {"axis": 0})]
    if fname == "matmul":
        return [("matmul", [A((4, 3), chunks=(2, 3)), A((3, 5), chunks=(3, 2))], {})]
    if fname == "outer":
        return [("outer", [A((4,), chunks=(2,)), A((3,), chunks=(3,))], {})]
    if fname == "tensordot":
        return [("tensordot", [A((4, 3), chunks=(2, 3)), A((3, 5), chunks=(3, 2))], {"axes": 1})]
    if fname == "vecdot":
        return [("vecdot", [A((4, 3), chunks=(2, 3)), A((4, 3), chunks=(2, 3))], {})]
    if fname == "searchsorted":
        return [("searchsorted", [A((8,), "float64", chunks=(4,)), A((5,), "float64", chunks=(2,))], {"side": rng.choice(["left", "right"])})]
    if fname in ("qr", "svd", "svdvals", "tsqr"):
        return [(fname, [A((6, 2), "float64", chunks=(3, 2))], {"full_matrices": False} if fname == "svd" else {})]
    if fname == "pad":
        return [("pad", [A((5,), chunks=(2,)), ((1, 2),)], {"mode": "constant"})]
    if fname == "rechunk":
        x = A()
        return [("rechunk", [x, rand_chunks(rng, x.shape)], {})]
    if fname == "apply_gufunc":
        return [("apply_gufunc", [np.sum, "(i)->()", A((4, 3), "float64", chunks=(2, 3))], {"axis": -1, "output_dtypes": "float64"})]
    if fname == "map_blocks":
        return [("map_blocks", [np.negative, A()], {"dtype": dtype})]
    if fname == "map_overlap":
        x = A((6,), "float64", chunks=(2,))
        return [("map_overlap", [lambda b: b, x], {"dtype": "float64", "chunks": ((4, 4, 4),), "depth": 1, "boundary": 0, "trim": False})]
    if fname == "from_array":
        return [("from_array", [np_data((4, 3), dtype)], {"chunks": (2, 3), "spec": spec}),
                ("from_array[zarr]", [env.zarr_src], {"spec": spec, "chunks": rng.choice(["auto", (2, 2), (4, 2)])})]
    if fname == "from_zarr":
        return [("from_zarr", [env.zstore], {"path": "src", "spec": spec}),
                ("from_zarr", [env.zstore], {"path": "src1", "spec": spec, "chunks": rng.choice([None, (8,)])})]
    if fname in ("store", "to_zarr"):
        x = xp.negative(A())
        tgt = env.new_target_store() if spec is env.spec_a or rng.random() < 0.5 else env.new_target_path()
        # location targets (fresh path / store object, nothing there yet) x region x compute=False: the region is the
        # explicit full extent (a lazily created target has the source's shape), i.e. "not None and not all slice(None)"
        tgt2 = env.new_target_path() if rng.random() < 0.6 else env.new_target_store()
        region = tuple(slice(0, n) for n in x.shape)
        if fname == "store":
            return [("store[compute=False]", [[x], [tgt]], {"compute": False}), ("store", [x, tgt], {}),
                    ("store[compute=False,regions]", [[x], [tgt2]], {"compute": False, "regions": rng.choice([region, [region]])})]
        return [("to_zarr[compute=False]", [x, tgt], {"compute": False, "path": rng.choice([None, "g/a"])}), ("to_zarr", [x, tgt], {}),
                ("to_zarr[compute=False,region]", [x, tgt2], {"compute": False, "region": region, "path": rng.choice([None, "x", "sub/x"])})]
    if fname == "compute":
        return [("compute", [xp.negative(A()), xp.add(A((3,)), 1)], {})]
    if fname == "plan":
        return [("plan", [xp.negative(A())], {"optimize_graph": rng.random() < 0.5})]
    if fname == "visualize":
        return [("visualize", [xp.negative(A())], {"filename": viz, "format": rng.choice(["raw", "raw", "raw", "svg"]), "optimize_graph": rng.random() < 0.5,
                                                         "show_hidden": rng.random() < 0.5})]
    if fname == "measure_reserved_mem":
        return [("measure_reserved_mem", [env.T.trip_executor()], {"work_dir": env.work_dir})]
    if fname == "raise_if_computes":
        return [("raise_if_computes", [], {})]
    if fname in ("random", "integers"):
        s = rand_shape(rng)
        return [("random." + fname, [s], {"chunks": rand_chunks(rng, s), "spec": spec})]
    if fname == "astype":
        return [("astype", [A(), rng.choice(["float32", "int32", "complex128"])], {})]
    if fname == "diff":
        return [("diff", [A((6, 3), chunks=(2, 3))], {"axis": rng.choice([0, -1])})]
    if fname == "unstack":
        return [("unstack", [A((3, 4), chunks=(1, 2))], {"axis": 0})]
    if fname == "nanmedian":
        return [("nanmedian", [A((4, 3), "float64")], {"axis": rng.choice([0, 1])})]
    return None


# ----------------------------------------------------------------------------------------------
# enumerating the public surface
# ----------------------------------------------------------------------------------------------

def public_functions():
    """[(display name, callable or object)] of `cubed`, `cubed.array_api`, `cubed.random`, `linalg`."""
    import cubed
    import cubed.array_api as xp
    out, seen = [], set()
    for mod, prefix in ((cubed, ""), (xp, "")):
        for n in getattr(mod, "__all__", [x for x in dir(mod) if not x.startswith("_")]):
            o = getattr(mod, n, None)
            if o is None and n != "newaxis":
                continue
            if (n, id(o)) in seen:
                continue
            seen.add((n, id(o)))
            out.append((prefix + n, o))
    for mod, prefix in ((getattr(cubed, "random", None), "random."), (getattr(xp, "linalg", None), "linalg.")):
        if mod is None:
            continue
        for n in sorted(dir(mod)):
            o = getattr(mod, n)
            if n.startswith("_") or not inspect.isfunction(o) or getattr(o, "__module__", "") != mod.__name__:
                continue
            if prefix == "linalg." and n in ("matmul", "matrix_transpose", "tensordot", "vecdot"):
                continue
            if prefix == "random." and n not in ("random", "integers"):
                continue
            out.append((prefix + n, o))
    return out


BINARY_DUNDERS = ["add", "sub", "mul", "truediv", "floordiv", "mod", "pow", "and", "or", "xor", "lshift", "rshift", "matmul",
                  "eq", "ne", "lt", "le", "gt", "ge"]
CONVERSIONS = {"__bool__": "bool", "__int__": "int64", "__float__": "float64", "__index__": "int64", "__complex__": "complex128",
               "__array__": "float64"}
IGNORED_ATTRS = {"__class__", "__delattr__", "__dict__", "__dir__", "__doc__", "__format__", "__getattribute__", "__getstate__",
                 "__hash__", "__init__", "__init_subclass__", "__module__", "__new__", "__reduce__", "__reduce_ex__",
                 "__setattr__", "__sizeof__", "__str__", "__subclasshook__", "__weakref__", "__annotations__", "__firstlineno__",
                 "__static_attributes__", "__qualname__"}


def array_variants(env, spec, dtype):
    """[(variant label, thunk)] for the attributes of cubed.Array; unknown attribute names -> uncovered."""
    import numpy as np

    import cubed
    import cubed.array_api as xp
    rng = env.rng
    out = []
    cls = cubed.Array
    names = [n for n in dir(cls) if n not in IGNORED_ATTRS]
    for n in names:
        lab = "Array." + n
        static = inspect.getattr_static(cls, n, None)
        if n in CONVERSIONS:
            dt = CONVERSIONS[n]
            if n == "__array__":
                x = mk_array(env, spec, None, dt)
                out.append((lab, lambda x=x: np.asarray(x), {"x": describe(x)}))
            else:
                x = xp.sum(mk_array(env, spec, (3,), dt)) if dt != "bool" else xp.all(mk_array(env, spec, (3,), dt))
                conv = {"__bool__": bool, "__int__": int, "__float__": float, "__complex__": complex,
                        "__index__": lambda v: [10, 20, 30, 40, 50, 60, 70][v]}[n]
                out.append((lab, lambda x=x, conv=conv: conv(x), {"x": "0-d " + dt}))
            continue
        if isinstance(static, property):
            x = mk_array(env, spec, rand_shape(rng, rng.choice([2, 3])), dtype)
            out.append((lab, lambda x=x, n=n: getattr(x, n), {"x": describe(x)}))
            continue
        core = n.strip("_")
        base = core[1:] if core.startswith("r") and core[1:] in BINARY_DUNDERS and core not in BINARY_DUNDERS else core
        if n.startswith("__") and base in BINARY_DUNDERS:
            if base == "matmul":
                x, y = mk_array(env, spec, (4, 3), dtype, (2, 3)), mk_array(env, spec, (3, 2), dtype, (3, 1))
            else:
                x = mk_array(env, spec, None, dtype)
                y = rng.choice([mk_array(env, spec, x.shape, dtype), 2 if dtype != "bool" else True])
            if n.startswith("__r") and base != core:
                x, y = (y, x) if hasattr(y, "shape") else (x, y)
            out.append((lab, lambda x=x, y=y, n=n: getattr(x, n)(y), {"x": describe(x), "other": describe(y)}))
            continue
        if n in ("__neg__", "__pos__", "__abs__", "__invert__"):
            x = mk_array(env, spec, None, dtype)
            out.append((lab, lambda x=x, n=n: getattr(x, n)(), {"x": describe(x)}))
            continue
        if n == "__getitem__":
            x = mk_array(env, spec, (6, 4), dtype, (2, 2))
            keys = [(slice(1, 5), slice(None)), (2, slice(None, None, 2)), (Ellipsis, None), (slice(None, None, -1),),
                    (np.asarray([0, 3, 5]),)]
            k = rng.choice(keys)
            out.append((lab, lambda x=x, k=k: x[k], {"x": describe(x), "key": describe(k)}))
            ck = xp.asarray(np.asarray([0, 3, 5]), chunks=2, spec=spec)
            out.append((lab + "[cubed-key]", lambda x=x, ck=ck: x[ck], {"x": describe(x), "key": "cubed int array [0,3,5] chunks 2"}))
            continue
        if n == "__array_namespace__":
            x = mk_array(env, spec, None, dtype)
            out.append((lab, lambda x=x: x.__array_namespace__(), {}))
            continue
        if n in ("__repr__", "_repr_html_", "to_svg"):
            x = mk_array(env, spec, rand_shape(rng, 2), dtype)
            out.append((lab, lambda x=x, n=n: getattr(x, n)(), {"x": describe(x)}))
            continue
        if n == "_repr_inline_":
            x = mk_array(env, spec, None, dtype)
            out.append((lab, lambda x=x: x._repr_inline_(20), {}))
            continue
        if n == "rechunk":
            x = mk_array(env, spec, None, dtype)
            c = rand_chunks(rng, x.shape)
            out.append((lab, lambda x=x, c=c: x.rechunk(c), {"x": describe(x), "chunks": c}))
            continue
        if n == "plan":
            x = xp.negative(mk_array(env, spec, None, "float64"))
            og = rng.random() < 0.5
            out.append((lab, lambda x=x, og=og: x.plan(optimize_graph=og), {"x": "negative(" + str(describe(x)) + ")", "optimize_graph": og}))
            continue
        if n == "visualize":
            x = xp.negative(mk_array(env, spec, None, "float64"))
            f = os.path.join(env.viz_dir, "a%d" % rng.randrange(10 ** 9))
            fmt = rng.choice(["raw", "raw", "raw", None])
            out.append((lab, lambda x=x, f=f, fmt=fmt: x.visualize(filename=f, format=fmt), {"x": "negative(array)", "format": fmt}))
            continue
        if n == "compute":
            x = xp.negative(mk_array(env, spec, None, "float64"))
            out.append((lab, lambda x=x: x.compute(), {"x": "negative(array)"}))
            continue
        if n.startswith("_"):
            continue          # private helpers (_check_allowed_dtypes, _promote_scalar, _read_stored) are not public API
        env.uncovered[lab] = "no recipe for attribute"
    # BlockView indexing
    x = mk_array(env, spec, (6, 4), dtype, (2, 2))
    out.append(("Array.blocks[...]", lambda x=x: x.blocks[1:, 0], {"x": describe(x)}))
    return out


def namespace_variants(env, spec, dtype):
    """[(variant label, thunk, case)] for the module-level public names."""
    out = []
    for name, obj in public_functions():
        short = name.split(".")[-1]
        if inspect.isclass(obj):
            if short == "Spec":
                out.append(("Spec", lambda obj=obj: obj(work_dir=os.path.join(env.work_dir, "sub"), allowed_mem="100MB",
                                                         intermediate_store=None), {}))
            elif short == "__array_namespace_info__":
                def info(obj=obj):
                    i = obj()
                    return [getattr(i, m)() for m in ("capabilities", "default_device", "default_dtypes", "devices", "dtypes")]
                out.append(("__array_namespace_info__", info, {}))
            elif short in ("Callback", "TaskEndEvent", "Array") or obj.__module__.startswith(("numpy", "builtins")):
                out.append((name + " (class)", lambda: None, {}))
            else:
                env.uncovered[name] = "class without recipe"
            continue
        if not callable(obj):
            out.append((name + " (constant)", lambda obj=obj: repr(obj)[:10], {}))
            continue
        try:
            sp = special_args(env, short, spec, dtype)
        except DECLINE:
            try:                                   # the recipe's own helper arrays declined this dtype
                sp = special_args(env, short, spec, "float64")
            except DECLINE as e:
                env.uncovered[name] = "argument recipe raised %s" % type(e).__name__
                sp = []
        if sp is not None:
            for lab, args, kwargs in sp:
                if name.startswith("linalg.") and not lab.startswith("linalg."):
                    lab = "linalg." + lab
                out.append((lab, lambda obj=obj, args=args, kwargs=kwargs: obj(*args, **kwargs),
                            {"args": describe(args), "kwargs": describe(kwargs)}))
            continue
        try:
            args, kwargs = Args(env, spec, dtype).from_signature(short, obj)
        except Uncovered as e:
            env.uncovered[name] = str(e)
            continue
        except DECLINE:
            continue
        out.append((name, lambda obj=obj, args=args, kwargs=kwargs: obj(*args, **kwargs),
                    {"args": describe(args), "kwargs": describe(kwargs)}))
    return out


# ----------------------------------------------------------------------------------------------
# one evaluation
# ----------------------------------------------------------------------------------------------

def observe(env, thunk):
    """Run thunk under the detectors.  Returns dict(outcome, executed, effects, result)."""
    import cubed
    T = env.T
    m = T.DET.mark()
    fs0 = env.snapshot()
    keys0 = env.istore.raw_keys()
    res, outcome, tripped = None, "ok", False
    try:
        with warnings.catch_warnings():
            warnings.simplefilter("ignore")
            with cubed.raise_if_computes():
                res = thunk()
    except RuntimeError as e:
        if T.TRIP_MESSAGE in str(e):
            tripped, outcome = True, "tripped"
        else:
            outcome = "declined:RuntimeError"
    except DECLINE as e:
        outcome = "declined:" + type(e).__name__
    except Exception as e:  # anything else is still only "declined" for this property
        outcome = "declined:" + type(e).__name__
    # store events are attributed by store label: I = the sweep's intermediate store, Z = the from_zarr source,
    # S<n> = store/to_zarr targets of the sweep.  (R... = stores of the real runs: a real run that failed mid-way
    # leaves tasks running in the executor's threads — `shutdown(wait=False)` — whose late writes are not ours.)
    evs = [e for e in T.DET.since(m) if e[0] not in ("get", "set", "delete") or e[1][:1] in ("I", "Z", "S")]
    eff = T.effects(evs)
    executed = tripped or any(k == "execute" for k, _, _ in eff)
    store_eff = [e for e in eff if e[0] != "execute"]
    fsnew = env.snapshot() - fs0
    store_eff += [("fs-created",) + p for p in sorted(fsnew)]
    keys1 = env.istore.raw_keys()
    if keys0 is not None and keys1 is not None and keys1 != keys0 and not any(e[0] in ("set", "delete") for e in store_eff):
        store_eff.append(("store-keys-changed", "I", ",".join(sorted(keys1 ^ keys0))[:120]))
    return {"outcome": outcome, "executed": executed, "effects": store_eff, "result": res}


def arrays_in(res):
    import cubed
    if isinstance(res, cubed.Array):
        return [res]
    if isinstance(res, (list, tuple)):
        return [a for r in res for a in arrays_in(r)][:4]
    return []


def follow_up(env, ctx, label, case, res, viz_budget):
    """plan() and (sampled) visualize() of every array a lazy call returned."""
    arrs = arrays_in(res)
    if not arrs:
        return
    for i, a in enumerate(arrs[:2]):
        og = env.rng.random() < 0.7
        o = observe(env, lambda a=a, og=og: a.plan(optimize_graph=og))
        ctx.count({"plan_of": label, "case": case, "i": i, "optimize_graph": og}, nontrivial=o["outcome"] == "ok", kind="plan:" + o["outcome"].split(":")[0])
        judge(env, ctx, "plan() after " + label, dict(case, then="plan(optimize_graph=%s)" % og), o, expect_exec=False, record=False)
        if i == 0 and env.rng.random() < 0.6:
            # format "raw" = pydot writes the dot source itself (no graphviz subprocess, ~1 s each): used for most
            # visualize() calls; a budgeted sample goes through the real `dot` binary
            fmt = "raw"
            if viz_budget[0] > 0 and env.rng.random() < 0.15:
                viz_budget[0] -= 1
                fmt = env.rng.choice(["svg", "dot", None])
            f = os.path.join(env.viz_dir, "f%d" % env.rng.randrange(10 ** 9))
            sh = env.rng.random() < 0.3
            o = observe(env, lambda a=a, f=f, fmt=fmt, sh=sh: a.visualize(filename=f, format=fmt, optimize_graph=og, show_hidden=sh))
            ctx.count({"visualize_of": label, "case": case, "format": fmt, "show_hidden": sh}, nontrivial=o["outcome"] == "ok",
                      kind="visualize:" + o["outcome"].split(":")[0])
            judge(env, ctx, "visualize() after " + label, dict(case, then="visualize(format=%s, optimize_graph=%s)" % (fmt, og)), o,
                  expect_exec=False, record=False)


EXEC_VARIANTS = {"compute", "Array.compute", "store", "to_zarr", "measure_reserved_mem", "Array.__array__", "Array.__bool__",
                 "Array.__complex__", "Array.__float__", "Array.__index__", "Array.__int__", "Array.__getitem__[cubed-key]",
                 "take[cubed-indices]"}
"""The property's own list of variants that may execute (independent copy of the Lean `publicExec`; the oracle uses this
one, the correspondence compares the observation with the Lean one)."""


def judge(env, ctx, label, case, o, expect_exec, record=True):
    """Direct oracle on one observation."""
    case = dict(case, variant=label, outcome=o["outcome"])
    if o["effects"]:
        ctx.fail("%s: store side effect while building/planning/visualizing (no execution allowed to have started): %s"
                 % (label, o["effects"][:4]), case, key=None)
    if o["executed"] and not expect_exec:
        ctx.fail("%s: started an execution although it is not in the allowed list (compute / eager store / conversion / "
                 "cubed-array key / measure_reserved_mem)" % label, case, key=None)
    if record:
        env.attempted[label] = o["outcome"]
    if record and (o["outcome"] in ("ok", "tripped")):
        env.verdicts.setdefault(label, set()).add(bool(o["executed"]))
        env.accepted[label] = env.accepted.get(label, 0) + 1


def base_name(label):
    """'Array.__getitem__[cubed-key]' -> '__getitem__', 'linalg.qr' -> 'qr', 'to_zarr[compute=False]' -> 'to_zarr'."""
    return label.split("[")[0].split(" ")[0].split(".")[-1]


def sweep(env, ctx, rounds, viz_total, only=None):
    viz_budget = [viz_total]
    rng = env.rng
    for r in range(rounds):
        spec = env.spec()
        order = list(DTYPES)
        rng.shuffle(order)
        variants = []
        for dt in order[:1]:
            variants += namespace_variants(env, spec, dt) + array_variants(env, spec, dt)
        if only is not None:
            variants = [v for v in variants if base_name(v[0]) in only]
        pending = variants
        # second chance with another dtype for the calls that were declined
        for attempt, dt in enumerate(order):
            declined = []
            for label, thunk, case in pending:
                o = observe(env, thunk)
                case = dict(case, spec=env.spec_name(spec))
                ok = o["outcome"] in ("ok", "tripped")
                ctx.count({"call": label, "case": case}, nontrivial=ok, kind="call:" + o["outcome"])
                judge(env, ctx, label, case, o, expect_exec=label in EXEC_VARIANTS)
                if ok and not o["executed"]:
                    follow_up(env, ctx, label, case, o["result"], viz_budget)
                if not ok:
                    declined.append(label)
            if attempt + 1 >= len(order) or not declined:
                break
            nxt = order[attempt + 1]
            names = {d for d in declined if env.accepted.get(d, 0) == 0}
            if not names:
                break
            pending = [v for v in namespace_variants(env, spec, nxt) + array_variants(env, spec, nxt) if v[0] in names]


def programs(env, ctx, n, viz_total):
    """Compositions: random programs from exprgen built under the detectors, then plan/visualize."""
    import cubed.array_api as xp
    try:
        import exprgen
    except Exception as e:   # colleague's module not there: fall back to a tiny composer
        ctx.notes.append("exprgen not importable (%r): compositions from the built-in composer only" % (e,))
        exprgen = None
    viz_budget = [viz_total]
    for i in range(n):
        spec = env.spec()
        if exprgen is not None:
            try:
                p = exprgen.gen_program(env.rng, max_depth=3, max_inputs=2, max_elems=120, max_blocks=12)
            except Exception:
                continue
            case = {"program": p.describe()}
            thunk = lambda p=p, spec=spec: p.build(xp, spec)  # noqa: E731
            size = p.size()
        else:
            a = mk_array(env, spec, (4, 3), "float64", (2, 3))
            thunk = lambda a=a: [xp.sum(xp.add(xp.negative(a), a), axis=0)]  # noqa: E731
            case, size = {"program": "sum(add(negative(a), a), axis=0)"}, 3
        o = observe(env, thunk)
        case["spec"] = env.spec_name(spec)
        ctx.count({"program": case}, nontrivial=o["outcome"] == "ok" and size > 1, kind="program:" + o["outcome"].split(":")[0])
        judge(env, ctx, "program", case, o, expect_exec=False, record=False)
        if o["outcome"] == "ok":
            follow_up(env, ctx, "program", case, o["result"], viz_budget)


# ----------------------------------------------------------------------------------------------
# real runs: creation order on the store log, and the model's finalize against the real dag
# ----------------------------------------------------------------------------------------------

def label_of(store):
    return getattr(store, "label", None)


def target_token(t):
    from cubed.storage.store import is_storage_array
    from cubed.storage.zarr import LazyZarrArray
    if isinstance(t, LazyZarrArray):
        lab = label_of(t.store)
        return None if lab is None else "l:%s/%s" % (lab, t.path or "")
    if t is not None and is_storage_array(t):
        lab = label_of(getattr(t, "store", None))
        return None if lab is None else "e:%s/%s" % (lab, getattr(t, "path", "") or "")
    return "v"


def dag_request(fp):
    """Serialise the real finalized dag for the driver; None when a target lives in an untraced store."""
    dag = fp.dag
    ops, real_creates, real_createpred, empty = [], None, True, set()
    arrays_succ = set(dag.successors("arrays")) if "arrays" in dag else set()
    for n, d in dag.nodes(data=True):
        if d.get("type") != "op":
            continue
        if n == "create-arrays":
            real_creates = sorted((target_token(t) or "?")[2:] for t in d["pipeline"].mappable)
            continue
        pipeline = "primitive_op" in d
        nt = d["primitive_op"].num_tasks if pipeline else 0
        tg = []
        for a in dag.successors(n):
            tgt = dag.nodes[a].get("target")
            tok = target_token(tgt)
            if tok is None:
                return None
            tg.append(tok)
            if 0 in tuple(getattr(tgt, "shape", ()) or ()):
                empty.add(tok[2:])       # zero-size array: its tasks run but there is no chunk to write
        srcs = sorted({p for a in dag.predecessors(n) if a != "arrays" for p in dag.predecessors(a)})
        ops.append("%s,%d,%d,%s,%s" % (n, 1 if pipeline else 0, nt, "+".join(tg) or "-", "+".join(srcs) or "-"))
        if pipeline and "create-arrays" in dag and n not in arrays_succ:
            real_createpred = False
    return ";".join(ops), real_creates, real_createpred, empty


def event_tokens(events):
    from c16_trace import array_of, key_kind
    toks = []
    for kind, lab, key in events:
        if kind == "set":
            kk = key_kind(key)
            if kk == "meta":
                toks.append("m:%s/%s" % (lab, array_of(key)))
            elif kk == "chunk":
                toks.append("c:%s/%s" % (lab, array_of(key)))
            else:
                toks.append("c:%s/%s" % (lab, key))
        elif kind == "delete":
            toks.append("d:%s/%s" % (lab, key.replace(" ", "_")))
    return toks


def direct_trace_check(tokens):
    """Python-side oracle on the token list (independent of the Lean acceptor).  Returns None or a message."""
    depth, stack, created = 0, [], set()
    for i, t in enumerate(tokens):
        if t in ("N", "X"):
            stack.append(t == "X")
            depth += t == "X"
        elif t == "E":
            depth -= stack.pop()
        elif t.startswith("p:"):
            created.add(t[2:])
        elif t.startswith("m:"):
            if depth == 0:
                return "token %d: %s — array metadata written outside an executing call" % (i, t)
            created.add(t[2:])
        elif t.startswith("c:"):
            if depth == 0:
                return "token %d: %s — chunk written outside an executing call" % (i, t)
            if t[2:] not in created:
                return "token %d: %s — chunk written before the array was created" % (i, t)
        elif t.startswith("d:") and depth == 0:
            return "token %d: %s — delete outside an executing call" % (i, t)
    return None


def real_runs(env, ctx, n, with_lean):
    """Build an expression, plan/visualize it, then execute it for real through one of the allowed entry points,
    all under the tracing stores.  Returns (trace requests, exec requests, metadata) for the driver."""
    import numpy as np
    import zarr

    import cubed
    import cubed.array_api as xp
    T = env.T
    rng = env.rng
    out = []
    try:
        import exprgen
    except Exception:
        exprgen = None
    for i in range(n):
        mine = ("R%di" % i, "R%dt" % i)
        istore = T.memory_store(mine[0])
        spec = cubed.Spec(intermediate_store=istore, allowed_mem="200MB", reserved_mem=0,
                          executor_name=rng.choice(["threads", "single-threaded"]))
        T.DET.reset()
        tokens, steps = [], []

        def phase(tok, thunk, what):
            m = T.DET.mark()
            tokens.append(tok)
            steps.append(what)
            try:
                with warnings.catch_warnings():
                    warnings.simplefilter("ignore")
                    return thunk()
            finally:
                tokens.extend(event_tokens([e for e in T.DET.since(m) if e[1] in mine]))
                tokens.append("E")

        entry = rng.choice(["compute", "compute", "cubed.compute", "to_zarr", "store", "store-existing", "convert", "asarray", "cubed-key"])
        case = {"entry": entry, "executor": spec.executor_name, "i": i}
        try:
            if exprgen is not None and entry not in ("convert", "cubed-key") and rng.random() < 0.6:
                p = exprgen.gen_program(rng, max_depth=3, max_inputs=2, max_elems=100, max_blocks=9,
                                        dtypes=["int64", "float64", "bool"], n_outputs=1)
                case["program"] = p.describe()
                x = phase("N", lambda: p.build(xp, spec)[0], "build program")
                if x.ndim == 0 or 0 in x.shape:
                    x = phase("N", lambda: xp.add(xp.asarray(np.arange(6.0), chunks=2, spec=spec), 1.0), "build add")
                    case["program"] = "add(asarray(arange(6.), chunks=2), 1.)"
            else:
                shape = rand_shape(rng, rng.choice([1, 2]), 2, 6)
                ch = rand_chunks(rng, shape)
                case["program"] = "sum/negative/add over asarray(shape=%s, chunks=%s)" % (shape, ch)
                a = phase("N", lambda: xp.asarray(np_data(shape, "float64"), chunks=ch, spec=spec), "asarray")
                b = phase("N", lambda: xp.add(xp.negative(a), a[::-1] if rng.random() < 0.5 else a), "negative/add")
                x = phase("N", lambda: xp.sum(b, axis=0, keepdims=True) if rng.random() < 0.5 else xp.multiply(b, 2.0), "sum|multiply")
            og = rng.random() < 0.7
            case["optimize_graph"] = og
            if entry == "to_zarr":
                tgt = T.memory_store(mine[1])
                path = rng.choice([None, "out", "g/out"])
                case["path"] = path
                lazy = phase("N", lambda: cubed.to_zarr(x, tgt, path=path, compute=False), "to_zarr(compute=False)")
                fp = phase("N", lambda: lazy.plan(optimize_graph=og), "plan")
                phase("N", lambda: lazy.visualize(filename=os.path.join(env.viz_dir, "r%d" % i), format="raw", optimize_graph=og), "visualize")
                phase("X", lambda: lazy.compute(optimize_graph=og), "compute")
            elif entry in ("store", "store-existing"):
                tgt = T.memory_store(mine[1])
                if entry == "store-existing":
                    T.DET.on = False
                    try:
                        tgt = zarr.create_array(store=tgt, name="pre", shape=x.shape, dtype=x.dtype, chunks=x.chunksize)
                    finally:
                        T.DET.on = True
                    tokens.insert(0, "p:%s/pre" % mine[1])
                (lazy,) = phase("N", lambda: cubed.store([x], [tgt], compute=False), "store(compute=False)")
                fp = phase("N", lambda: lazy.plan(optimize_graph=og), "plan")
                phase("X", lambda: lazy.compute(optimize_graph=og), "compute")
            else:
                if entry == "convert":
                    x = phase("N", lambda: xp.sum(x), "sum")
                if entry == "cubed-key":
                    key = phase("N", lambda: xp.asarray(np.asarray([0, x.shape[0] - 1]), chunks=1, spec=spec), "key")
                    fp = phase("N", lambda: key.plan(), "plan(key)")
                    og = True
                    y = phase("X", lambda: x[key], "x[cubed key]")
                    phase("N", lambda: y.plan(), "plan(x[key])")
                else:
                    fp = phase("N", lambda: x.plan(optimize_graph=og), "plan")
                    phase("N", lambda: x.visualize(filename=os.path.join(env.viz_dir, "r%d" % i), format=rng.choice(["raw", "raw", "svg"]), optimize_graph=og), "visualize")
                    if entry == "compute":
                        phase("X", lambda: x.compute(optimize_graph=og), "compute")
                        if rng.random() < 0.3:
                            phase("X", lambda: x.compute(optimize_graph=og), "compute again")
                    elif entry == "cubed.compute":
                        phase("X", lambda: cubed.compute(x, optimize_graph=og), "cubed.compute")
                    elif entry == "convert":
                        fp = x.plan()
                        og = True
                        phase("X", lambda: float(x) if x.dtype.kind == "f" else complex(x) if x.dtype.kind == "c" else int(x), "float()/int()")
                    elif entry == "asarray":
                        fp = x.plan()
                        og = True
                        phase("X", lambda: np.asarray(x), "np.asarray")
        except DECLINE as e:
            ctx.count({"real": case, "declined": type(e).__name__}, nontrivial=False, kind="real:declined:" + type(e).__name__)
            continue
        case["steps"] = steps
        case["tokens"] = " ".join(tokens)[:1500]
        nchunk = sum(t.startswith("c:") for t in tokens)
        ctx.count({"real": case}, nontrivial=nchunk > 0, kind="real:" + entry)
        ctx.traces += 1
        msg = direct_trace_check(tokens)
        if msg:
            ctx.fail("real run: " + msg, case, key=None)
        req = dag_request(fp)
        out.append((case, tokens, req))
    return out


# ----------------------------------------------------------------------------------------------
# entry points
# ----------------------------------------------------------------------------------------------

_CACHE = {}


def run_all(ctx, scale=1):
    env = Env(ctx)
    try:
        fixed_corpus(env, ctx)
        slot_sweep(env, ctx, passes=ctx.budget(3, 6) * scale)
        sweep(env, ctx, rounds=ctx.budget(2, 14) * scale, viz_total=ctx.budget(8, 60) * scale)
        programs(env, ctx, ctx.budget(50, 800) * scale, viz_total=ctx.budget(4, 30) * scale)
        reals = real_runs(env, ctx, ctx.budget(12, 150) * scale, True)
        if env.uncovered:
            ctx.notes.append("uncovered public names (no argument recipe; reported, not failed): %s" % sorted(env.uncovered.items()))
        never = sorted((v, o) for v, o in env.attempted.items() if not env.accepted.get(v))
        ctx.extra["variants_called"] = len(env.verdicts)
        ctx.extra["variants_executing"] = sorted(v for v, s in env.verdicts.items() if True in s)
        if never:
            ctx.notes.append("variants never accepted: %s" % never)
        return env.verdicts, reals
    finally:
        env.close()


def corr(ctx):
    verdicts, reals = run_all(ctx)
    _CACHE[id(ctx)] = True
    ctx.notes.append("API-wide sweep = differential validation of the effect table (publicExec / site table), not proof")
    ctx.notes.append("scalar-slot corpus: a 0-d cubed array in a parameter the standard accepts arrays for must stay lazy (executing = "
                     "violation); in a parameter documented as a Python scalar (shape entries, axes, shifts, split_every, chunks, "
                     "num, n, slice bounds) the library's int()/operator.index()/float() is the property's 'conversion to an "
                     "in-memory value' and is only tallied (coverage.implicit_conversions_of_scalar_only_parameters)")
    # (1) effect table: observed "tried to execute" vs the model's list
    labels = sorted(verdicts)
    model_exec = ["compute", "Array.compute", "store", "to_zarr", "measure_reserved_mem", "Array.__array__", "Array.__bool__",
                  "Array.__complex__", "Array.__float__", "Array.__index__", "Array.__int__", "Array.__getitem__[cubed-key]",
                  "take[cubed-indices]"]
    ereqs = [(case, tokens, req) for case, tokens, req in reals if req is not None]
    # one driver invocation for all requests (Lean start-up dominates)
    batches = [["public|%s" % v for v in labels], ["public|%s" % v for v in model_exec],
               ["trace|" + " ".join(t) for _, t, _ in reals], ["exec|" + r[2][0] for r in ereqs]]
    flat = ctx.lean.drive(DRIVER, [r for b in batches for r in b])
    answers, k = [], 0
    for b in batches:
        answers.append(flat[k:k + len(b)])
        k += len(b)
    ans, ans_exec, tans, eans = answers
    for v, a in zip(labels, ans):
        obs = verdicts[v]
        want = {a == "exec"}
        if obs != want:
            ctx.disagree("publicExec (model effect table) = observed execution attempts under raise_if_computes",
                         {"variant": v}, a, "executes" if True in obs else "lazy")
    # every exec variant of the model must have been exercised and must have tripped the detector
    for v, a in zip(model_exec, ans_exec):
        if a != "exec":
            ctx.disagree("publicExec contains the property's allowed list", {"variant": v}, a, "exec")
        if v not in verdicts:
            ctx.disagree("every allowed-to-execute variant was exercised and tripped the detector", {"variant": v}, "exec", "never accepted")
    # (2) real traces through the model's acceptor; real dag through the model's finalize
    for (case, tokens, req), a in zip(reals, tans):
        want = "ok" if direct_trace_check(tokens) is None else "bad"
        if a.split(" ")[0] != want:
            ctx.disagree("traceOk (model acceptor) = direct check of the observed store trace", case, a, want)
    for (case, tokens, (ops, real_creates, real_createpred, empty)), a in zip(ereqs, eans):
        fields = dict(f.split("=", 1) for f in a.split("|") if "=" in f)
        model_creates = [x for x in fields.get("creates", "").split(",") if x]
        model_written = [x for x in fields.get("written", "").split(",") if x]
        metas = {t[2:] for t in tokens if t.startswith("m:")}
        chunks = sorted({t[2:] for t in tokens if t.startswith("c:")})
        pre = {t[2:] for t in tokens if t.startswith("p:")}
        info = dict(case, ops=ops[:600])
        if real_creates is not None and sorted(real_creates) != model_creates:
            ctx.disagree("finalize.creates = mappable of the real create-arrays op", info, model_creates, real_creates)
        if real_creates is None and model_creates:
            ctx.disagree("finalize.creates = [] when the real dag has no create-arrays op", info, model_creates, [])
        # arrays whose metadata was set = the create list (+ implicit parent groups); arrays with a structured dtype are
        # zarr groups with one member array per field: identify `<array>/<field>` with `<array>`
        known = set(model_creates) | pre | {t[2:] for op in ops.split(";") for t in op.split(",")[3].split("+") if t[:2] in ("l:", "e:")}

        def canon(name):
            for k in known:
                if name.startswith(k + "/"):
                    return k
            return name

        metas_c = {canon(m) for m in metas}
        chunks_c = sorted({canon(c) for c in chunks})
        extra = [m for m in metas_c if m not in model_creates and not any(c.startswith(m.rstrip("/") + "/") for c in known)]
        missing = [c for c in model_creates if c not in metas_c and c not in pre]
        if "compute again" not in case.get("steps", []) and (extra or missing):
            ctx.disagree("arrays created in the real run = finalize.creates", info, model_creates, sorted(metas_c))
        if [w for w in model_written if w not in empty] != [c for c in chunks_c if c not in empty]:
            ctx.disagree("arrays written in the real run = storage targets of the model's pipeline ops", info, model_written, chunks_c)
        if fields.get("createpred") != ("1" if real_createpred else "0"):
            ctx.disagree("create-arrays precedes every pipeline node", info, fields.get("createpred"), real_createpred)
        if fields.get("accepted") != "1":
            ctx.disagree("the model's own canonical execution log is accepted by traceOk", info, a, "accepted=1")
        ctx.dist["corr:exec-dag"] += 1


def oracle(ctx):
    if _CACHE.get(id(ctx)):
        return          # the sweep of corr() already evaluated the direct oracle on every observation
    run_all(ctx)        # Lean build broken: still evaluate the property directly on the implementation


def offending_sites():
    """Sites of the tree under test that are not in the baseline table (for search / notes)."""
    import common
    import extract_c16
    try:
        now = set(extract_c16.sites(common.REPO))
        base = set(extract_c16.sites("/repo")) if common.REPO != "/repo" else now
    except Exception:
        return []
    return sorted(now - base)


def search(ctx):
    """A proof obligation / correspondence relation no longer checks and the ordinary sweep saw no failing input:
    (1) call the public functions that enclose the new sites (and their public callers by name) many more times,
    (2) repeat the whole sweep with another seed and a larger budget."""
    new = offending_sites()
    ctx.rng.seed(ctx.seed + 7919)
    _CACHE.pop(id(ctx), None)
    if new:
        ctx.notes.append("sites not in the baseline table: %s" % new[:6])
        only = {s[1].split(".")[-1] for s in new} | {s[1].split(".")[0] for s in new}
        env = Env(ctx)
        try:
            sweep(env, ctx, rounds=ctx.budget(25, 60), viz_total=20, only=only)
        finally:
            env.close()
        if ctx.failures:
            return
    run_all(ctx, scale=3 if ctx.tier == "quick" else 1)


# ----------------------------------------------------------------------------------------------
# scalar slots: wherever a parameter takes a scalar, also try a 0-d cubed array
# ----------------------------------------------------------------------------------------------

ARRAY_SLOT = "array-ok"      # the array API standard (or cubed's own signature) accepts an array here: must stay lazy
SCALAR_SLOT = "scalar-only"  # documented as a Python scalar: a 0-d cubed array may be declined or implicitly converted


def zero_d(env, spec, value, kind):
    """A 0-d cubed array holding `value`: 'const' = asarray(value), 'data' = a data-dependent reduction."""
    import numpy as np

    import cubed.array_api as xp
    if kind == "const":
        return xp.asarray(value, spec=spec)
    if isinstance(value, bool):
        return xp.all(xp.asarray(np.asarray([value, value]), chunks=1, spec=spec))
    return xp.max(xp.asarray(np.asarray([value - 1, value]), chunks=1, spec=spec))


def slot_recipes(env, spec):
    """[(name, {slot: (python value, slot class)}, call(values) -> result)] — the fixed scalar-slot corpus."""
    import numpy as np

    import cubed
    import cubed.array_api as xp
    xf = xp.asarray(np_data((4, 3), "float64"), chunks=(2, 3), spec=spec)
    xi = xp.asarray(np_data((4, 3), "int64"), chunks=(2, 3), spec=spec)
    xb = xp.asarray(np_data((4, 3), "bool"), chunks=(2, 3), spec=spec)
    v = xp.asarray(np_data((6,), "float64"), chunks=(2,), spec=spec)
    sq = xp.asarray(np_data((4, 4), "float64"), chunks=(2, 2), spec=spec)
    A, S = ARRAY_SLOT, SCALAR_SLOT
    R = []
    # bounds of clip: the standard allows `int | float | array`
    R.append(("clip", {"min": (2, A), "max": (8, A)}, lambda s: xp.clip(xi, s["min"], s["max"])))
    R.append(("clip[float]", {"min": (1.5, A), "max": (4.5, A)}, lambda s: xp.clip(xf, s["min"], s["max"])))
    R.append(("clip[min only]", {"min": (2, A)}, lambda s: xp.clip(xi, min=s["min"])))
    R.append(("clip[max only]", {"max": (8, A)}, lambda s: xp.clip(xi, max=s["max"])))
    # scalars in binary elementwise functions and operators (either position)
    for name, fn in public_functions():
        if "." in name or not callable(fn) or inspect.isclass(fn):
            continue
        try:
            ps = list(inspect.signature(fn).parameters)
        except (TypeError, ValueError):
            continue
        if ps[:2] != ["x1", "x2"] or len(ps) != 2:
            continue
        for x, val, tag in ((xf, 2.0, "float"), (xi, 2, "int"), (xb, True, "bool")):
            R.append(("%s[%s,x2]" % (name, tag), {"x2": (val, A)}, lambda s, fn=fn, x=x: fn(x, s["x2"])))
            R.append(("%s[%s,x1]" % (name, tag), {"x1": (val, A)}, lambda s, fn=fn, x=x: fn(s["x1"], x)))
    for op in ("__add__", "__mul__", "__sub__", "__truediv__", "__pow__", "__lt__", "__eq__", "__radd__", "__rsub__", "__mod__"):
        R.append(("Array.%s" % op, {"other": (2.0, A)}, lambda s, op=op: getattr(xf, op)(s["other"])))
    R.append(("where", {"x1": (1.0, A), "x2": (2.0, A)}, lambda s: xp.where(xb, s["x1"], s["x2"])))
    R.append(("where[one array]", {"x2": (2.0, A)}, lambda s: xp.where(xb, xf, s["x2"])))
    R.append(("isin", {"x2": (2, A)}, lambda s: xp.isin(xi, s["x2"])))
    R.append(("searchsorted", {"x2": (2.5, A)}, lambda s: xp.searchsorted(v, s["x2"])))
    R.append(("asarray", {"obj": (5, A)}, lambda s: xp.asarray(s["obj"], spec=spec)))
    R.append(("astype", {"x": (5, A)}, lambda s: xp.astype(s["x"], xp.float32) if hasattr(s["x"], "shape") else None))
    R.append(("broadcast_to", {"x": (5, A)}, lambda s: xp.broadcast_to(s["x"], (2, 3)) if hasattr(s["x"], "shape") else None))
    R.append(("stack", {"a": (1.0, A), "b": (2.0, A)},
              lambda s: xp.stack([s["a"], s["b"]]) if hasattr(s["a"], "shape") and hasattr(s["b"], "shape") else None))
    R.append(("repeat", {"repeats": (2, A)}, lambda s: xp.repeat(v, s["repeats"], axis=0)))
    R.append(("diff[prepend/append]", {"prepend": (0.0, A)},
              lambda s: xp.diff(v, prepend=xp.reshape(s["prepend"], (1,))) if hasattr(s["prepend"], "shape") else None))
    R.append(("pad[constant_values]", {"constant_values": (0, S)},
              lambda s: cubed.pad(v, ((1, 1),), mode="constant", constant_values=s["constant_values"])))
    # documented as Python scalars
    R.append(("full", {"fill_value": (7, S)}, lambda s: xp.full((4, 3), s["fill_value"], chunks=(2, 3), spec=spec)))
    R.append(("full_like", {"fill_value": (7, S)}, lambda s: xp.full_like(xi, s["fill_value"])))
    R.append(("full[shape]", {"n": (4, S)}, lambda s: xp.full((s["n"], 3), 7, chunks=(2, 3), spec=spec)))
    R.append(("zeros[shape]", {"n": (4, S)}, lambda s: xp.zeros((s["n"],), chunks=(2,), spec=spec)))
    R.append(("arange", {"start": (0, S), "stop": (10, S), "step": (2, S)},
              lambda s: xp.arange(s["start"], s["stop"], s["step"], chunks=3, spec=spec)))
    R.append(("linspace", {"start": (0.0, S), "stop": (1.0, S), "num": (5, S)},
              lambda s: xp.linspace(s["start"], s["stop"], s["num"], chunks=2, spec=spec)))
    R.append(("eye", {"n_rows": (4, S), "k": (1, S)}, lambda s: xp.eye(s["n_rows"], k=s["k"], chunks=2, spec=spec)))
    R.append(("tril", {"k": (1, S)}, lambda s: xp.tril(sq, k=s["k"])))
    R.append(("triu", {"k": (1, S)}, lambda s: xp.triu(sq, k=s["k"])))
    R.append(("roll", {"shift": (1, S)}, lambda s: xp.roll(v, s["shift"], axis=0)))
    R.append(("roll[axis]", {"axis": (0, S)}, lambda s: xp.roll(v, 1, axis=s["axis"])))
    R.append(("tile", {"reps": (2, S)}, lambda s: xp.tile(v, (s["reps"],))))
    R.append(("reshape", {"n": (6, S)}, lambda s: xp.reshape(xf, (s["n"], 2))))
    R.append(("broadcast_to[shape]", {"n": (2, S)}, lambda s: xp.broadcast_to(v, (s["n"], 6))))
    R.append(("expand_dims", {"axis": (0, S)}, lambda s: xp.expand_dims(v, axis=s["axis"])))
    R.append(("squeeze", {"axis": (0, S)}, lambda s: xp.squeeze(xp.expand_dims(v, axis=0), s["axis"])))
    R.append(("flip", {"axis": (0, S)}, lambda s: xp.flip(xf, axis=s["axis"])))
    R.append(("moveaxis", {"source": (0, S), "destination": (1, S)}, lambda s: xp.moveaxis(xf, s["source"], s["destination"])))
    R.append(("permute_dims", {"a": (1, S), "b": (0, S)}, lambda s: xp.permute_dims(xf, (s["a"], s["b"]))))
    R.append(("concat[axis]", {"axis": (0, S)}, lambda s: xp.concat([xf, xf], axis=s["axis"])))
    R.append(("stack[axis]", {"axis": (0, S)}, lambda s: xp.stack([xf, xf], axis=s["axis"])))
    R.append(("unstack[axis]", {"axis": (0, S)}, lambda s: xp.unstack(xf, axis=s["axis"])))
    R.append(("take[axis]", {"axis": (0, S)}, lambda s: xp.take(xf, np.asarray([0, 2]), axis=s["axis"])))
    for red in ("sum", "mean", "max", "prod", "any", "argmax", "count_nonzero", "cumulative_sum", "nansum", "nanmean"):
        f = getattr(xp, red, None) or getattr(cubed, red, None)
        if f is None:
            continue
        R.append(("%s[axis]" % red, {"axis": (0, S)}, lambda s, f=f: f(xf, axis=s["axis"])))
    for red in ("sum", "mean", "max", "argmax"):
        R.append(("%s[split_every]" % red, {"split_every": (2, S)}, lambda s, f=getattr(xp, red): f(xf, axis=0, split_every=s["split_every"])))
    R.append(("var[correction]", {"correction": (1.0, S)}, lambda s: xp.var(xf, correction=s["correction"])))
    R.append(("std[correction]", {"correction": (1.0, S)}, lambda s: xp.std(xf, axis=0, correction=s["correction"])))
    R.append(("diff[n]", {"n": (1, S)}, lambda s: xp.diff(v, n=s["n"])))
    R.append(("vecdot[axis]", {"axis": (-1, S)}, lambda s: xp.vecdot(xf, xf, axis=s["axis"])))
    R.append(("tensordot[axes]", {"axes": (1, S)}, lambda s: xp.tensordot(xf, xp.matrix_transpose(xf), axes=s["axes"])))
    R.append(("rechunk", {"c": (2, S)}, lambda s: cubed.rechunk(xf, (s["c"], 3))))
    R.append(("asarray[chunks]", {"c": (2, S)}, lambda s: xp.asarray(np_data((4, 3), "float64"), chunks=(s["c"], 3), spec=spec)))
    R.append(("pad[pad_width]", {"w": (1, S)}, lambda s: cubed.pad(v, ((s["w"], 1),), mode="constant")))
    R.append(("random.random[size]", {"n": (4, S)}, lambda s: cubed.random.random((s["n"],), chunks=(2,), spec=spec)))
    # indexing: an integer-like cubed array as (part of) a key is the property's "indexing with a cubed array"
    R.append(("Array.__getitem__[int]", {"i": (1, "cubed-key")}, lambda s: xf[s["i"]]))
    R.append(("Array.__getitem__[slice bound]", {"i": (1, S)}, lambda s: xf[s["i"]:, :]))
    R.append(("take[indices]", {"i": (1, "cubed-key")}, lambda s: xp.take(v, s["i"])))
    return R


def slot_assignments(slots):
    """Which slots get a 0-d array, and of which kind: every single slot, all slots together (same kind and mixed)."""
    names = list(slots)
    out = []
    for kind in ("const", "data"):
        for n in names:
            out.append({n: kind})
        if len(names) > 1:
            out.append({n: kind for n in names})
    if len(names) > 1:
        out.append({n: ("const" if i % 2 == 0 else "data") for i, n in enumerate(names)})
        out.append({n: ("data" if i % 2 == 0 else "const") for i, n in enumerate(names)})
    return out


def slot_sweep(env, ctx, passes):
    """The fixed scalar-slot corpus.  Outcome classes per call: declined at build (TypeError/ValueError/...: fine),
    lazy result (fine), tried to execute: a violation for ARRAY_SLOT parameters; for SCALAR_SLOT parameters it is the
    implicit Python conversion (int()/float()/operator.index on the user's array, i.e. the property's "conversion to an
    in-memory value") and is only tallied; for cubed-key slots it is the allowed "indexing with a cubed array"."""
    viz_budget = [0]
    implicit = {}
    for p in range(passes):
        spec = [env.spec_a, env.spec_b, None][p % 3]
        try:
            recipes = slot_recipes(env, spec)
        except DECLINE as e:
            ctx.notes.append("scalar-slot corpus could not be built: %r" % (e,))
            return
        for name, slots, call in recipes:
            for assign in slot_assignments(slots):
                try:
                    values = {n: (zero_d(env, spec, val, assign[n]) if n in assign else val) for n, (val, _) in slots.items()}
                except DECLINE:
                    continue
                classes = {slots[n][1] for n in assign}
                label = "%s{%s}" % (name, ",".join("%s=0d-%s" % (n, assign[n]) for n in sorted(assign)))
                case = {"call": name, "zero_d_arguments": assign, "python_values": {n: v for n, (v, _) in slots.items()},
                        "spec": env.spec_name(spec),
                        "how": "0d-const = xp.asarray(value, spec=spec); 0d-data = xp.max(xp.asarray([value-1, value], chunks=1, spec=spec))"}
                o = observe(env, lambda call=call, values=values: call(values))
                ok = o["outcome"] in ("ok", "tripped")
                ctx.count({"slot": label, "spec": case["spec"]}, nontrivial=ok, kind="slot:" + o["outcome"].split(":")[0])
                allowed_exec = classes <= {SCALAR_SLOT, "cubed-key"}
                judge(env, ctx, label, case, o, expect_exec=allowed_exec, record=False)
                if o["executed"] and allowed_exec:
                    implicit[name] = sorted(classes)
                if ok and not o["executed"]:
                    follow_up(env, ctx, label, case, o["result"], viz_budget)
    if implicit:
        ctx.extra["implicit_conversions_of_scalar_only_parameters"] = implicit


def fixed_corpus(env, ctx):
    """Fixed scenarios (run on every check, all Spec flavours).  1-3: clip with 0-d array bounds as allowed by the array API
    standard (seeded change C16-1: an eager `min > max` sanity check went through Array.__bool__), each composed further
    (negative) and planned."""
    import numpy as np

    import cubed.array_api as xp

    def scen(kind, spec):
        x = xp.asarray(np.arange(12, dtype=np.int64).reshape(3, 4), chunks=(2, 2), spec=spec)
        if kind == "clip(x, asarray(3), asarray(8))":
            lo, hi = xp.asarray(3, dtype=xp.int64, spec=spec), xp.asarray(8, dtype=xp.int64, spec=spec)
        elif kind == "clip(x, min(x)+2, max(x)-2)":
            lo, hi = xp.add(xp.min(x), 2), xp.subtract(xp.max(x), 2)
        else:
            lo, hi = 3, xp.asarray(8, dtype=xp.int64, spec=spec)
        z = xp.negative(xp.clip(x, lo, hi))
        z.plan()
        return z

    region_store_corpus(env, ctx)
    for spec in (env.spec_b, env.spec_a, None):
        for kind in ("clip(x, asarray(3), asarray(8))", "clip(x, min(x)+2, max(x)-2)", "clip(x, 3, asarray(8))"):
            case = {"corpus": "negative(%s).plan()" % kind, "x": "asarray(arange(12).reshape(3,4), chunks=(2,2))", "spec": env.spec_name(spec)}
            o = observe(env, lambda kind=kind, spec=spec: scen(kind, spec))
            ctx.count(case, nontrivial=o["outcome"] == "ok", kind="corpus:" + o["outcome"].split(":")[0])
            judge(env, ctx, "corpus: " + kind, case, o, expect_exec=False, record=False)
            if o["outcome"] == "ok":
                follow_up(env, ctx, "corpus: " + kind, case, o["result"], [0])


def region_store_corpus(env, ctx):
    """Must-hold cases 4-6 (seeded change C16-2: `_store_array` opened a *location* target eagerly with mode="a" when a
    non-trivial region was given): a lazy region store into a location where nothing exists yet, then plan() and
    visualize(); neither the target location nor work_dir / the intermediate store may contain anything before compute.
    (Whether such a store later succeeds at compute is not C16's business.)"""
    import numpy as np

    import cubed
    import cubed.array_api as xp

    full = (slice(0, 4), slice(0, 4))
    scenarios = [
        ("to_zarr(b, <fresh location>, region=(slice(0,4),slice(0,4)), compute=False)",
         lambda b, tgt: cubed.to_zarr(b, tgt, region=full, compute=False)),
        ("store([b], [<fresh location>], regions=(slice(0,4),slice(0,4)), compute=False)",
         lambda b, tgt: cubed.store([b], [tgt], regions=full, compute=False)[0]),
        ("store([b], [<fresh location>], regions=[(slice(0,4),slice(0,4))], compute=False)",
         lambda b, tgt: cubed.store([b], [tgt], regions=[full], compute=False)[0]),
        ("to_zarr(b[:2,:], <fresh location>, path='sub/x', region=(slice(0,2),slice(0,4)), compute=False)",
         lambda b, tgt: cubed.to_zarr(b[:2, :], tgt, path="sub/x", region=(slice(0, 2), slice(0, 4)), compute=False)),
    ]
    for spec in (env.spec_b, env.spec_a, None):
        for what, build in scenarios:
            for target_kind in ("path", "store"):
                a = xp.asarray(np.arange(16, dtype=np.int64).reshape(4, 4), chunks=(2, 2), spec=spec)
                b = xp.add(a, 1)
                tgt = env.new_target_path() if target_kind == "path" else env.new_target_store()
                case = {"corpus": what, "a": "asarray(arange(16).reshape(4,4), chunks=(2,2))", "b": "add(a, 1)",
                        "target": "fresh directory path (does not exist)" if target_kind == "path" else "fresh empty zarr store object",
                        "spec": env.spec_name(spec)}
                o = observe(env, lambda build=build, b=b, tgt=tgt: build(b, tgt))
                ctx.count(case, nontrivial=o["outcome"] == "ok", kind="corpus-region:" + o["outcome"].split(":")[0])
                judge(env, ctx, "corpus: lazy region store", case, o, expect_exec=False, record=False)
                if o["outcome"] != "ok":
                    continue
                lazy = o["result"]
                for then, thunk in (("plan()", lambda: lazy.plan()),
                                    ("plan(optimize_graph=False)", lambda: lazy.plan(optimize_graph=False)),
                                    ("visualize(format='raw')", lambda: lazy.visualize(
                                        filename=os.path.join(env.viz_dir, "c%d" % env.rng.randrange(10 ** 9)), format="raw"))):
                    o2 = observe(env, thunk)
                    ctx.count(dict(case, then=then), nontrivial=o2["outcome"] == "ok", kind="corpus-region:" + then.split("(")[0])
                    judge(env, ctx, "corpus: lazy region store, then " + then, dict(case, then=then), o2, expect_exec=False, record=False)
                # independent of the event log: the location itself must still be empty / absent
                if target_kind == "path" and os.path.exists(tgt) and env.T.fs_snapshot(tgt):
                    ctx.fail("corpus: lazy region store left files in the target location before any execution: %s"
                             % sorted(env.T.fs_snapshot(tgt))[:4], case, key=None)
                if target_kind == "store" and tgt.raw_keys():
                    ctx.fail("corpus: lazy region store left keys in the target store before any execution: %s"
                             % sorted(tgt.raw_keys())[:4], case, key=None)
