"""C01 — computed values equal NumPy's for every expression, chunking and executor.

corr   : every non-blockwise op of real plans (targeted family generators + random exprgen programs) is recognised by
         the closure of its key function; the real `back_key_function` is evaluated on out coordinates and compared
         with the Lean key-function model (drivers/C01.lean); declared shape/chunks are compared with the formulas the
         theorems assume; the Lean whole-op semantics are evaluated on small integer arrays and compared with NumPy
         (and, for the modelled stack defect, with the real result).
oracle : exprgen programs: compute() / cubed.compute(a, b, ...) vs NumPy on distinct-valued data; executors
         {single-threaded, threads, processes (sampled)}; optimize_graph on/off; failures are shrunk; former triggers of repaired defects are must-hold regression cases.
"""
from __future__ import annotations

import itertools
import logging
import warnings
from collections.abc import Iterator

from treeproto import show_tree

DRIVER = "C01"
RULE = ("programs: exprgen (0-4 dims, dims 0-13, chunks 1..dim+1, 13 dtypes, 35 op families, DAGs of <=6 ops with sharing and "
        "1-3 outputs); executor in {single-threaded, threads, processes(sampled)} x optimize_graph in {on, off}; key-function "
        "correspondence on every out coordinate (<=48 per op) of every modelled op of targeted family expressions and of the "
        "random programs; non-trivial = more than one block in some array of the program / more than one out block of the op; "
        "distinct by JSON description")
ASSUMPTIONS = [
    "NumPy's kernel on one block is the reference function on that block (nxp.repeat/flip/concat/expand_dims/sum ...): modelled, validated by eval requests and the direct oracle",
    "zarr's OrthogonalIndexer on a regular grid yields the blocks containing selected elements, ascending per axis, C-order product: modelled (Ops.selBlocks), validated on every compared key function",
    "zarr chunk writes cut a too-large block to the chunk region and broadcast a size-1 dimension (Ops.bcastIndex): only matters for the OLD stack variant (theorem C01_stack_old_variant_fails); it was validated against the real results before f3856f5 and is no longer observable",
    "tree_reduce depth = ceil(log(nb, k)) is computed in floating point: the theorem takes the depth as given and assumes k^depth >= nb; checked on every reduction met",
    "reshape_chunks is only correct when dask's reshape_rechunk aligned the in/out blocks linearly (vendored code, not modelled): theorem covers the key function (bijection) only",
    "scan: one level is proved given the increment spec (recursion and the partial_reduce that builds the per-block totals are not unfolded); acceptance for every block count is proved and checked on 1..39 blocks",
    "float reductions are compared with tolerance (rounding depends on association); results downstream of a discontinuous op applied to such a value are not compared (exprgen.output_info 'unstable')",
]
TRUSTED = ["modelled not verified: zarr indexer and chunk write broadcasting, NumPy kernels per block, dask reshape_rechunk, float math.log in tree_reduce depth, dtype promotion"]

DECLINE = (ValueError, TypeError, NotImplementedError, IndexError)
MAXC = 48  # out coordinates compared per op


def _quiet():
    logging.getLogger("asyncio").setLevel(logging.CRITICAL)
    warnings.simplefilter("ignore")
    import numpy as np
    np.seterr(all="ignore")


def _spec():
    import cubed
    return cubed.Spec(allowed_mem="2GB", reserved_mem=0)


def nl(xs):
    xs = [int(x) for x in xs]
    return ",".join(map(str, xs)) if xs else "-"


def nll(xss):
    xss = list(xss)
    return ";".join(nl(x) for x in xss) if xss else "-"


# ----------------------------------------------------------------------------------------------
# recognising ops in a real plan
# ----------------------------------------------------------------------------------------------

def closure_vars(f):
    out = {}
    if getattr(f, "__closure__", None):
        for n, c in zip(f.__code__.co_freevars, f.__closure__):
            try:
                out[n] = c.cell_contents
            except ValueError:
                pass
    return out


def unwrap(f):
    """Strip general_blockwise's offsets wrapper; return (inner key function, has_offsets)."""
    q = getattr(f, "__qualname__", "")
    if "back_key_function_with_offset" in q:
        return closure_vars(f)["back_key_function"], True
    return f, False


def regular(chunks):
    from cubed.vendor.dask.array.core import _check_regular_chunks
    return _check_regular_chunks(chunks)


def sel_items(sel):
    """real selection tuple -> protocol items; None when not representable (negative / irregular)."""
    import numpy as np
    items = []
    for s in sel:
        if isinstance(s, slice):
            start = 0 if s.start is None else int(s.start)
            step = 1 if s.step is None else int(s.step)
            if s.stop is None or start < 0 or s.stop < 0 or step <= 0:
                return None
            items.append("s:%d:%d:%d" % (start, int(s.stop), step))
        elif isinstance(s, np.ndarray):
            if s.ndim != 1 or (s.size and int(s.min()) < 0):
                return None
            items.append("a:" + ".".join(str(int(v)) for v in s))
        elif isinstance(s, (int, np.integer)):
            if int(s) < 0:
                return None
            items.append("i:%d" % int(s))
        else:
            return None
    return items


def op_request(kf):
    """kf: inner key function of one op.  Returns (kind, fn(out_coords) -> request) or (kind, None) when the op
    is recognised but outside the model (irregular chunks ...), or (None, None) for blockwise / unknown ops."""
    q = getattr(kf, "__qualname__", "")
    cv = closure_vars(kf)
    if q.startswith("repeat.<locals>"):
        ax = cv["axis"]   # normalised by validate_axis since cfb5bf3
        return "repeat", lambda oc: "key|repeat|%d|%d|%s" % (cv["repeats"], ax, nl(oc))
    if q.startswith("stack.<locals>"):
        return "stack", lambda oc: "key|stack|%d|%s" % (cv["axis"], nl(oc))
    if q.startswith("unstack.<locals>"):
        x = cv["x"]
        return "unstack", lambda oc: "key|unstack|%d|%d|%s" % (cv["axis"], x.numblocks[cv["axis"]], nl(oc))
    if q.startswith("partial_reduce.<locals>"):
        x, se = cv["x"], cv["split_every"]
        ks = [se.get(i, 1) for i in range(x.ndim)]
        return "partial_reduce", lambda oc: "key|preduce|%s|%s|%s" % (nl(ks), nl(x.numblocks), nl(oc))
    if q.startswith("scan.<locals>"):
        return "scan", lambda oc: "key|scan|%d|%d|%s" % (cv["axis"], cv["split_every"], nl(oc))
    if q.startswith("reshape_chunks.<locals>"):
        x, t = cv["x"], cv["template"]
        return "reshape_chunks", lambda oc: "key|reshape|%s|%s|%s" % (nl(x.numblocks), nl(t.numblocks), nl(oc))
    if q.startswith("concat.<locals>"):
        arrays, axis, chunks, shape = cv["arrays"], cv["axis"], cv["chunks"], cv["shape"]
        from cubed.utils import to_chunksize
        if not all(regular(a.chunks) for a in arrays) or not regular(chunks):
            return "concat", None
        lens = [a.shape[axis] for a in arrays]
        ocs = to_chunksize(chunks)
        ics = [a.chunksize for a in arrays]
        if any(c == 0 for c in ocs) or any(c == 0 for cs in ics for c in cs):
            return "concat", None
        return "concat", lambda oc: "key|concat|%d|%s|%s|%s|%s|%s" % (axis, nl(lens), nl(shape), nl(ocs), nll(ics), nl(oc))
    if q.startswith("map_selection.<locals>"):
        x, sf = cv["x"], cv["selection_function"]
        sq = getattr(sf, "__qualname__", "")
        sv = closure_vars(sf)
        kind = "map_selection:" + sq.split(".")[0]
        if not cv["regular"] or any(c == 0 for c in x.chunksize):
            return kind, None
        if sq.startswith("flip.<locals>"):
            return kind, lambda oc: "key|flip|%s|%s|%s|%s" % (nl(x.shape), nl(x.chunksize), nl(sv["axis"]), nl(oc))
        if sq.startswith("_rechunk.<locals>") or sq.startswith("merge_chunks.<locals>"):
            tc = sv.get("normalized_copy_chunks", sv.get("target_chunks"))
            from cubed.utils import to_chunksize
            if not regular(tc):
                return kind, None
            cc = to_chunksize(tc)
            if any(c == 0 for c in cc):
                return kind, None
            return kind, lambda oc: "key|rechunk|%s|%s|%s|%s" % (nl(x.shape), nl(x.chunksize), nl(cc), nl(oc))
        if sq.startswith("index.<locals>"):
            items = sel_items(sv["selection"])
            if items is None:
                return kind, None
            tcs = sv["target_chunks"]
            return kind, lambda oc: "key|index|%s|%s|%s|%s" % (nl(x.chunksize), nll(tcs), ";".join(items) or "-", nl(oc))
        return kind, None
    return None, None


def canon_key(fa, src_names, virtual, oc):
    """Rename arrays positionally (a0, a1, ...), drop the virtual offsets key after checking it equals the out
    coordinates (map_blocks_block_id).  Returns (canonical string, offsets_ok)."""
    from cubed.primitive.blockwise import ChunkKey, FunctionArgs
    ok = [True]

    def conv(t):
        if isinstance(t, ChunkKey):
            if t.name in virtual:
                if tuple(t.coords) != tuple(oc):
                    ok[0] = False
                return None
            return ChunkKey("a%d" % src_names.index(t.name) if t.name in src_names else "?" + t.name, tuple(int(c) for c in t.coords))
        if isinstance(t, list):
            return [c for c in (conv(a) for a in t) if c is not None]
        if isinstance(t, tuple):
            return tuple(c for c in (conv(a) for a in t) if c is not None)
        if isinstance(t, Iterator):
            return iter([c for c in (conv(a) for a in t) if c is not None])
        return t

    args = [c for c in (conv(a) for a in fa.args) if c is not None]
    return show_tree(FunctionArgs(*args, output_name="out")), ok[0]


def plan_ops(arrs):
    """(op name, node data) of every primitive op in the plan(s) of the given arrays, in creation order."""
    seen = {}
    for a in arrs:
        dag = a._plan.dag
        for n, d in dag.nodes(data=True):
            if d.get("primitive_op") is not None and n not in seen:
                seen[n] = (d, dag)
    return [(n,) + seen[n] for n in sorted(seen)]


def collect_key_checks(ctx, arrs, case, reqs, metas):
    """Append one request per (modelled op, out coordinate) of the plans of `arrs`."""
    from cubed.primitive.blockwise import ChunkKey
    from cubed.storage.virtual import VirtualOffsetsArray
    for name, d, dag in plan_ops(arrs):
        po = d["primitive_op"]
        cfg = po.pipeline.config
        kf, has_off = unwrap(cfg.back_key_function)
        kind, mk = op_request(kf)
        if kind is None:
            continue
        if mk is None:
            ctx.dist["key:%s:outside-model" % kind] += 1
            continue
        srcs = list(po.source_array_names)
        # concat passes the same array several times: positional names follow the `arrays` argument
        virtual = {s for s in srcs if isinstance(dag.nodes[s].get("target"), VirtualOffsetsArray)}
        real_srcs = [s for s in srcs if s not in virtual]
        if kind == "concat":
            real_srcs = [a.name for a in closure_vars(kf)["arrays"]]
        elif kind == "stack":
            real_srcs = list(closure_vars(kf)["array_names"])
        coords = [tuple(int(c) for c in m) for m in itertools.islice(iter(po.pipeline.mappable), 5000)]
        ntot = len(coords)
        if len(coords) > MAXC:
            coords = ctx.rng.sample(coords, MAXC)
        outname = list(dag.successors(name))[0]
        for oc in coords:
            try:
                fa = cfg.back_key_function(ChunkKey(outname, oc))
                impl, off_ok = canon_key(fa, real_srcs, virtual, oc)
            except Exception as e:
                impl, off_ok = "raised %s" % type(e).__name__, True
            # the same array may be passed several times (tile): positional names are compared up to that aliasing
            alias = [real_srcs.index(nm) for nm in real_srcs]
            reqs.append(mk(oc))
            metas.append({"kind": kind, "case": case, "op": name, "out": list(oc), "impl": impl, "offsets_ok": off_ok,
                          "nblocks": ntot, "alias": alias})


class Batch:
    """Collect driver requests from all correspondence parts; one driver start for all of them."""

    def __init__(self):
        self.reqs, self.handlers = [], []

    def add(self, req, handler):
        self.reqs.append(req)
        self.handlers.append(handler)

    def run(self, ctx):
        ans = ctx.lean.drive(DRIVER, self.reqs)
        for a, h in zip(ans, self.handlers):
            h(a)
        for h in getattr(self, "finals", []):
            h()


def run_key_checks(ctx, reqs, metas, batch):
    def mk(rq, m):
        return lambda a: _key_answer(ctx, rq, a, m)
    for rq, m in zip(reqs, metas):
        batch.add(rq, mk(rq, m))
    ctx.traces += len(reqs)


def _key_answer(ctx, rq, a, m):
    ctx.count({"req": rq, "impl": m["impl"]}, nontrivial=m["nblocks"] > 1, kind="key:" + m["kind"])
    impl = m["impl"]
    a = _alias_norm(a, m["alias"])
    if a != impl:
        ctx.disagree("Ops key function (%s) = real back_key_function" % m["kind"],
                     {"request": rq, "program": m["case"], "op": m["op"]}, a, m["impl"])
    if not m["offsets_ok"]:
        ctx.disagree("offsets key = out coordinates (map_blocks_block_id)", {"request": rq, "program": m["case"]}, "out coords", "different")


def _alias_norm(s, alias):
    import re
    return re.sub(r"K:a(\d+):", lambda mm: "K:a%d:" % (alias[int(mm.group(1))] if int(mm.group(1)) < len(alias) else int(mm.group(1))), s)


# ----------------------------------------------------------------------------------------------
# targeted family expressions for the correspondence
# ----------------------------------------------------------------------------------------------

def rand_array(rng, xp, spec, ndim=None, dtype="int64", lo=1):
    import numpy as np
    ndim = ndim if ndim is not None else rng.choice([1, 1, 2, 2, 3])
    shape = tuple(rng.choice([lo, 2, 3, 4, 5, 6, 7, 9, 11, 13]) for _ in range(ndim))
    while int(np.prod(shape)) > 600:
        shape = tuple(max(1, s // 2) for s in shape)
    chunks = tuple(rng.randint(1, s + 1) if rng.random() < 0.8 else rng.choice([1, s]) for s in shape)
    a = np.arange(int(np.prod(shape)), dtype=dtype).reshape(shape)
    return a, xp.asarray(a, chunks=chunks, spec=spec), {"shape": list(shape), "chunks": list(chunks)}


def family_cases(ctx, n):
    """Yield (case description, [cubed arrays], numpy reference or None)."""
    import numpy as np

    import cubed
    import cubed.array_api as xp
    rng = ctx.rng
    spec = _spec()
    fams = ["repeat", "stack", "unstack", "reduce", "scan", "reshape", "flip", "rechunk", "index", "concat", "roll", "pad", "tile", "argreduce"]
    for i in range(n):
        fam = fams[i % len(fams)]
        try:
            an, a, desc = rand_array(rng, xp, spec)
            nd = an.ndim
            case = {"family": fam, "x": desc}
            if fam == "repeat":
                r, ax = rng.randint(1, 4), rng.randrange(nd)
                case.update(repeats=r, axis=ax)
                y, ref = xp.repeat(a, r, axis=ax), np.repeat(an, r, axis=ax)
                if y.shape != ref.shape or tuple(y.chunksize) != tuple(min(c, s) if s else c for c, s in zip(a.chunksize, y.shape)):
                    ctx.disagree("repeat declared shape/chunks", case, "shape n*r, chunksize of x", [y.shape, y.chunks])
            elif fam == "stack":
                k, ax = rng.randint(1, 3), rng.randint(0, nd)
                # inputs chunked differently from each other: unified to the first's chunking since f3856f5
                others = [xp.asarray(an + 1000 * (j + 1), chunks=a.chunksize if rng.random() < 0.4 else tuple(rng.randint(1, s_ + 1) for s_ in an.shape), spec=spec) for j in range(k)]
                case.update(n=k + 1, axis=ax)
                y, ref = xp.stack([a] + others, axis=ax), np.stack([an] + [an + 1000 * (j + 1) for j in range(k)], axis=ax)
                want = a.chunks[:ax] + ((1,) * (k + 1),) + a.chunks[ax:]
                if y.chunks != want:
                    ctx.disagree("stack declared chunks", case, want, y.chunks)
            elif fam == "unstack":
                ax = rng.randrange(nd)
                if an.shape[ax] > 8:
                    continue
                m = rng.randrange(an.shape[ax])
                case.update(axis=ax, which=m)
                y, ref = xp.unstack(a, axis=ax)[m], np.unstack(an, axis=ax)[m]
            elif fam == "reduce":
                axes = sorted(rng.sample(range(nd), rng.randint(1, nd)))
                se = rng.choice([None, 2, 3, 4, 5, 8])
                f = rng.choice(["sum", "max", "prod", "min"])
                case.update(func=f, axis=axes, split_every=se)
                y, ref = getattr(xp, f)(a, axis=tuple(axes), split_every=se), getattr(np, f)(an, axis=tuple(axes))
            elif fam == "argreduce":
                ax = rng.randrange(nd)
                se = rng.choice([None, 2, 3, 5])
                case.update(axis=ax, split_every=se)
                y, ref = xp.argmax(a, axis=ax, split_every=se), np.argmax(an, axis=ax)
            elif fam == "scan":
                ax = rng.randrange(nd)
                case.update(axis=ax)
                y, ref = xp.cumulative_sum(a, axis=ax), np.cumulative_sum(an, axis=ax)
            elif fam == "reshape":
                import exprgen
                shp = exprgen._factorizations(an.size, rng)
                case.update(newshape=shp)
                y, ref = xp.reshape(a, tuple(shp)), an.reshape(shp)
            elif fam == "flip":
                axes = sorted(rng.sample(range(nd), rng.randint(1, nd)))
                case.update(axis=axes)
                y, ref = xp.flip(a, axis=tuple(axes)), np.flip(an, axis=tuple(axes))
            elif fam == "rechunk":
                tc = tuple(rng.randint(1, s + 1) for s in an.shape)
                case.update(target=list(tc))
                y, ref = cubed.rechunk(a, tc), an
            elif fam == "index":
                import exprgen
                key = []
                used = False
                for d in range(nd):
                    s = an.shape[d]
                    r = rng.random()
                    if r < 0.15:
                        key.append({"t": "int", "v": rng.randrange(-s, s)})
                    elif r < 0.3 and not used:
                        used = True
                        key.append({"t": "array", "v": [rng.randrange(s) for _ in range(rng.randint(1, 6))]})
                    else:
                        key.append({"t": "slice", "v": exprgen._rand_slice(rng, s)})
                case.update(key=key)
                k = exprgen._key_from_json(key)
                y, ref = a[k], an[k]
            elif fam == "concat":
                ax = rng.randrange(nd)
                parts, refs = [a], [an]
                for j in range(rng.randint(1, 3)):
                    shp = list(an.shape)
                    shp[ax] = rng.choice([0, 1, 2, 3, 5, 8])
                    bn = np.arange(int(np.prod(shp)), dtype="int64").reshape(shp) + 1000 * (j + 1)
                    ch = tuple(rng.randint(1, s + 1) for s in shp)
                    parts.append(xp.asarray(bn, chunks=ch, spec=spec))
                    refs.append(bn)
                case.update(axis=ax, others=[list(r.shape) for r in refs[1:]], other_chunks=[list(p.chunksize) for p in parts[1:]])
                y, ref = xp.concat(parts, axis=ax), np.concat(refs, axis=ax)
            elif fam == "roll":
                ax = rng.randrange(nd)
                sh = rng.randint(-14, 14)
                case.update(axis=ax, shift=sh)
                y, ref = xp.roll(a, sh, axis=ax), np.roll(an, sh, axis=ax)
            elif fam == "pad":
                pw = tuple((rng.choice([0, 1, 2, 5]), rng.choice([0, 1, 3])) for _ in range(nd))
                case.update(pad_width=[list(p) for p in pw])
                y, ref = cubed.pad(a, pw, mode="constant"), np.pad(an, pw, mode="constant")
            elif fam == "tile":
                reps = tuple(rng.choice([1, 2, 3]) for _ in range(nd))
                case.update(reps=list(reps))
                y, ref = xp.tile(a, reps), np.tile(an, reps)
        except (DECLINE + (AssertionError, ZeroDivisionError)) as e:
            ctx.dist["corr:decline:" + fam] += 1
            continue
        yield case, [y], ref


def corr_scan_accepts(ctx, batch):
    """scan's build-time assertion vs `scanAccepts` (holds for every block count since 5fff6ae) and the chunk sizes
    declared for the per-block totals (`increment.chunks[axis]` of every level) vs `scanReducedSizes`."""
    import inspect

    import numpy as np

    import cubed.array_api as xp
    from cubed.core.ops import scan
    spec = _spec()
    S = inspect.signature(scan).parameters["split_every"].default   # 5 in the pinned tree
    nbs = list(range(1, 40)) if ctx.tier == "thorough" else sorted(set(ctx.rng.sample(range(1, 40), 12) + [5, 6, 7, 10, 11, 26]))
    for nb in nbs:
        c = ctx.rng.choice([1, 2])
        a = xp.asarray(np.arange(nb * c), chunks=c, spec=spec)
        try:
            y = xp.cumulative_sum(a)
            impl = "true"
        except AssertionError:
            y, impl = None, "false"

        def h(ans, nb=nb, impl=impl):
            ctx.count({"scan_accepts": nb, "impl": impl}, nontrivial=nb > 1, kind="accepts:scan")
            if ans != impl:
                ctx.disagree("scanAccepts = (no AssertionError in scan)", {"numblocks": nb}, ans, impl)
        batch.add("accepts|scan|%d|%d" % (S, nb), h)
        if y is None:
            continue
        for name, d, dag in plan_ops([y]):
            kf, _ = unwrap(d["primitive_op"].pipeline.config.back_key_function)
            if getattr(kf, "__qualname__", "").startswith("scan.<locals>"):
                cv = closure_vars(kf)
                ax = cv["axis"]
                level_nb = cv["scanned"].numblocks[ax]
                real = nl(cv["increment"].chunks[ax])

                def h2(ans, level_nb=level_nb, real=real):
                    ctx.count({"scan_reduced_sizes": level_nb, "impl": real}, nontrivial=level_nb > 1, kind="scan:reduced-sizes")
                    if ans != real:
                        ctx.disagree("scanReducedSizes = declared chunks of the increment array", {"numblocks": level_nb}, ans, real)
                batch.add("util|scanreduced|%d|%d" % (cv["split_every"], level_nb), h2)


def corr_utils(ctx, batch):
    """cubed/utils.py helpers the theorems speak about: offset_to_block_id / block_id_to_offset (C01_block_id_roundtrip),
    get_item over normalize_chunks (C01_get_item_regular)."""
    from cubed.utils import block_id_to_offset, get_item, normalize_chunks, offset_to_block_id
    rng = ctx.rng
    reqs, want = [], []
    for _ in range(ctx.budget(60, 400)):
        dims = [rng.randint(1, 6) for _ in range(rng.randint(1, 4))]
        tot = 1
        for d in dims:
            tot *= d
        off = rng.randrange(tot)
        reqs.append("util|unravel|%d|%s" % (off, nl(dims))); want.append(nl(offset_to_block_id(off, tuple(dims))))
        coords = [rng.randrange(d) for d in dims]
        reqs.append("util|ravel|%s|%s" % (nl(coords), nl(dims))); want.append(str(block_id_to_offset(tuple(coords), tuple(dims))))
        n, c = rng.randint(1, 40), rng.randint(1, 14)
        ch = normalize_chunks((c,), (n,), dtype="int64")
        reqs.append("util|chunks|%d|%d" % (n, c)); want.append(nl(ch[0]))
        b = rng.randrange(len(ch[0]))
        sl = get_item(ch, (b,))[0]
        reqs.append("util|getitem|%d|%d|%d" % (n, c, b)); want.append("%d,%d" % (sl.start, sl.stop))
    def h(rq, w):
        def f(a):
            ctx.count({"util": rq}, nontrivial=True, kind="util:" + rq.split("|")[1])
            if a != w:
                ctx.disagree("ArraySem.%s = cubed.utils" % rq.split("|")[1], {"request": rq}, a, w)
        return f
    for rq, w in zip(reqs, want):
        batch.add(rq, h(rq, w))


def corr_eval(ctx, batch):
    """Lean whole-op semantics on small integer arrays vs NumPy (validates the reference functions) and, for stack
    with mixed chunkings, vs the real result (the model models the code that exists)."""
    import numpy as np

    import cubed.array_api as xp
    rng = ctx.rng
    spec = _spec()
    reqs, want, info = [], [], []
    for _ in range(ctx.budget(10, 60)):
        n, c, r = rng.randint(1, 13), rng.randint(1, 14), rng.randint(1, 4)
        reqs.append("eval|repeat1|%d|%d|%d" % (n, c, r)); want.append(nl(np.repeat(np.arange(n), r))); info.append("np.repeat")
        reqs.append("eval|flip1|%d|%d" % (n, c)); want.append(nl(np.flip(np.arange(n)))); info.append("np.flip")
        tc = rng.randint(1, 14)
        reqs.append("eval|rechunk1|%d|%d|%d" % (n, c, tc)); want.append(nl(np.arange(n))); info.append("identity")
        start, step = rng.randint(0, n - 1), rng.randint(1, 5)
        stop = rng.randint(start + 1, n)
        reqs.append("eval|index1|%d|%d|%d|%d|%d" % (n, c, start, stop, step)); want.append(nl(np.arange(n)[start:stop:step])); info.append("slice")
        lens = [rng.choice([0, 1, 2, 3, 5, 8]) for _ in range(rng.randint(1, 4))]
        if sum(lens):
            ref = np.concatenate([1000 * i + np.arange(l) for i, l in enumerate(lens)])
            reqs.append("eval|concat1|%s|%d" % (nl(lens), c)); want.append(nl(ref)); info.append("np.concat")
        nb, k = rng.randint(1, 40), rng.randint(2, 5)
        d = 0
        while k ** d < nb:
            d += 1
        reqs.append("eval|tree|%d|%d|%d" % (nb, k, d)); want.append("1|" + nl(range(nb))); info.append("fold order")
        nb2 = rng.choice([1, 2, 3, 4, 5, 10, 15, 20])
        reqs.append("eval|scaninc|5|%d" % nb2); want.append(nl(range(nb2))); info.append("scan increment position")
        # unstack
        shp = [rng.randint(1, 5) for _ in range(rng.randint(1, 3))]
        cs = [rng.randint(1, s) for s in shp]
        ax = rng.randrange(len(shp))
        m = rng.randrange(shp[ax])
        A = np.arange(int(np.prod(shp))).reshape(shp)
        ref = np.unstack(A, axis=ax)[m]
        reqs.append("eval|unstack|%s|%s|%d|%d|%s" % (nl(shp), nl(cs), ax, m, nl(ref.shape))); want.append(nl(ref.ravel())); info.append("np.unstack")
        # stack, equal chunkings -> NumPy
        k2 = rng.randint(1, 3)
        ax2 = rng.randint(0, len(shp))
        arrs = [j * 1000 + A for j in range(k2)]
        ref = np.stack(arrs, axis=ax2)
        reqs.append("eval|stack|%d|%s|%s|%s" % (ax2, nll([shp] * k2), nll([cs] * k2), nl(ref.shape))); want.append(nl(ref.ravel())); info.append("np.stack")
    # stack with mixed chunkings (unified since f3856f5): model (stackUnified) vs the real result
    for _ in range(ctx.budget(6, 30)):
        n = rng.randint(2, 6)
        c0, c1 = rng.randint(1, n), rng.randint(1, n)
        a0 = np.arange(n)
        a1 = 1000 + np.arange(n)
        try:
            y = xp.stack([xp.asarray(a0, chunks=c0, spec=spec), xp.asarray(a1, chunks=c1, spec=spec)], axis=0)
            real = nl(np.asarray(y.compute()).ravel())
        except Exception:
            real = None
        reqs.append("eval|stack|0|%s|%s|%s" % (nll([[n], [n]]), nll([[c0], [c1]]), nl([2, n])))
        want.append(real)
        info.append("real stack (mixed chunks %d/%d)" % (c0, c1))
    # stack refuses inputs of different shapes
    for _ in range(ctx.budget(6, 30)):
        shapes = [[rng.randint(1, 3) for _ in range(2)] for _ in range(rng.randint(1, 3))]
        if rng.random() < 0.5:
            shapes = [shapes[0]] * len(shapes)
        try:
            xp.stack([xp.asarray(np.zeros(sh), chunks=1, spec=spec) for sh in shapes], axis=0)
            real = "true"
        except ValueError:
            real = "false"
        reqs.append("accepts|stack|%s" % nll(shapes))
        want.append(real)
        info.append("stack accepts equal shapes only")
    def h(rq, w, i):
        def f(a):
            ctx.count({"eval": rq}, nontrivial=True, kind="%s:%s" % (rq.split("|")[0], rq.split("|")[1]))
            if w is None:
                if "x" not in a.split(","):
                    ctx.disagree("stackUnified = real stack (real side raised)", {"request": rq}, a, "exception")
            elif a != w:
                ctx.disagree("Lean whole-op semantics = %s" % i, {"request": rq}, a, w)
        return f
    for rq, w, i in zip(reqs, want, info):
        batch.add(rq, h(rq, w, i))


def corr(ctx):
    _quiet()
    t0 = ctx.elapsed()
    reqs, metas = [], []
    ncase = 0
    for case, arrs, ref in family_cases(ctx, ctx.budget(140, 1000)):
        if arrs is None:
            continue
        collect_key_checks(ctx, arrs, case, reqs, metas)
        check_reduction_done(ctx, arrs, case)
        ncase += 1
    # random exprgen programs as well (any composition)
    import cubed.array_api as xp
    import exprgen
    spec = _spec()
    for _ in range(ctx.budget(40, 300)):
        p = exprgen.gen_program(ctx.rng)
        try:
            arrs = p.build(xp, spec)
        except Exception:
            continue
        collect_key_checks(ctx, arrs, p.describe(), reqs, metas)
        check_reduction_done(ctx, arrs, p.describe())
    t1 = ctx.elapsed()
    batch = Batch()
    run_key_checks(ctx, reqs, metas, batch)
    corr_scan_accepts(ctx, batch)
    corr_utils(ctx, batch)
    corr_eval(ctx, batch)
    t2 = ctx.elapsed()
    batch.run(ctx)
    ctx.notes.append("timing: corr started at %.0fs, building real plans %.0fs, real side of other relations %.0fs, driver %.0fs (%d requests)"
                     % (t0, t1 - t0, t2 - t1, ctx.elapsed() - t2, len(batch.reqs)))


def check_reduction_done(ctx, arrs, case):
    """After reduction's rounds the reduced axes must have a single block (k^depth >= nb held): observable on the
    array the last partial_reduce of a chain produces, when no further partial_reduce consumes it."""
    for name, d, dag in plan_ops(arrs):
        kf, _ = unwrap(d["primitive_op"].pipeline.config.back_key_function)
        if not getattr(kf, "__qualname__", "").startswith("partial_reduce.<locals>"):
            continue
        cv = closure_vars(kf)
        if cv["x"].ndim == 0:
            continue
        out = list(dag.successors(name))[0]
        consumers = [s for s in dag.successors(out)]
        is_last = True
        for c in consumers:
            po = dag.nodes[c].get("primitive_op")
            if po is not None:
                k2, _ = unwrap(po.pipeline.config.back_key_function)
                if getattr(k2, "__qualname__", "").startswith("partial_reduce.<locals>"):
                    is_last = False
        fn = dag.nodes[name].get("func_name", "")
        if is_last and fn not in ("cumulative_sum", "cumulative_prod", "nancumsum", "nancumprod"):
            x, se = cv["x"], cv["split_every"]
            nbs = [-(-x.numblocks[i] // se[i]) if i in se else x.numblocks[i] for i in range(x.ndim)]
            ctx.count({"reduce_done": case if isinstance(case, dict) and "family" in case else "program", "nbs": nbs}, nontrivial=True, kind="reduce:single-block")
            if any(nbs[i] != 1 for i in se):
                ctx.disagree("tree_reduce leaves one block per reduced axis (k^depth >= nb)", {"case": case, "op": name}, "1", nbs)


# ----------------------------------------------------------------------------------------------
# direct oracle: exprgen programs vs NumPy
# ----------------------------------------------------------------------------------------------

def make_executor(name):
    from cubed.runtime.create import create_executor
    if name == "processes":
        return create_executor("processes", {"max_workers": 2})
    return create_executor(name)


def run_program(p, executor_name="single-threaded", optimize=True, spec=None, build_only=False):
    """Returns (status, detail): status in ok | decline | build-error | exec-error | wrong."""
    import cubed
    import cubed.array_api as xp
    import exprgen
    spec = spec or _spec()
    try:
        ref = p.numpy()
        info = p.output_info()
    except exprgen.InvalidProgram as e:
        return "invalid", str(e)
    try:
        arrs = p.build(xp, spec)
    except DECLINE as e:
        return "decline", "%s: %s" % (type(e).__name__, str(e)[:80])
    except Exception as e:
        return "build-error", "%s: %s" % (type(e).__name__, str(e)[:80])
    if build_only:
        return "built", arrs
    try:
        ex = make_executor(executor_name)
        if len(arrs) == 1:
            res = [arrs[0].compute(executor=ex, optimize_graph=optimize)]
        else:
            res = list(cubed.compute(*arrs, executor=ex, optimize_graph=optimize))
    except DECLINE as e:
        # planning-time refusals surface here too (e.g. memory); execution failures are C17's concern
        return "exec-error", "%s: %s" % (type(e).__name__, str(e)[:80])
    except Exception as e:
        return "exec-error", "%s: %s" % (type(e).__name__, str(e)[:80])
    msgs = []
    for k, (r, a, i) in enumerate(zip(ref, res, info)):
        m = exprgen.compare_values(r, a, i)
        if m:
            msgs.append("output %d: %s" % (k, m))
    if msgs:
        return "wrong", "; ".join(msgs)[:300]
    return "ok", None


_POOL = None


def _pool():
    global _POOL
    if _POOL is None:
        import multiprocessing as mp
        import os
        w = max(2, min(6, (os.cpu_count() or 4) // 2))
        _POOL = mp.get_context("spawn").Pool(w)
    return _POOL


def _close_pool():
    global _POOL
    if _POOL is not None:
        _POOL.terminate()   # no atexit handlers in the workers (zarr's loop cleanup is noisy)
        _POOL.join()
        _POOL = None


def _worker(item):
    import common
    common.use_repo()
    _quiet()
    import exprgen
    desc, ex, opt = item
    st, det = run_program(exprgen.Program.from_description(desc), ex, opt)
    return st, det if isinstance(det, (str, type(None))) else None


def oracle_programs(ctx, n, families=None, n_proc=0, tag="oracle"):
    import exprgen
    rng = ctx.rng
    proc_left = n_proc
    items = []
    for i in range(n):
        p = exprgen.gen_program(rng, families=families)
        r = rng.random()
        if proc_left > 0 and i % max(1, n // max(1, n_proc)) == 0:
            ex = "processes"
            proc_left -= 1
        else:
            ex = "single-threaded" if r < 0.6 else "threads"
        opt = rng.random() < 0.6
        items.append((p, ex, opt))
    par = [(p.describe(), ex, opt) for p, ex, opt in items if ex != "processes"]
    if len(par) >= 24:
        res_par = _pool().map(_worker, par, chunksize=4)
    else:
        res_par = [_worker(it) for it in par]
    it_par = iter(res_par)
    for p, ex, opt in items:
        d = p.describe()
        if ex == "processes":
            status, detail = run_program(p, ex, opt)
        else:
            status, detail = next(it_par)
        nontrivial = any(-(-s // max(1, c)) > 1 for inp in d["inputs"] for s, c in zip(inp["shape"], inp["chunks"]))
        ctx.count({"program": d, "executor": ex, "optimize_graph": opt, "status": status}, nontrivial=nontrivial,
                  kind="%s:%s" % (tag, status))
        ctx.dist["executor:" + ex] += 1
        ctx.dist["optimize:" + ("on" if opt else "off")] += 1
        for f in p.families():
            ctx.dist["fam:" + f] += 1
        if status in ("decline", "build-error", "exec-error"):
            ctx.dist["%s:%s" % (status, (detail or "").split(":")[0])] += 1
        if status == "wrong":
            unlisted = sum(1 for f in ctx.failures if not (f["key"] and ctx.known(f["key"])))
            if unlisted >= 8:
                ctx.dist["wrong-not-shrunk(after 8 unlisted failures)"] += 1
                continue
            report_failure(ctx, p, ex, opt, detail, max_evals=250 if unlisted < 2 else 40)


def report_failure(ctx, p, ex, opt, detail, max_evals=250):
    import exprgen
    sh_ex = ex if ex != "processes" else "single-threaded"

    def still(q):
        return run_program(q, sh_ex, opt)[0] == "wrong"
    if ex == "processes" and not still(p):
        small = p  # only fails under processes: keep as is
        sh_ex = "processes"
    else:
        small = exprgen.shrink(p, still, max_evals=max_evals)
    st, det = run_program(small, sh_ex, opt)
    key = None   # no known findings are listed for C01: every wrong value is a violation
    if key is None:
        import json
        ctx.notes.append("unclassified failure: " + json.dumps({"program": small.describe(), "executor": sh_ex, "optimize_graph": opt, "what": det or detail})[:1500])
    ctx.fail("cubed returned a value different from NumPy: %s" % (det or detail),
             {"program": small.describe(), "executor": sh_ex, "optimize_graph": opt,
              "original_program": p.describe() if small.size() != p.size() else "same",
              "replay": "exprgen.Program.from_description(case['program']).build(cubed.array_api, spec) ; compare compute() with .numpy()"},
             key=key)


# defects that were repaired in /repo (fix: commits): their former triggers are must-hold regression cases.
# value = (program description, expected status): "ok" = computes the NumPy value, "decline" = explicit error at build time
def _prog(inputs, ops, outputs):
    return {"inputs": inputs, "ops": ops, "outputs": outputs}


def _inp(shape, chunks, dtype="int64", data="arange", salt=0):
    return {"shape": shape, "chunks": chunks, "dtype": dtype, "data": data, "salt": salt}


def _cumsum_blocks(nb):
    return (_prog([_inp([2 * nb - 1, 3], [2, 2])],
                  [{"op": "cumulative_sum", "family": "cumulative", "in": [0], "params": {"axis": 0}}], [1]), "ok")


FIXED_TRIGGERS = {
    # 2fe4874 "fix: flip the right axis when a negative-step slice follows an integer index"
    "index-negstep-after-int": (_prog([_inp([2, 3, 4], [1, 2, 3])],
                                      [{"op": "index", "family": "index", "in": [0], "params": {"key": [{"t": "int", "v": 0}, {"t": "slice", "v": [None, None, -1]}, {"t": "slice", "v": [None, None, None]}]}}], [1]), "ok"),
    "index-negstep-after-two-ints": (_prog([_inp([2, 3, 4, 5], [1, 2, 3, 2])],
                                           [{"op": "index", "family": "index", "in": [0], "params": {"key": [{"t": "int", "v": 1}, {"t": "slice", "v": [None, None, -2]}, {"t": "int", "v": -1}, {"t": "slice", "v": [4, 0, -1]}]}}], [1]), "ok"),
    # f3856f5 "fix: stack checks input shapes and unifies input chunks"
    "stack-mixed-chunks": (_prog([_inp([2], [2]), _inp([2], [1], salt=1)],
                                 [{"op": "stack", "family": "stack", "in": [0, 1], "params": {"axis": 0}}], [2]), "ok"),
    "stack-mixed-chunks-2d": (_prog([_inp([5, 4], [2, 3]), _inp([5, 4], [3, 1], salt=1), _inp([5, 4], [5, 4], salt=2)],
                                    [{"op": "stack", "family": "stack", "in": [1, 0, 2], "params": {"axis": 1}}], [3]), "ok"),
    # 19968d0 "fix: qr/svd reject row chunks with fewer rows than columns"
    "qr-short-row-chunk": (_prog([_inp([9, 4], [4, 4], "float64", "perm:0")],
                                 [{"op": "qr", "family": "qr", "in": [0], "params": {"part": "recon"}}], [1]), "decline"),
    "qr-wide": (_prog([_inp([1, 2], [2, 2], "float64", "perm:0")],
                      [{"op": "qr", "family": "qr", "in": [0], "params": {"part": "gram"}}], [1]), "decline"),
    "qr-full-row-chunks": (_prog([_inp([8, 4], [4, 4], "float64", "perm:0")],
                                 [{"op": "qr", "family": "qr", "in": [0], "params": {"part": "recon"}}], [1]), "ok"),
    # a0e6d48 "fix: vecdot conjugates its first argument for complex inputs"
    "vecdot-complex": (_prog([_inp([2], [1], "complex128")],
                             [{"op": "vecdot", "family": "vecdot", "in": [0, 0], "params": {"axis": -1}}], [1]), "ok"),
    # seeded/C01-1: vecdot's axis counts from the END of each operand; operands of different rank broadcast
    "vecdot-v-m": (_prog([_inp([3], [2], "float64", "perm:1"), _inp([3, 3], [2, 2], "float64", "perm:2", 1)],
                         [{"op": "vecdot", "family": "vecdot", "in": [0, 1], "params": {"axis": -1}}], [2]), "ok"),
    "vecdot-v-t-default-axis": (_prog([_inp([3], [1], "float64", "perm:1"), _inp([2, 3, 3], [1, 2, 3], "float64", "perm:3", 1)],
                                      [{"op": "vecdot", "family": "vecdot", "in": [0, 1], "params": {"axis": None}}], [2]), "ok"),
    "vecdot-m-t": (_prog([_inp([3, 3], [2, 2], "int64", "perm:4"), _inp([2, 3, 3], [1, 2, 2], "int64", "perm:5", 1)],
                         [{"op": "vecdot", "family": "vecdot", "in": [0, 1], "params": {"axis": -1}}], [2]), "ok"),
    "vecdot-m-t-axis-2": (_prog([_inp([3, 3], [2, 2], "int64", "perm:4"), _inp([2, 3, 3], [1, 2, 2], "int64", "perm:5", 1)],
                                [{"op": "vecdot", "family": "vecdot", "in": [0, 1], "params": {"axis": -2}}], [2]), "ok"),
    "vecdot-t-m (x2 lower)": (_prog([_inp([2, 3, 3], [2, 1, 3], "int64", "perm:6"), _inp([3, 3], [3, 1], "int64", "perm:7", 1)],
                                    [{"op": "vecdot", "family": "vecdot", "in": [0, 1], "params": {"axis": -1}}], [2]), "ok"),
    "vecdot-v-w": (_prog([_inp([3], [2], "float64", "perm:1"), _inp([4, 3], [3, 2], "float64", "perm:8", 1)],
                         [{"op": "vecdot", "family": "vecdot", "in": [0, 1], "params": {"axis": -1}}], [2]), "ok"),
    # 3b811ad "fix: mean rejects non-numeric (bool) input" (var/std already did): never a value for bool operands
    "mean-bool": (_prog([_inp([4], [2], "bool")],
                        [{"op": "mean", "family": "reduce", "in": [0], "params": {"axis": None, "keepdims": False, "split_every": None}}], [1]), "decline"),
    "mean-bool-empty-axis": (_prog([_inp([0], [1], "bool")],
                                   [{"op": "mean", "family": "reduce", "in": [0], "params": {"axis": [0], "keepdims": False, "split_every": None}}], [1]), "decline"),
    "var-bool": (_prog([_inp([4], [2], "bool")],
                       [{"op": "var", "family": "reduce", "in": [0], "params": {"axis": 0, "keepdims": False, "split_every": None, "correction": 0}}], [1]), "decline"),
    "std-bool": (_prog([_inp([2, 3], [1, 2], "bool")],
                       [{"op": "std", "family": "reduce", "in": [0], "params": {"axis": 1, "keepdims": True, "split_every": None, "correction": 0}}], [1]), "decline"),
    # cfb5bf3 "fix: repeat normalizes a negative axis and handles zero or negative repeats"
    "repeat-axis--1": (_prog([_inp([3, 5], [2, 2])],
                             [{"op": "repeat", "family": "repeat", "in": [0], "params": {"repeats": 2, "axis": -1}}], [1]), "ok"),
    "repeat-axis--2": (_prog([_inp([3, 2], [2, 2])],
                             [{"op": "repeat", "family": "repeat", "in": [0], "params": {"repeats": 3, "axis": -2}}], [1]), "ok"),
    "repeat-axis--3-of-3d": (_prog([_inp([2, 3, 4], [1, 2, 3])],
                                   [{"op": "repeat", "family": "repeat", "in": [0], "params": {"repeats": 2, "axis": -3}}], [1]), "ok"),
    "repeat-0": (_prog([_inp([5], [2])],
                       [{"op": "repeat", "family": "repeat", "in": [0], "params": {"repeats": 0, "axis": 0}}], [1]), "ok"),
    "repeat-0-axis-None-2d": (_prog([_inp([2, 3], [2, 3])],
                                    [{"op": "repeat", "family": "repeat", "in": [0], "params": {"repeats": 0, "axis": None}}], [1]), "ok"),
    # 8c5c994 / d18946b / 6c5075b: clip with only a lower bound, var/std of 0-d arrays, split_every dict values < 2
    "clip-min-only-scalar": (_prog([_inp([7], [3])],
                                   [{"op": "clip", "family": "clip", "in": [0], "params": {"lo": 1, "hi": None, "lo_arg": None, "hi_arg": None}}], [1]), "ok"),
    "clip-min-only-array": (_prog([_inp([4, 5], [3, 2]), _inp([5], [2], salt=1)],
                                  [{"op": "clip", "family": "clip", "in": [0, 1], "params": {"lo": None, "hi": None, "lo_arg": 1, "hi_arg": None}}], [2]), "ok"),
    "var-0d": (_prog([_inp([], [], "float64", salt=3)],
                     [{"op": "var", "family": "reduce", "in": [0], "params": {"axis": None, "keepdims": False, "split_every": None, "correction": 0}}], [1]), "ok"),
    "std-0d": (_prog([_inp([], [], "float64", salt=3)],
                     [{"op": "std", "family": "reduce", "in": [0], "params": {"axis": None, "keepdims": True, "split_every": None, "correction": 0}}], [1]), "ok"),
    "sum-split_every-{0:1}": (_prog([_inp([7, 3], [2, 2], "int64")],
              [{"op": "sum", "family": "reduce", "in": [0], "params": {"axis": 0, "keepdims": False, "split_every": {"0": 1}}}], [1]), "decline"),
    "sum-split_every-{0:0}": (_prog([_inp([7, 3], [2, 2], "int64")],
              [{"op": "sum", "family": "reduce", "in": [0], "params": {"axis": 0, "keepdims": False, "split_every": {"0": 0}}}], [1]), "decline"),
    "max-split_every-{0:1}": (_prog([_inp([7, 3], [2, 2], "int64")],
              [{"op": "max", "family": "reduce", "in": [0], "params": {"axis": 0, "keepdims": False, "split_every": {"0": 1}}}], [1]), "decline"),
    "max-split_every-{1:0}": (_prog([_inp([7, 3], [2, 2], "int64")],
              [{"op": "max", "family": "reduce", "in": [0], "params": {"axis": 1, "keepdims": False, "split_every": {"1": 0}}}], [1]), "decline"),
    "mean-split_every-{0:1}": (_prog([_inp([7, 3], [2, 2], "float64")],
              [{"op": "mean", "family": "reduce", "in": [0], "params": {"axis": 0, "keepdims": False, "split_every": {"0": 1}}}], [1]), "decline"),
    "mean-split_every-{0:0}": (_prog([_inp([7, 3], [2, 2], "float64")],
              [{"op": "mean", "family": "reduce", "in": [0], "params": {"axis": 0, "keepdims": False, "split_every": {"0": 0}}}], [1]), "decline"),
    "sum-split_every-int-1": (_prog([_inp([7, 3], [2, 2])],
                                    [{"op": "sum", "family": "reduce", "in": [0], "params": {"axis": 0, "keepdims": False, "split_every": 1}}], [1]), "ok"),
    "sum-split_every-dict-3": (_prog([_inp([7, 3], [2, 2])],
                                     [{"op": "sum", "family": "reduce", "in": [0], "params": {"axis": [0, 1], "keepdims": False, "split_every": {"0": 3}}}], [1]), "ok"),
    # d99e354 "fix: hypot only accepts real floating-point dtypes"
    "hypot-int": (_prog([_inp([2], [1], salt=3)],
                        [{"op": "hypot", "family": "binary", "in": [0, 0], "params": {"_k": "binary"}}], [1]), "decline"),
    # bb56857 "fix: var/std clamp the degrees of freedom at zero"
    "var-correction-gt-n": (_prog([_inp([1, 1], [1, 1], "float64")],
                                  [{"op": "var", "family": "reduce", "in": [0], "params": {"axis": 1, "keepdims": False, "split_every": None, "correction": 2}}], [1]), "ok"),
    "std-empty-axis-correction": (_prog([_inp([2, 0], [1, 1], "float64")],
                                        [{"op": "std", "family": "reduce", "in": [0], "params": {"axis": 1, "keepdims": False, "split_every": None, "correction": 1}}], [1]), "ok"),
    # 5fff6ae "fix: scan handles block counts that are not a multiple of the group size"
    "cumsum-6-blocks": _cumsum_blocks(6),
    "cumsum-7-blocks": _cumsum_blocks(7),
    "cumsum-11-blocks": _cumsum_blocks(11),
    "cumsum-26-blocks": _cumsum_blocks(26),
    "cumprod-12-blocks": (_prog([_inp([12], [1], "int64")],
                                [{"op": "cumulative_prod", "family": "cumulative", "in": [0], "params": {"axis": 0}}], [1]), "ok"),
}


def known_triggers(ctx):
    """Former triggers of repaired defects: a wrong value, an execution error or a missing decline is an unlisted failure."""
    import exprgen
    for name, (d, want) in FIXED_TRIGGERS.items():
        p = exprgen.Program.from_description(d)
        for ex, opt in (("single-threaded", True), ("threads", False)):
            st, det = run_program(p, ex, opt)
            ctx.count({"fixed_trigger": name, "executor": ex, "status": st}, nontrivial=True, kind="fixed-trigger:" + st)
            if st != want:
                ctx.fail("repaired defect is back (%s): expected %s, got status %s %s" % (name, want, st, det or ""),
                         {"program": d, "executor": ex, "optimize_graph": opt}, key=None)
            if want == "decline":
                break


def replay(ctx, body):
    """./check C01 --replay replays/C01-<seed>-failing-input.json : rerun the stored program."""
    import exprgen
    _quiet()
    case = body.get("case", {})
    if "program" not in case:
        print("replay: no program in this file (broken obligation / correspondence): ", str(body.get("no_longer_checks"))[:300])
        return
    p = exprgen.Program.from_description(case["program"])
    st, det = run_program(p, case.get("executor", "single-threaded"), case.get("optimize_graph", True))
    print("replay: status=%s %s" % (st, det or ""))
    print("replay: NumPy gives", [v.tolist() if v.size <= 64 else v.shape for v in p.numpy()])
    if st == "wrong":
        ctx.fail("replayed: %s" % det, case, key=None)


def oracle(ctx):
    _quiet()
    t0 = ctx.elapsed()
    known_triggers(ctx)
    ctx.notes.append("timing: known triggers %.0fs" % (ctx.elapsed() - t0))
    oracle_programs(ctx, ctx.budget(110, 1100), n_proc=ctx.budget(2, 10))
    # the op families behind the modelled key functions, more densely
    dense = ["repeat", "flip", "index", "take", "concat", "roll", "tile", "pad", "stack", "unstack", "reduce", "argreduce",
             "cumulative", "reshape", "rechunk", "matmul", "searchsorted", "vecdot", "tensordot", "where"]
    oracle_programs(ctx, ctx.budget(90, 900), families=dense + ["binary", "unary"], tag="dense")
    _close_pool()
    ctx.notes.append("timing: oracle total %.0fs" % (ctx.elapsed() - t0))


def search(ctx):
    _quiet()
    ctx.rng.seed(ctx.seed + 7919)
    fams = set()
    relmap = {"repeat": ["repeat"], "stack": ["stack"], "unstack": ["unstack"], "partial_reduce": ["reduce", "argreduce", "matmul", "tensordot"],
              "scan": ["cumulative"], "reshape_chunks": ["reshape", "roll", "repeat", "take"], "concat": ["concat", "roll", "tile", "pad"],
              "map_selection": ["index", "take", "flip", "rechunk", "roll", "pad", "reshape"], "offsets": ["repeat", "flip", "index", "concat", "argreduce", "cumulative"],
              "tree_reduce": ["reduce", "argreduce"], "semantics": ["repeat", "flip", "index", "concat", "stack", "unstack", "reduce"]}
    for dg in ctx.disagreements:
        for k, v in relmap.items():
            if k in dg["relation"]:
                fams.update(v)
    fams = sorted(fams) or None
    oracle_programs(ctx, 500 if ctx.tier == "quick" else 1500, families=fams, tag="search")
    if not any(f["key"] is None for f in ctx.failures):
        oracle_programs(ctx, 300, tag="search-all")
    _close_pool()
