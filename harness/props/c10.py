"""C10 — a lazy array's value is fixed when built; inputs and earlier outputs stay intact.

corr   : random API histories (harness/histgen.py) run on the real API and replayed on the Lean History model
         (drivers/C10.lean).  Compared per call: outcome (built / invalid / failed / values / stored), the values
         (model terms evaluated with NumPy, fill = 0), the set of locations the plan creates and the set its executed
         ops write (canonicalised to pool position / target id), the contents of every store target, and the model's
         `Linked` flag against the syntactic late-re-targeting pattern.
oracle : independent of Lean.  The same kind of histories with a NumPy shadow fixed at build time: every compute must
         return the shadow; eager store targets must hold the shadow; in-memory inputs, Zarr sources and targets
         written by earlier store calls are checksummed after every call; compute / plan / visualize must not change
         any array's dag (nodes, edges, op objects, proxies).  Failures are shrunk and classified.
"""
from __future__ import annotations

import copy
import json

import histgen as H

DRIVER = "C10"
RULE = ("API histories of 6-22 calls over a growing pool (<= ~25 arrays of shape (2,4), chunkings (1,2)/(2,2)): sources "
        "{asarray, from_array, external from_zarr, from_zarr of an earlier target}, derive {map_blocks with 1-3 operands incl. "
        "repeats, rechunk}, compute {1-3 arrays, optimize on/off, resume on/off, method/function, default / single-threaded / "
        "threads executor; 1/3 of them re-request an earlier-computed array together with its (possibly never written) ancestors, mostly with resume}, store/to_zarr {1-2 pairs, eager/lazy, lazy and non-lazy sources}, plan / visualize / default-executor "
        "change; 1/3 of the correspondence histories and 1/8 of the oracle histories may store a lazy array that already has "
        "dependants (the known defect), plus a fixed corpus (run first) of 13 branching-graph resume histories (one branch computed with its shared intermediate fused away, a sibling derived, both / a combination computed with resume, optimize on/off, single-threaded/threads) and 12 resume-over-shared-sub-graph histories; 30% of the random computes are such sibling bursts and the 2 defect witnesses; the rest satisfy the hypothesis of C10_partial; non-trivial = history with at least one "
        "compute over a derived array and one store; distinct by request text")
ASSUMPTIONS = [
    "C10_partial hypothesis NoLate: no call stores (store/to_zarr, lazy-source branch of _store_array) a lazy array from which another array was already derived — decidable, evaluated along the history; its failure on the unchanged code is the KNOWN finding",
    "store targets are fresh paths (never a source path, never reused) — enforced by the generator, `invalid` in the model otherwise",
    "array names are unique within the process (gensym); cross-process name collisions are C20's subject",
    "the fusion size limits are a parameter `soft` of the theorems (they hold for every policy); the driver uses the shipped limits (Generated.lean constants) with one input block per operand and no memory refusal — asserted on every real op the harness runs",
]
TRUSTED = [
    "modelled not verified: executors run the ops of a finalized plan in an order compatible with the dag (C07), a task writes whole chunks of exactly its op's write proxy (C05/C06); values are symbolic terms (the harness evaluates them with NumPy)",
    "modelled not verified: Zarr create(mode='a') keeps existing contents; nchunks_initialized == nchunks exactly when the op ran to completion (no crash mid-operation inside a history; C09 covers crashes)",
]


# ----------------------------------------------------------------------------------------------
# parsing the driver's answer
# ----------------------------------------------------------------------------------------------

def split_terms(body):
    terms, depth, cur = [], 0, ""
    for ch in body:
        if ch == "(":
            depth += 1
        elif ch == ")":
            depth -= 1
        if ch == "," and depth == 0:
            terms.append(cur)
            cur = ""
        else:
            cur += ch
    if cur:
        terms.append(cur)
    return terms


def parse_field(f):
    """-> dict(obs, linked, late, terms?, created?, writes?, targets?)"""
    core, l, r = f.rsplit(" ", 2)
    out = {"obs": core.split(" ")[0], "linked": l == "L1", "late": r == "R1", "raw": f}
    if out["obs"] in ("values", "stored") and " created=" in core:
        head, rest = core.split(" created=", 1)
        created, rest = rest.split(" writes=", 1)
        writes, tg = rest.split(" tg=", 1)
        out["created"] = sorted([] if created == "-" else created.split(","))
        out["writes"] = sorted([] if writes == "-" else writes.split(","))
        out["targets"] = {}
        if tg != "-":
            for item in split_terms(tg):
                t, term = item.split(":", 1)
                out["targets"][int(t)] = None if term == "none" else term
        if out["obs"] == "values":
            out["terms"] = split_terms(head[len("values "):])
    return out


def compare(hist, run, answer, where):
    """List of (step, what, model, impl) mismatches between the model's answer and the real run."""
    import numpy as np
    fields = answer.split(";")
    late_steps = sorted(j for j, k, _ in H.triggers(hist) if k == "late")
    bad = []
    for j, o in enumerate(run.obs):
        if where[j] >= len(fields):
            bad.append((j, "model stopped early", answer[-80:], o["obs"]))
            break
        m = parse_field(fields[where[j]])
        ro = o["obs"]
        if ro == "raised":
            bad.append((j, "call raised", m["obs"], o.get("exc")))
            break
        if m["obs"] != ro:
            bad.append((j, "outcome", m["obs"], ro + (" " + o.get("exc", "") if ro == "failed" else "")))
            break
        # Linked flag of the model  <->  a late re-targeting happened at or before this call
        want_unlinked = any(ls <= j for ls in late_steps)
        if m["linked"] == want_unlinked:
            bad.append((j, "Linked flag vs late-retarget pattern", "L%d" % m["linked"], "late steps %s" % late_steps))
        if m["late"] != (j in late_steps):
            bad.append((j, "lateRetarget flag vs pattern", "R%d" % m["late"], "late steps %s" % late_steps))
        if ro == "values":
            mv = [H.eval_term(H.parse_term(t)).tolist() for t in m["terms"]]
            if mv != o["vals"]:
                bad.append((j, "values", {"terms": m["terms"], "eval": mv}, o["vals"]))
        if ro in ("values", "stored"):
            if m["created"] != o["created"]:
                bad.append((j, "created locations", m["created"], o["created"]))
            if m["writes"] != o["writes"]:
                bad.append((j, "written locations", m["writes"], o["writes"]))
            for t, term in m["targets"].items():
                real = o["targets"].get(t)
                mval = None if term is None else H.eval_term(H.parse_term(term)).tolist()
                if mval != real:
                    bad.append((j, "contents of target %d" % t, {"term": term, "eval": mval}, real))
        if ro == "failed":
            break
    return bad


# ----------------------------------------------------------------------------------------------
# attribution of direct-oracle failures
# ----------------------------------------------------------------------------------------------

def first_failure(run):
    return run.failures[0] if run.failures else None


def attribute(ctx, hist, run, state):
    """Report the first direct-oracle failure of a run: shrink, classify, ctx.fail."""
    f = first_failure(run)
    if f is None:
        return
    kind = f["kind"]
    cut = hist[: f["step"] + 1]

    def fails(h):
        r = H.run_history(h)
        return any(x["kind"] == kind for x in r.failures)

    trig = [x for x in H.triggers(cut)]
    shrunk = None
    if trig and state["shrunk_known"] >= state["max_shrunk_known"]:
        # cheap attribution: the same history without the triggering store pairs passes everything
        cf = H.without_triggers(cut)
        rcf = H.run_history(cf) if cf else None
        if rcf is not None and not rcf.failures:
            key = H.classify(cut, {"kind": kind, "step": len(cut) - 1})
            if key:
                ctx.fail(f["what"], {"history": cut, "attributed_by": "counterfactual without the late/repeated re-targeting passes"}, key=key)
                return
    shrunk, runs = H.shrink(cut, fails, max_runs=state["shrink_runs"])
    r2 = H.run_history(shrunk)
    f2 = next((x for x in r2.failures if x["kind"] == kind), f)
    key = H.classify(shrunk, {"kind": kind, "step": f2["step"]})
    if key:
        state["shrunk_known"] += 1
    ctx.fail(f2["what"], {"history": shrunk, "request": H.to_request(shrunk)[0], "shrink_runs": runs,
                          "all_failures": [x["what"] for x in r2.failures[:4]]}, key=key)


def nontrivial(hist):
    info = H.labels_info(hist)
    return (any(st["op"] == "compute" and any(info[a]["lazy"] for a in st["arrs"]) for st in hist)
            and any(st["op"] == "store" for st in hist))


def count_hist(ctx, hist, run, tag):
    ctx.count({"history": H.to_request(hist)[0], "failures": [f["kind"] for f in run.failures][:3]},
              nontrivial=nontrivial(hist), kind=tag)
    for st in hist[: len(run.obs)]:
        ctx.dist["step:" + st["op"] + (":" + st.get("kind", "") if st["op"] == "input" else "")] += 1
        if st["op"] == "compute":
            ctx.dist["compute:opt=%d,resume=%d,n=%d" % (st["opt"], st["resume"], len(st["arrs"]))] += 1
        if st["op"] == "store":
            ctx.dist["store:eager=%d,n=%d" % (st["eager"], len(st["pairs"]))] += 1


def new_state(ctx):
    return {"shrunk_known": 0, "max_shrunk_known": 2, "shrink_runs": ctx.budget(40, 150)}


# ----------------------------------------------------------------------------------------------
# the check
# ----------------------------------------------------------------------------------------------

def corr(ctx):
    n = ctx.budget(30, 300)
    hists = [copy.deepcopy(H.WITNESS_LATE), copy.deepcopy(H.WITNESS_TWICE)] + copy.deepcopy(H.BRANCH_CORPUS) + copy.deepcopy(H.RESUME_CORPUS)
    for i in range(n):
        hists.append(H.gen_history(ctx.rng, ctx.rng.randint(6, 22), unsafe=(i % 3 == 0)))
    runs = [H.run_history(h) for h in hists]
    reqs = [H.to_request(h) for h in hists]
    answers = ctx.lean.drive(DRIVER, [r[0] for r in reqs])
    state = ctx.extra.setdefault("_c10_state", new_state(ctx))
    for h, run, (req, where), ans in zip(hists, runs, reqs, answers):
        count_hist(ctx, h, run, "corr:" + ("unsafe" if H.triggers(h) else "safe"))
        ctx.traces += 1
        bad = compare(h, run, ans, where)
        if bad:
            j, what, m, im = bad[0]
            ctx.disagree("History model = cubed API (%s)" % what, {"history": h, "request": req, "step": j,
                         "others": [b[1] for b in bad[1:4]]}, m, im)
        # the run also evaluated the direct oracle: do not throw that away
        attribute(ctx, h, run, state)
    ctx.extra.pop("_c10_state", None)
    ctx.notes.append("corr: %d histories, %d compared calls" % (len(hists), sum(len(r.obs) for r in runs)))


def oracle(ctx, n=None, seed_shift=0):
    state = new_state(ctx)
    n = n if n is not None else ctx.budget(20, 240)
    # the two minimal triggers of the known defect are re-verified on every run
    fixed = ([copy.deepcopy(H.WITNESS_LATE), copy.deepcopy(H.WITNESS_TWICE)] + copy.deepcopy(H.BRANCH_CORPUS) + copy.deepcopy(H.RESUME_CORPUS)) if seed_shift == 0 else []
    hists = list(fixed)
    for i in range(n):
        hists.append(H.gen_history(ctx.rng, ctx.rng.randint(8, 22), unsafe=(i % 8 == 7)))
    nfail = 0
    for h in hists:
        run = H.run_history(h)
        count_hist(ctx, h, run, "oracle:" + ("unsafe" if H.triggers(h) else "safe"))
        if run.failures:
            nfail += 1
            attribute(ctx, h, run, state)
    ctx.notes.append("oracle: %d histories, %d with a direct-oracle failure" % (len(hists), nfail))


def search(ctx):
    """A correspondence / proof obligation no longer checks: look harder for a concrete failing history."""
    # the disagreeing histories themselves, through the direct oracle
    state = new_state(ctx)
    for d in ctx.disagreements[:5]:
        h = d["case"].get("history")
        if h:
            run = H.run_history(h)
            if run.failures:
                attribute(ctx, h, run, state)
    ctx.rng.seed(ctx.seed + 7919)
    oracle(ctx, n=ctx.budget(60, 300), seed_shift=1)


def replay(ctx, body):
    case = body.get("case", {})
    h = case.get("history")
    if not h:
        print("replay file has no history")
        return
    run = H.run_history(h)
    print("history:", H.to_request(h)[0])
    for j, o in enumerate(run.obs):
        print("  step %d %s -> %s" % (j, json.dumps(h[j]), {k: v for k, v in o.items() if k != "targets"}))
    for f in run.failures:
        print("  FAILURE step %d [%s] %s" % (f["step"], f["kind"], f["what"]))
