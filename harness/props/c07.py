"""C07 — Executors never let a task read data its producers have not finished writing.

corr   : REAL computations on the real executors {single-threaded, threads, processes} x compute_arrays_in_parallel x
         batch_size x max_workers over DAG shapes (branches, diamonds, multi-output, chains, rechunks, region stores,
         resume), observed through a tracing store with injected write latency and a recording callback
         (harness/schedtrace.py).  Against the Lean model (drivers/C07.lean):
           * `visit_nodes` / `visit_node_generations` of the tree under test == `seqSchedule` / `genSchedule` of the model
             on networkx's orders, and those orders satisfy the hypotheses `Topo` / `Gens` (`checkGens`), and the edges
             added by `_create_lazy_zarr_arrays` satisfy `CreateFirst` (`checkCreateFirst`);
           * trace inclusion: the observed sequence of callback events and store accesses is accepted by `acceptsObs`
             (theorem C07_trace_inclusion: then it is a run of the transition system, to which C07_safe_reachable applies);
           * perturbed traces (a read moved before its producer's end, an operation end before a task end) are rejected.
         Scripted schedules: the REAL async_map_dag (+ async_map_unordered, aiostream) on a virtual-time loop with scripted
         futures (harness/vloop.py): ops with >= 10 tasks, stragglers that get a backup, one twin failing while the other is
         still running (both roles), both failing, sequential / generation mode, batching — the observation sequence
         (events, first successful write of each input, consumer submissions) must be accepted by `acceptsObs`.
oracle : on the scripted schedules: every input yields exactly once, an op is closed and a consumer task submitted only after
         every producer input has completed a successful execution, an error surfaces only if no copy succeeds.
         Independent of Lean, on the real-executor runs: no chunk `get` of an array misses, per produced array all chunk
         `set`s complete before the first chunk `get` starts, an operation starts only after the operations producing its
         inputs have ended, array creation happens inside create-arrays and before any chunk access.
"""
from __future__ import annotations

import schedtrace as st

DRIVER = "C07"
RULE = ("programs: 12 DAG shapes (independent branches, diamond, chain with rechunk and reduction, unstack, qr, rechunk, "
        "reductions, region store, mixed, and three shapes with an op taking the same array twice plus a later-produced third "
        "input: fused x*x+y, direct f(x,x,y), y from a rechunk — a fixed corpus of 12 such cases in parallel mode on threads runs in every tier) with seeded shapes <=6x4 and chunks; configurations: executor in "
        "{single-threaded, threads, processes(sampled)} x optimize_graph x compute_arrays_in_parallel x max_workers{1,2,4} x "
        "batch_size{None,1,2,3} x resume(12%); store write latency seeded up to 20 ms (search: 50 ms); non-trivial = some "
        "array produced by one op is read by another; distinct by (program, configuration)")
ASSUMPTIONS = [
    "hypotheses Topo / Gens on nx.topological_sort / nx.topological_generations — validated on every real DAG by checkGens (sound by C07_checks_sound)",
    "hypothesis CreateFirst (edges create-arrays -> arrays -> every pipeline node) — validated on every real DAG by checkCreateFirst",
    "a task touches the store only between its submission and the delivery of its result (aiostream drains the stream; the pool runs what was submitted) — checked by trace inclusion on every observed run",
    "use_backups: exercised on scripted schedules of the real async_map_dag/async_map_unordered on a virtual-time loop (backup launched, one twin failing while the other runs); a backup that loses the race keeps running after its twin succeeded and rewrites identical bytes (C06) — that tail is not modelled",
]
TRUSTED = ["modelled not verified: aiostream's `async with stream()` / `stream.merge` and concurrent.futures pools (observed through the trace only)",
           "zarr's store interface reports every chunk access to the wrapping store"]


# ----------------------------------------------------------------------------------------------
# cases
# ----------------------------------------------------------------------------------------------

C07_KINDS = ["branches", "diamond", "chain", "unstack", "qr", "rechunk", "reduce", "region", "mixed"] + st.REPEAT_KINDS


def fixed_corpus():
    """Always run (both tiers): ops taking the same array on two edges (parallel edges of the MultiDiGraph) plus a third
    input produced later by an op that cannot be fused away — fused and unfused, optimize on/off — in parallel mode on
    threads, where a wrong generation shows as a premature read."""
    import random
    rng = random.Random(20260923)
    cases = []
    for kind in st.REPEAT_KINDS:
        for opt in (True, False):
            for workers, batch in ((4, None), (2, 2)):
                prog = st.gen_program(rng, kind)
                cases.append((prog, {"executor": "threads", "optimize_graph": opt, "compute_arrays_in_parallel": True,
                                     "max_workers": workers, "batch_size": batch}))
    return cases


def gen_cases(rng, n, nproc):
    cases = fixed_corpus()
    for i in range(n):
        kind = C07_KINDS[i % len(C07_KINDS)] if i < 2 * len(C07_KINDS) else rng.choice(C07_KINDS)
        prog = st.gen_program(rng, kind, mismatch=True)  # region stores also with source chunks != target chunks (rechunk inserted)
        ex = "single-threaded" if rng.random() < 0.2 else "threads"
        cases.append((prog, st.gen_config(rng, ex)))
    for i in range(nproc):
        prog = st.gen_program(rng, rng.choice(["diamond", "branches", "mixed", "unstack", "chain"] + st.REPEAT_KINDS))
        cfg = st.gen_config(rng, "processes")
        cfg["max_workers"] = rng.choice([1, 2])
        cases.append((prog, cfg))
    return cases


def run_cases(ctx, cases, latency):
    """Run each case once; results are shared by corr and oracle (cached on ctx)."""
    out = []
    for prog, cfg in cases:
        seed = ctx.rng.randrange(10 ** 6)
        r = st.run_case(prog, cfg, seed=seed, max_latency=latency)
        r["case"] = st.describe(prog, cfg, seed, latency)
        st.cleanup(r)
        out.append(r)
    return out


def cases_of(ctx):
    if getattr(ctx, "_c07_runs", None) is None:
        n = ctx.budget(45, 420)
        nproc = ctx.budget(2, 10)
        ctx._c07_runs = run_cases(ctx, gen_cases(ctx.rng, n, nproc), 0.02)
    return ctx._c07_runs


# ----------------------------------------------------------------------------------------------
# scripted schedules with backups (use_backups=True): the real async_map_dag on a virtual-time loop
# ----------------------------------------------------------------------------------------------

def _sc(ops, script, parallel=False, bs=None, ub=True):
    return {"ops": ops, "script": script, "parallel": parallel, "use_backups": ub, "batch_size": bs}


def scripted_witnesses():
    """Fixed corpus (every tier): stragglers that get a backup (>= 10 tasks, duration > 3x median, checked on the 2 s
    wake-ups, so the backup is submitted at t=5), one twin failing while the other is still running, in both roles,
    sequential and generation mode, with and without batching, plus controls."""
    chain = [{"n": 12, "preds": []}, {"n": 3, "preds": [0]}]
    two = [{"n": 12, "preds": []}, {"n": 11, "preds": []}, {"n": 3, "preds": [0, 1]}]
    dia = [{"n": 10, "preds": []}, {"n": 12, "preds": [0]}, {"n": 2, "preds": [0]}, {"n": 4, "preds": [1, 2]}]
    w = []
    for par in (False, True):
        w.append(_sc(chain, {"0:0:0": [1, 100], "0:0:1": [0, 1]}, par))          # backup fails, slow original succeeds later
        w.append(_sc(chain, {"0:0:0": [0, 8], "0:0:1": [1, 50]}, par))           # original fails, slow backup succeeds later
        w.append(_sc(chain, {"0:0:0": [0, 8], "0:0:1": [0, 5]}, par))            # both fail: the error must surface
        w.append(_sc(chain, {"0:7:0": [1, 60], "0:7:1": [1, 2]}, par))           # backup wins, original abandoned
        w.append(_sc(two, {"0:3:0": [1, 90], "0:3:1": [0, 2], "1:5:0": [0, 9], "1:5:1": [1, 40]}, par, bs=12))
        w.append(_sc(dia, {"1:4:0": [1, 70], "1:4:1": [0, 3], "1:9:0": [0, 12], "1:9:1": [1, 30]}, par))
        w.append(_sc(chain, {"0:0:0": [1, 100]}, par, ub=False))                  # control: no backups
    return w


def gen_scripted(rng):
    shape = rng.choice(["chain", "two", "dia"])
    n = rng.randint(10, 16)
    if shape == "chain":
        ops = [{"n": n, "preds": []}, {"n": rng.randint(1, 4), "preds": [0]}]
        big = [0]
    elif shape == "two":
        ops = [{"n": n, "preds": []}, {"n": rng.randint(10, 14), "preds": []}, {"n": rng.randint(1, 4), "preds": [0, 1]}]
        big = [0, 1]
    else:
        ops = [{"n": rng.randint(2, 11), "preds": []}, {"n": n, "preds": [0]}, {"n": rng.randint(1, 3), "preds": [0]},
               {"n": rng.randint(1, 4), "preds": [1, 2]}]
        big = [1]
    script = {}
    for o in big:
        for i in rng.sample(range(ops[o]["n"]), rng.choice([1, 1, 2])):
            r = rng.random()
            if r < 0.35:      # backup fails while the slow original keeps running
                script["%d:%d:0" % (o, i)] = [1, rng.randint(20, 120)]
                script["%d:%d:1" % (o, i)] = [0, rng.randint(1, 10)]
            elif r < 0.7:     # original fails after the backup was launched; slow backup succeeds
                script["%d:%d:0" % (o, i)] = [0, rng.randint(6, 15)]
                script["%d:%d:1" % (o, i)] = [1, rng.randint(12, 80)]
            elif r < 0.85:    # both succeed
                script["%d:%d:0" % (o, i)] = [1, rng.randint(6, 90)]
                script["%d:%d:1" % (o, i)] = [1, rng.randint(1, 60)]
            else:             # both fail
                script["%d:%d:0" % (o, i)] = [0, rng.randint(6, 30)]
                script["%d:%d:1" % (o, i)] = [0, rng.randint(1, 30)]
    bs = rng.choice([None, None, n, n + 3, 10])
    return _sc(ops, script, parallel=rng.random() < 0.5, bs=bs, ub=rng.random() < 0.9)


def scripted_runs(ctx):
    if getattr(ctx, "_c07_scripted", None) is None:
        cases = scripted_witnesses() + [gen_scripted(ctx.rng) for _ in range(ctx.budget(150, 1500))]
        ctx._c07_scripted = [(c, st.run_scripted_dag(c)) for c in cases]
    return ctx._c07_scripted


def scripted_kind(c, res):
    twins = sum(1 for k in c["script"] if k.endswith(":1"))
    return "scripted:%s:%s:%s" % ("par" if c["parallel"] else "seq", "backups" if c["use_backups"] and twins else "plain", res["outcome"])


def scripted_case(c):
    return {"scripted": c, "replay": "cd /verif/harness && /venv/bin/python -c \"import sys, json; sys.path.insert(0, '<tree under test>'); "
                                     "import schedtrace as st; c = json.loads(sys.argv[1]); r = st.run_scripted_dag(c); "
                                     "print(r['outcome'], st.scripted_violations(c, r)); print(*r['seq'], sep=chr(10))\" '<scripted as JSON>'"}


def corr_scripted(ctx):
    reqs, meta = [], []
    for c, res in scripted_runs(ctx):
        twins = any(k.endswith(":1") for k in c["script"])
        ctx.count({"corr-scripted": c}, nontrivial=twins, kind="corr:" + scripted_kind(c, res))
        if res["outcome"] != "done":
            continue
        f = res["facts"]
        reqs.append("accepts|%s|%s|%s" % (st.encode_dag(f), st.encode_order(f, bool(c["parallel"])), " ".join(st.scripted_tokens(res))))
        meta.append(c)
        ctx.traces += 1
    ans = ctx.lean.drive(DRIVER, reqs)
    for rq, a, c in zip(reqs, ans, meta):
        if a != "ok":
            ctx.disagree("scripted run of async_map_dag with backups is a run of the model (acceptsObs: every input yields once, "
                         "first successful write before the op is closed, reads after)", {"case": scripted_case(c), "request": rq[:3000]}, a, "ok")


def oracle_scripted(ctx):
    for c, res in scripted_runs(ctx):
        twins = any(k.endswith(":1") for k in c["script"])
        ctx.count({"oracle-scripted": c}, nontrivial=twins, kind="oracle:" + scripted_kind(c, res))
        bad = st.scripted_violations(c, res)
        if bad:
            ctx.fail("scripted schedule: " + bad[-1], dict(scripted_case(c), all=bad,
                                                         submissions=[s_ for s_ in res["subs"] if ("%d:%d:0" % (s_["op"], s_["input"])) in c["script"]],
                                                         outcome=res["outcome"]))


def nontrivial(facts):
    _pa, po = st.producers(facts)
    return any(po.values())


def kind_of(r):
    cfg = r["case"]["config"]
    return "%s:%s:%s%s" % (cfg["executor"], "par" if st.is_parallel(cfg) else "seq", r["case"]["program"]["kind"],
                           ":resume" if cfg.get("resume") else "")


# ----------------------------------------------------------------------------------------------
# correspondence with the Lean model
# ----------------------------------------------------------------------------------------------

def perturb_early_read(toks, facts):
    """Move the first read of a produced array to just after the start of (one of) its producers."""
    pa, _ = st.producers(facts)
    for i, t in enumerate(toks):
        if t[0] == "r" and t[1:].isdigit() and int(t[1:]) in pa:
            p = [q for q in pa[int(t[1:])] if q != facts["create"]]
            if not p:
                continue
            start = "os%d" % p[0]
            if start in toks[:i]:
                j = toks.index(start)
                return toks[:j + 1] + [t] + toks[j + 1:i] + toks[i + 1:]
    return None


def perturb_early_end(toks):
    """Swap the last task end of some op with its operation end."""
    for i in range(len(toks) - 1, 0, -1):
        if toks[i].startswith("oe"):
            o = toks[i][2:]
            for j in range(i - 1, 0, -1):
                if toks[j] == "te" + o:
                    return toks[:j] + toks[j + 1:i + 1] + [toks[j]] + toks[i + 1:]
    return None


def corr(ctx):
    runs = cases_of(ctx)
    reqs, expect, meta = [], [], []
    for r in runs:
        f = r["facts"]
        if f is None or r["error"]:
            continue  # reported by the oracle
        cfg = r["case"]["config"]
        par = st.is_parallel(cfg)
        dag = st.encode_dag(f)
        ctx.count({"corr": r["case"]}, nontrivial=nontrivial(f), kind="corr:" + kind_of(r))
        # schedules and hypotheses (both traversals, whatever the mode of this run)
        reqs.append("sched|%s|%s" % (dag, st.encode_order(f, False)))
        expect.append("topo=1 create=%s sched=%s" % ("-" if f["create"] is None else "1", st.show_sched([[o] for o in f["visit_nodes"]])))
        meta.append(("seqSchedule = visit_nodes, Topo and CreateFirst hold", r))
        reqs.append("sched|%s|%s" % (dag, st.encode_order(f, True)))
        expect.append("topo=1 create=%s sched=%s" % ("-" if f["create"] is None else "1", st.show_sched(f["visit_gens"])))
        meta.append(("genSchedule = visit_node_generations, Gens and CreateFirst hold", r))
        # the hypothesis checked on what the tree under test REALLY hands to its executors
        cdag = st.encode_contracted(f)
        reqs.append("gensok|%s|seq:%s" % (cdag, ",".join(map(str, f["visit_nodes"]))))
        expect.append("topo=1")
        meta.append(("checkGens holds on the real visit_nodes output (producers strictly earlier)", r))
        reqs.append("gensok|%s|gen:%s" % (cdag, st.show_sched(f["visit_gens"])))
        expect.append("topo=1")
        meta.append(("checkGens holds on the real visit_node_generations output (producers in strictly earlier generations)", r))
        # trace inclusion
        toks = st.encode_trace(r["log"], f)
        reqs.append("accepts|%s|%s|%s" % (dag, st.encode_order(f, par), " ".join(toks)))
        expect.append("ok")
        meta.append(("observed events and store accesses are a run of the model (acceptsObs)", r))
        ctx.traces += 1
        # the model must reject unsafe variants of the same trace
        for name, pt in (("a read before its producer has ended", perturb_early_read(toks, f)),
                         ("an operation end before its last task end", perturb_early_end(toks))):
            if pt is not None:
                reqs.append("accepts|%s|%s|%s" % (dag, st.encode_order(f, par), " ".join(pt)))
                expect.append("reject")
                meta.append(("model rejects " + name, r))
    ans = ctx.lean.drive(DRIVER, reqs)
    for rq, e, a, (rel, r) in zip(reqs, expect, ans, meta):
        if e != a:
            ctx.disagree(rel, {"case": r["case"], "request": rq[:3000]}, a, e)
    corr_scripted(ctx)


# ----------------------------------------------------------------------------------------------
# direct oracle on the store trace / event list
# ----------------------------------------------------------------------------------------------

def check_run(ctx, r):
    """Evaluate C07's observable on one run; report failures (the observed premature read / start first, then the
    static defect of the traversal that explains it)."""
    case = r["case"]
    f = r["facts"]
    if r["error"] or f is None:
        ctx.fail("computation failed: %s" % r["error"], case)
        return
    ctx.count({"oracle": case}, nontrivial=nontrivial(f), kind="oracle:" + kind_of(r))
    if f["multi_edges"]:
        ctx.dist["oracle:dag-with-parallel-edges"] += 1
    dyn = dynamic_failure(r)
    if dyn is not None:
        ctx.fail(dyn[0], dict(case, **dyn[1]))
    # the traversals of the tree under test: every executed producer of an op (over parallel edges too, at any distance
    # through skipped nodes) strictly earlier — for this DAG, whichever mode this run used
    names = f["names"]
    for what, gens in (("visit_nodes", [[o] for o in f["visit_nodes"]]), ("visit_node_generations", f["visit_gens"])):
        bad = st.schedule_violations(f, gens)
        if bad:
            ctx.fail("%s: %s" % (what, bad[0][0]), dict(case, traversal=what, schedule=[[names[o] for o in g] for g in gens], **bad[0][1]))
            return


def dynamic_failure(r):
    """-> (message, detail) for the first violation visible in the store trace / event list of this run, or None."""
    f = r["facts"]
    log = r["log"]
    names = f["names"]
    pa, po = st.producers(f)
    # (1) no chunk read of an array of the computation misses
    for seq, _pid, kind, key, extra in log:
        if kind == "H" and extra == "0":
            a, k = st.key_kind(key, f)
            if k == "chunk":
                return ("chunk read %s returned nothing (zarr substitutes the fill value)" % key, {"key": key})
    # (2) per produced array: every chunk set completes before the first chunk get starts
    last_set, first_get = {}, {}
    for seq, _pid, kind, key, _extra in log:
        a, k = st.key_kind(key, f)
        if k != "chunk":
            continue
        if kind == "S":
            last_set[a] = seq
        elif kind == "G":
            first_get.setdefault(a, seq)
    for a in first_get:
        if a in last_set and last_set[a] > first_get[a]:
            return ("array %s: a chunk was read (log line %d) before the last chunk write completed (line %d)"
                    % (names[a], first_get[a], last_set[a]), {"array": names[a]})
    # (3) an operation starts only after every operation producing its inputs has ended
    pos_start, pos_end = {}, {}
    for seq, _pid, kind, arg, extra in log:
        if kind == "E" and arg == "opStart":
            pos_start.setdefault(f["idx"].get(extra), seq)
        if kind == "E" and arg == "opEnd":
            pos_end[f["idx"].get(extra)] = seq
    for o, ps in po.items():
        for p in ps:
            if o in pos_start and (p not in pos_end or pos_end[p] > pos_start[o]):
                return ("operation %s started before its producer %s had ended" % (names[o], names[p]),
                        {"op": names[o], "producer": names[p]})
    # (4) array creation runs first
    c = f["create"]
    if c is not None and c not in f["computed"]:
        if c not in pos_start or c not in pos_end:
            return ("create-arrays did not run", {})
        for seq, _pid, kind, key, _extra in log:
            a, k = st.key_kind(key, f) if kind in ("S", "G") else (None, None)
            if k == "meta" and kind == "S" and not (pos_start[c] < seq < pos_end[c]):
                return ("array %s created outside create-arrays" % key, {"key": key})
            if k == "chunk" and seq < pos_end[c]:
                return ("chunk access %s before create-arrays had ended" % key, {"key": key})
        for o, sq in pos_start.items():
            if o != c and sq < pos_end[c]:
                return ("operation %s started before create-arrays had ended" % names[o], {"op": names[o]})
    return None


def oracle(ctx):
    oracle_scripted(ctx)
    for r in cases_of(ctx):
        check_run(ctx, r)


def search(ctx):
    """Deeper run: other seeds, larger latencies, parallel-heavy configurations."""
    ctx.rng.seed(ctx.seed + 7919)
    n = ctx.budget(60, 200)
    cases = gen_cases(ctx.rng, n, ctx.budget(2, 6))
    for prog, cfg in cases:
        if cfg["executor"] != "single-threaded" and ctx.rng.random() < 0.5:
            cfg["compute_arrays_in_parallel"] = True
    for r in run_cases(ctx, cases, 0.05):
        before = len(ctx.failures)
        check_run(ctx, r)
        if len(ctx.failures) > before and len(ctx.failures) >= 3:
            break


def replay(ctx, body):
    case = body.get("case", {})
    if "scripted" in case:
        c = case["scripted"]
        res = st.run_scripted_dag(c)
        bad = st.scripted_violations(c, res)
        print("REPLAY scripted:", res["outcome"], bad or "no failure on this tree")
        for ob in res["seq"]:
            print("   ", ob)
    if "program" in case:
        r = st.run_case(case["program"], case["config"], case.get("store_seed", 0), case.get("max_latency", 0.02))
        r["case"] = case
        st.cleanup(r)
        check_run(ctx, r)
        for fl in ctx.failures:
            print("REPLAY failure:", fl["what"])
        if not ctx.failures:
            print("REPLAY: no failure on this tree")
