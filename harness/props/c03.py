"""C03 — projected memory is a true upper bound on what every task allocates.   PARTIAL BY NATURE.

corr   : (a) the pure accounting functions of the tree under test (calculate_projected_mem, peak_projected_mem,
             get_buffer_copies, array_memory / largest_chunk / chunk_memory) on seeded random arguments, and
         (b) `primitive_op.projected_mem` of every op of generated real plans (op catalogue × geometry × dtype ×
             fused/unfused (default, wide and legacy optimizer) × compressor × local/cloud work_dir × reserved), from the
             ingredients recorded at `general_blockwise` / `fuse_multiple` / `fuse` (sources' itemsize+chunks, output
             chunks, extra, reserved, copies, predecessor list)
         vs the Lean model (drivers/C03.lean: projectedMem, blockwiseProjected, peakProjected, fusedProjected, declared extras,
         accountsGreedy).
oracle : measurement, independent of the Lean model: an in-process DagExecutor (harness/memtrace.py) runs every task of
         real computations under tracemalloc and compares the per-task peak with the op's projected_mem in the finalized
         plan that is being executed.  Chunks of ~4 MB, reserved_mem = 1 MB (calibrated non-data allowance is < 0.1 MB).
"""
from __future__ import annotations

import os
import types

import memtrace

DRIVER = "C03"
RULE = ("oracle: catalogue of %d public-API computations (elementwise, reductions incl. mean/var/arg* with structured "
        "intermediates, scans, rechunk, indexing, concat/stack/unstack/repeat/tile/flip/roll/reshape/pad, matmul/tensordot/"
        "vecdot/qr, creation, map_blocks/map_overlap) x {square, skinny, uneven-last} x dtypes {float64,float32,int32,int64,"
        "uint8,complex64} x fused/unfused x compressor {none, default} x input data {incompressible, compressible} x inputs "
        "{zarr on disk, computed}; ~4 MB chunks; seeded stratified sample (quick) / larger sample (thorough); one evaluation "
        "= one op of one executed plan (max task peak vs projected_mem); non-trivial = op with >1 task or >1 input block; "
        "corr: one evaluation = one projected_mem value recomputed by the Lean model" % 75)
ASSUMPTIONS = [
    "PARTIAL: the theorems cover the accounting (calculate_projected_mem / peak_projected_mem / fuse_multiple bound the abstract "
    "allocation trace of a task under stated hypotheses); what NumPy, zarr codecs and the allocator really allocate is measured, not proved",
    "hypothesis Accounts (every eagerly loaded leaf and every stream argument has an `inputs` entry of its own) — false for unstack "
    "(C03_unstack_accounting_fails); evaluated on every op of the generated plans through the driver",
    "hypothesis work <= extra_projected_mem (kernel working set) — not provable from the source; the measurement is its test",
    "fused tasks are modelled in the evaluation order peak_projected_mem describes (predecessors one after the other, results retained); "
    "the real fused function loads all leaves first and runs stream predecessors lazily inside the successor — measured only",
    "measurement: zarr is pinned to async.concurrency=1 and threading.max_workers=1 while measuring, so that the number of encoded/decoded "
    "buffers alive at once does not depend on scheduling (a default-configured run holds at least as much); "
    "tracemalloc sees Python-allocator and NumPy allocations, not raw malloc inside C codecs (so it can only under-count); "
    "a task counts as exceeding only if it does so in 5 consecutive runs (min is kept)",
]
TRUSTED = ["tracemalloc / NumPy allocation tracking; zarr 3.x and numcodecs as installed (measured peaks depend on their versions)"]

W = int(os.environ.get("C03_WORKERS", "8"))
CHUNK = 4_000_000


# ---------------------------------------------------------------------------------------------------------
# correspondence
# ---------------------------------------------------------------------------------------------------------

def src_str(s):
    if s["kind"] == "R":
        return "%d:R:%s" % (s["itemsize"], ",".join(map(str, s["chunks"])) or "-")
    axes = "/".join((",".join(map(str, c)) if c else "e") for c in s["chunks"]) or "-"
    return "%d:X:%s" % (s["itemsize"], axes)


def out_str(o):
    return "%d:%s" % (o["itemsize"], ",".join(map(str, o["chunks"])) or "-")


def prod(xs):
    p = 1
    for x in xs:
        p *= x
    return p


def corr_pure(ctx, n):
    """The accounting functions themselves, on random arguments."""
    import numpy as np

    import cubed
    from cubed.primitive.blockwise import peak_projected_mem
    from cubed.primitive.memory import BufferCopies, MemoryModeller, calculate_projected_mem, get_buffer_copies
    from cubed.utils import array_memory, chunk_memory, largest_chunk

    rng = ctx.rng
    reqs, exp, rel = [], [], []

    def add(r, e, relation):
        reqs.append(r)
        exp.append(str(e))
        rel.append(relation)

    def big():
        return rng.choice([0, 1, rng.randint(0, 50), rng.randint(0, 10**6), rng.randint(0, 10**10)])

    for _ in range(n):
        inputs = [big() for _ in range(rng.randint(0, 4))]
        r, w = rng.choice([(1, 1), (2, 2), (rng.randint(0, 3), rng.randint(0, 3))])
        res, op, out = big(), big(), big()
        add("proj|%d|%s|%d|%d|%d|%d" % (res, ",".join(map(str, inputs)) or "-", op, out, r, w),
            calculate_projected_mem(res, inputs, op, out, BufferCopies(read=r, write=w)), "projectedMem = calculate_projected_mem")
        # peak_projected_mem on stand-in ops (projected_mem, target_array.chunkmem) incl. None entries
        preds = []
        for _ in range(rng.randint(0, 5)):
            cm = big()
            preds.append((cm + big() if rng.random() < 0.9 else big(), cm))
        ops = [types.SimpleNamespace(projected_mem=p, target_array=types.SimpleNamespace(chunkmem=c)) for p, c in preds]
        with_none = list(ops)
        if rng.random() < 0.3:
            with_none.insert(rng.randint(0, len(with_none)), None)
        add("peak|%s" % (";".join("%d:%d" % pc for pc in preds) or "-"), peak_projected_mem(with_none), "peakProjected = peak_projected_mem")
        # chunk geometry
        nd = rng.randint(0, 3)
        dt = rng.choice(["float64", "int8", "complex128", "float32", [("i", "int64"), ("v", "float32")]])
        its = np.dtype(dt).itemsize
        if rng.random() < 0.5:
            ch = tuple(rng.randint(0, 9) for _ in range(nd))
            s = {"itemsize": its, "kind": "R", "chunks": list(ch)}
        else:
            ch = tuple(tuple(rng.randint(0, 9) for _ in range(rng.randint(0 if rng.random() < 0.1 else 1, 4))) for _ in range(nd))
            s = {"itemsize": its, "kind": "X", "chunks": [list(c) for c in ch]} if nd > 0 else {"itemsize": its, "kind": "R", "chunks": []}
        arr = types.SimpleNamespace(dtype=np.dtype(dt) if not isinstance(dt, list) else dt, chunks=ch)
        add("chunkmem|" + src_str(s), chunk_memory(arr), "chunkMemory = chunk_memory ∘ largest_chunk")
        assert array_memory(arr.dtype, largest_chunk(ch)) == chunk_memory(arr)
    # MemoryModeller directly
    for _ in range(max(n // 10, 5)):
        mm = MemoryModeller()
        preds = []
        for _ in range(rng.randint(1, 4)):
            p, c = big(), big()
            mm.allocate(p)
            mm.free(p - c)
            preds.append((p, c))
        add("peak|%s" % ";".join("%d:%d" % pc for pc in preds), mm.peak_mem, "Modeller = MemoryModeller")
    for wd, scheme, has in [("s3://bucket/tmp", "s3", 1), ("gs://bucket/x", "gs", 1), ("/tmp/x", "", 1), ("file:///tmp/x", "file", 1),
                            ("az://c/x", "az", 1), ("memory://x", "memory", 1), (None, "-", 0)]:
        bc = get_buffer_copies(cubed.Spec(work_dir=wd, allowed_mem=1000))
        add("copies|%s|%d" % (scheme or "-", has), "%d,%d" % (bc.read, bc.write), "getBufferCopies = get_buffer_copies")
    bc = get_buffer_copies(None)
    add("copies|-|0", "%d,%d" % (bc.read, bc.write), "getBufferCopies = get_buffer_copies")
    ans = ctx.lean.drive(DRIVER, reqs)
    for rq, e, a, relation in zip(reqs, exp, ans, rel):
        ctx.count({"pure": rq}, nontrivial=True, kind="corr:" + rq.split("|")[0])
        if e != a:
            ctx.disagree(relation, {"request": rq}, a, e)


def plan_cases(ctx, n):
    """Seeded sample of plan-building cases (small arrays: nothing is executed)."""
    rng = ctx.rng
    triples = memtrace.case_list()
    by_op = {}
    for t in triples:
        by_op.setdefault(t[0], []).append(t)
    ops = sorted(by_op)
    cases = []
    i = 0
    while len(cases) < n:
        opn = ops[i % len(ops)] if i < len(ops) else rng.choice(ops)   # every op at least once
        i += 1
        _, g, dt = rng.choice(by_op[opn])
        cases.append({"op": opn, "geom": g, "dtype": dt, "fuse": True,
                      "compressor": rng.choice(["none", "default"]),
                      "chunk_bytes": rng.choice([256, 1000, 4000, 20000]),
                      "input": rng.choice(["zarr", "zarr", "computed"]),
                      "reserved": rng.choice([0, 1000, 1_000_000]),
                      "work_dir": rng.choice([None, None, None, "s3://bucket/c03", "gs://bucket/c03"]),
                      "optimizer": rng.choice(["default", "default", "wide", "simple"]),
                      "seed": rng.randint(0, 10**6)})
        if cases[-1]["work_dir"]:
            cases[-1]["input"] = "computed"      # no real store behind a cloud URL: plans only
    return cases


def corr_plans(ctx, n):
    reqs, exp, rel, info = [], [], [], []

    def add(r, e, relation, case):
        reqs.append(r)
        exp.append(str(e))
        rel.append(relation)
        info.append(case)

    nrec = 0
    for case in plan_cases(ctx, n):
        r = memtrace.plan_case(case)
        if r["error"]:
            ctx.dist["plan:error"] += 1
            ctx.notes.append("plan case not built: %s: %s" % (case["op"], r["error"][:120])) if len(ctx.notes) < 8 else None
            continue
        cloud = case.get("work_dir")
        scheme = cloud.split(":")[0] if cloud else "-"
        add("copies|%s|1" % scheme, "%d,%d" % tuple(r["spec_copies"]), "getBufferCopies = get_buffer_copies (Spec of the plan)", case)
        for rec in r["records"]:
            nrec += 1
            small = {"case": case, "node": rec.get("node"), "how": rec["how"]}
            if "error" in rec:
                ctx.disagree("ingredients of the projected memory could not be read", small, "-", rec["error"])
                continue
            if rec["how"] == "bw":
                copies = rec["copies"] or [1, 1]
                add("bw|%d|%d|%d|%d|%s|%s" % (rec["reserved"], rec["extra"], copies[0], copies[1],
                                               ";".join(src_str(s) for s in rec["srcs"]) or "-", ";".join(out_str(o) for o in rec["outs"])),
                    rec["projected"], "blockwiseProjected = general_blockwise(...).projected_mem", small)
                if rec["copies"] != r["spec_copies"]:
                    ctx.disagree("buffer_copies passed to general_blockwise = get_buffer_copies(spec)", small, r["spec_copies"], rec["copies"])
                # declared extra: the formula of the op kind (model) vs the value that was passed
                src0 = rec["srcs"][0]
                x = src0["itemsize"] * (prod(src0["chunks"]) if src0["kind"] == "R" else prod(max(c, default=1) for c in src0["chunks"]))
                out0 = max(o["itemsize"] * prod(o["chunks"]) for o in rec["outs"])
                if rec["op_name"] == "rechunk":
                    add("extra|rechunk|%d" % out0, rec["extra"], "rechunkExtra = extra_projected_mem of _rechunk", small)
                elif rec["func"] == "_partial_reduce":
                    add("extra|partial_reduce|%d|%d" % (x, out0), rec["extra"], "partialReduceExtra = extra_projected_mem of partial_reduce", small)
                elif rec["extra"] != 0:
                    cands = ["extra|permute|%d" % x, "extra|scan|%d" % x, "extra|qr|%d" % x]
                    if rec["kwargs"].get("repeats"):
                        cands = ["extra|repeat|%d|%d" % (x, rec["kwargs"]["repeats"])]
                    add("||".join(cands), rec["extra"], "declared extra ∈ {permuteExtra, repeatExtra, scanExtra, qrExtra}", small)
                # the accounting hypothesis of C03_projected_bounds_trace on the real key function of the op
                d = rec.get("desc") or {}
                if d.get("kind") == "blockwise" and not d.get("fused"):
                    keys = d["keys"]
                    scb = d["src_chunk_bytes"]
                    blocks = []
                    for name, k in keys["eager"].items():
                        blocks += [scb.get(name) or 0] * k
                    for name in keys["stream_leaves"]:
                        blocks.append(scb.get(name) or 0)
                    inputs = [s["itemsize"] * (prod(s["chunks"]) if s["kind"] == "R" else prod(max(c, default=1) for c in s["chunks"])) for s in rec["srcs"]]
                    multi = any(k > 1 for k in keys["eager"].values())
                    add("accounts|%s|%s" % (",".join(map(str, sorted(blocks, reverse=True))) or "-", ",".join(map(str, inputs)) or "-"),
                        "false" if multi else "true", "Accounts(leaves of the real key function, inputs) ⇔ no array with several eager leaves", small)
                    ctx.traces += 1
            elif rec["how"] == "fuse_multiple":
                preds = ";".join("%d@%s" % (p["projected"], src_str(p["target"])) for p in rec["preds"]) or "-"
                add("fusedx|%d|%s" % (rec["op"], preds), rec["projected"], "fusedProjected = fuse_multiple(...).projected_mem", small)
            elif rec["how"] == "fuse":
                add("pair|%d|%d" % tuple(rec["pair"]), rec["projected"], "fusedPairProjected = fuse(...).projected_mem", small)
            elif rec["how"] == "create":
                add("create|%d|%s" % (rec["reserved"], ",".join(map(str, rec["itemsizes"])) or "-"), rec["projected"],
                    "createArraysProjected = create_zarr_arrays(...).projected_mem", small)
            elif rec["how"] == "max":
                if rec["projected"] != rec["max_of_ops"]:
                    ctx.disagree("FinalizedPlan.max_projected_mem = max over ops", small, rec["max_of_ops"], rec["projected"])
            else:
                ctx.dist["plan:op-without-model"] += 1
                ctx.disagree("every op of a plan is a blockwise op, a fused op or create-arrays", small, "-", rec.get("op_name"))
    # candidates "a||b||c": membership
    flat, spans = [], []
    for rq in reqs:
        parts = rq.split("||")
        spans.append((len(flat), len(parts)))
        flat.extend(parts)
    ans = ctx.lean.drive(DRIVER, flat)
    for rq, e, (st, ln), relation, small in zip(reqs, exp, spans, rel, info):
        got = ans[st:st + ln]
        kind = rq.split("|")[0]
        nontrivial = kind in ("bw", "fusedx", "pair", "accounts", "extra")
        ctx.count({"plan": rq, "impl": e}, nontrivial=nontrivial, kind="corr:" + kind)
        if ":X:" in rq:
            ctx.dist["corr:rect-chunks-source"] += 1
        if e not in got:
            ctx.disagree(relation, dict(small if isinstance(small, dict) else {}, request=rq), got if ln > 1 else got[0], e)


def corr(ctx):
    t0 = ctx.elapsed()
    corr_pure(ctx, ctx.budget(300, 3000))
    t1 = ctx.elapsed()
    corr_plans(ctx, ctx.budget(110, 900))
    ctx.notes.append("timing: build+audit %.0fs, corr pure %.0fs, corr plans %.0fs" % (t0, t1 - t0, ctx.elapsed() - t1))


# ---------------------------------------------------------------------------------------------------------
# direct oracle: measurement
# ---------------------------------------------------------------------------------------------------------

ANCHORS = [
    # tight ops (data = projection − reserved without compression): sensitive to any missing term
    {"op": "negative", "geom": "square", "dtype": "float64", "fuse": False, "compressor": "none"},
    {"op": "index_offset", "geom": "uneven", "dtype": "float64", "fuse": False, "compressor": "none"},
    {"op": "diamond", "geom": "square", "dtype": "float32", "fuse": True, "compressor": "none"},
    {"op": "sum_keepdims_fused", "geom": "square", "dtype": "float64", "fuse": True, "compressor": "none"},
    {"op": "rechunk_transposed", "geom": "square", "dtype": "float64", "fuse": False, "compressor": "none"},
    # fixed must-measure cases: a task whose in-memory output block spans many chunks of the array it writes to.  They stay well
    # within the projection on the unchanged tree (0.49 / 0.47 / 0.71), so any excess here is unclassifiable ("must_pass")
    {"op": "rechunk_thin", "geom": "square", "dtype": "float64", "fuse": False, "compressor": "none", "must_pass": True},
    {"op": "identity", "geom": "square", "dtype": "float64", "fuse": False, "compressor": "none", "store_chunks": [101, 101], "must_pass": True},
    {"op": "identity", "geom": "square", "dtype": "float64", "fuse": False, "compressor": "default", "store_chunks": [101, 101], "must_pass": True},
    # one fixed witness per listed finding (KNOWN_FINDINGS.txt), run first in both tiers
    {"op": "unstack_multi_block", "geom": "square", "dtype": "float64", "fuse": False, "compressor": "none"},   # unstack-loads-k-blocks
    {"op": "isnan", "geom": "square", "dtype": "float64", "fuse": False, "compressor": "default"},              # compressed-chunk-extra-buffer
    {"op": "argmax_axis0", "geom": "square", "dtype": "float64", "fuse": True, "compressor": "none"},           # fused-stream-successor
    {"op": "var_axis1", "geom": "square", "dtype": "float32", "fuse": False, "compressor": "none"},             # var-float64-temporaries
    {"op": "isin", "geom": "square", "dtype": "uint8", "fuse": False, "compressor": "none", "data": "smooth"},  # isin-kernel-temporaries
    {"op": "index_step", "geom": "square", "dtype": "float64", "fuse": False, "compressor": "none"},            # index-stream-keeps-previous-block
    {"op": "map_overlap", "geom": "skinny", "dtype": "float32", "fuse": False, "compressor": "none"},           # map-overlap-halo-unaccounted
]


def sample_cases(ctx, n):
    rng = ctx.rng
    triples = memtrace.case_list()
    by_op = {}
    for t in triples:
        by_op.setdefault(t[0], []).append(t)
    ops = sorted(by_op)
    rng.shuffle(ops)
    cases = []
    for a in ANCHORS:
        cases.append(dict({"chunk_bytes": CHUNK, "input": "zarr", "data": "random", "seed": 0}, **a))   # fixed: same for every seed
    i = 0
    while len(cases) < n:
        opn = ops[i % len(ops)]
        i += 1
        _, g, dt = rng.choice(by_op[opn])
        comp = rng.choice(["none", "default"])
        cases.append({"op": opn, "geom": g, "dtype": dt, "fuse": bool(rng.getrandbits(1)), "compressor": comp,
                      "chunk_bytes": CHUNK, "input": "zarr" if rng.random() < 0.8 else "computed",
                      "data": rng.choice(["random", "smooth"]), "seed": rng.randint(0, 10**6)})
    return cases


def witness_unstack():
    """The reproduced defect at the size quoted in DESIGN.md: 8 blocks of 8 MB along the unstacked axis."""
    return {"op": "unstack_axis0", "geom": "special", "dtype": "float64", "fuse": False, "compressor": "none", "chunk_bytes": 8_000_000,
            "input": "zarr", "data": "random", "seed": 1, "shape": [8, 1000, 1000], "chunks": [1, 1000, 1000]}


def op_failures(r):
    return [o for o in r["ops"] if o["projected"] is not None and o["peak"] > o["projected"]]


def small_case(r, o):
    c = dict(r["case"])
    return {"case": c, "shape": r.get("shape"), "chunks": r.get("chunks"), "op": o["name"], "op_name": o["op_name"],
            "projected_mem": o["projected"], "measured_peak": o["peak"], "ratio": round(o["peak"] / max(o["projected"], 1), 3),
            "task": o["peak_task"], "pipeline": (o.get("desc") or {}).get("pipeline"), "func": (o.get("desc") or {}).get("func"),
            "keys": (o.get("desc") or {}).get("keys"),
            "replay": "cd /verif/harness && /venv/bin/python memtrace.py '%s'" % __import__("json").dumps(c)}


def classify(r, o, twin):
    """Name of the known defect that explains the failing op `o` of result `r`, or None.
    `twin` = result of the same case with compressor none (only given for compressor default cases)."""
    d = o.get("desc") or {}
    if d.get("kind") != "blockwise":
        return None
    case = r["case"]
    excess = o["peak"] - o["projected"]
    scb = [v for v in d["src_chunk_bytes"].values() if v]
    src_max = max(scb, default=0)
    out_max = max(d["out_chunk_bytes"], default=0)
    keys = d["keys"]
    tol = 300_000
    # (1) several eager leaves of one array, one `inputs` entry: unstack
    multi = {n: k for n, k in keys["eager"].items() if k > 1}
    if multi and "unstack" in case["op"]:
        bound = sum((k - 1) * (d["src_chunk_bytes"].get(n) or 0) for n, k in multi.items())
        if excess <= bound + tol:
            return "unstack-loads-k-blocks"
        return None
    comp_slack = (2 * src_max + 2 * out_max) if case["compressor"] == "default" else 0
    itemsize = __import__("numpy").dtype(case["dtype"]).itemsize
    # (1b) kernels whose NumPy implementation makes temporaries larger than the declared extra
    fkw = d.get("func_kw") or {}
    is_var_kernel = d.get("fused") or (d.get("func") == "_partial_reduce" and "_var_func" in fkw.values())
    if case["op"].split("_")[0] in ("var", "std") and itemsize < 8 and is_var_kernel:
        # _var_func: `nxp.square(a - mu)` with float64 mu = two float64 temporaries of the block
        return "var-float64-temporaries" if excess <= 4 * src_max + comp_slack + tol else None
    if case["op"] == "isin" and case["dtype"].startswith(("int", "uint")) and itemsize < 8 and (d.get("fused") or d.get("func") == "_isin"):
        # np.isin (table method for small value ranges): intp-sized temporaries of the block
        return "isin-kernel-temporaries" if excess <= 4 * src_max + comp_slack + tol else None
    # (2) compressed + incompressible chunks: the zarr codec pipeline holds one more chunk-sized buffer per read (and per
    #     written region) than BufferCopies(read=1, write=1) accounts for; the same case without compressor stays within bounds
    if case["compressor"] == "default" and twin is not None and not twin.get("error"):
        tw = [t for t in twin["ops"] if t["name"].split("-")[0] == o["name"].split("-")[0] and t["op_name"] == o["op_name"]]
        idx = [x["name"] for x in r["ops"] if x["op_name"] == o["op_name"]].index(o["name"])
        tws = [t for t in twin["ops"] if t["op_name"] == o["op_name"]]
        t = tws[idx] if idx < len(tws) else (tw[0] if tw else None)
        if t is not None:
            if t["peak"] <= t["projected"]:
                # per read the compressed and the decoded bytes (they linger while the kernel runs); per written chunk a
                # contiguous copy, its bytes and the encoded bytes
                if excess <= 2 * src_max + 2 * out_max + tol:
                    return "compressed-chunk-extra-buffer"
                return None
            k = classify(dict(twin), t, None)
            if k is not None and excess <= (t["peak"] - t["projected"]) + 2 * src_max + 2 * out_max + tol:
                return k
            return None
    if case["compressor"] == "default" and (twin is None or twin.get("error")):
        # the differential run is not available: accept only the excess one compressed read and one compressed write explain
        # (one further chunk-sized buffer per source chunk being read and per output chunk being written)
        if excess <= src_max + out_max + tol:
            return "compressed-chunk-extra-buffer"
        return None
    # (3) fused op that reads a stream: predecessors run lazily inside the successor's function
    if d.get("fused") and keys["streams"]:
        if excess <= 2 * src_max + out_max + tol:
            return "fused-stream-successor"
        return None
    if d.get("fused"):
        return None
    if keys["streams"] and d.get("func") in ("wrap", "_assemble_index_chunk"):
        # (5) map_overlap: the assembled block includes the halo (depth), the projection uses the plain chunk
        if case["op"].startswith("map_overlap"):
            if excess <= 0.75 * src_max + tol:
                return "map-overlap-halo-unaccounted"
            return None
        # (6) map_selection (index with step / integer array, …): output buffer + previous block + block being read,
        #     no extra declared: exceeds when the output block is smaller than a source block and reads >= 2 of them
        if max(keys["streams"]) >= 2 and out_max < src_max:
            if excess <= (src_max - out_max) + tol:
                return "index-stream-keeps-previous-block"
            return None
    return None


def evaluate(ctx, results, twins=None):
    twins = twins or {}
    for i, r in enumerate(results):
        if r["error"]:
            ctx.dist["oracle:case-error"] += 1
            if "exceeds allowed_mem" in r["error"]:
                continue
            ctx.fail("the computation could not be run: " + r["error"], {"case": r["case"], "tb": r.get("tb", "")[-400:]}, key=None)
            continue
        for o in r["ops"]:
            if o["projected"] is None:
                continue
            d = o.get("desc") or {}
            nontrivial = o["ntasks"] > 1 or sum((d.get("keys") or {}).get("streams", [])) > 1 or len((d.get("keys") or {}).get("eager", {})) > 1
            ctx.count({"op": r["case"]["op"], "geom": r["case"]["geom"], "dtype": r["case"]["dtype"], "fuse": r["case"]["fuse"],
                       "compressor": r["case"]["compressor"], "data": r["case"].get("data"), "input": r["case"]["input"], "node": o["op_name"],
                       "fused_node": d.get("fused"), "projected": o["projected"], "peak_bucket": o["peak"] // 500_000},
                      nontrivial=nontrivial, kind="oracle:%s:%s" % (r["case"]["compressor"], "fused" if d.get("fused") else o["op_name"]))
            ctx.dist["ratio:%s" % ("<0.5" if o["peak"] < 0.5 * o["projected"] else "<0.9" if o["peak"] < 0.9 * o["projected"] else "<=1" if o["peak"] <= o["projected"] else ">1")] += 1
            if o["peak"] > o["projected"]:
                key = None if r["case"].get("must_pass") else classify(r, o, twins.get(i))
                if len(ctx.extra.setdefault("oracle_failures_detail", [])) < 60:
                    ctx.extra["oracle_failures_detail"].append(
                        {"key": key, "case": r["case"], "node": o["name"], "op_name": o["op_name"], "projected": o["projected"], "peak": o["peak"],
                         "first_peak": o["first_peak"], "desc": d})
                ctx.fail("task of %s (%s) allocated %d bytes at peak, projected_mem is %d (ratio %.2f)" %
                         (o["name"], r["case"]["op"], o["peak"], o["projected"], o["peak"] / o["projected"]), small_case(r, o), key=key)


def measure(ctx, cases):
    results = memtrace.run_cases(cases, W)
    # differential runs for failing compressor=default cases
    need = [i for i, r in enumerate(results) if not r["error"] and r["case"]["compressor"] == "default" and op_failures(r)]
    twins = {}
    if need:
        tw = memtrace.run_cases([dict(results[i]["case"], compressor="none") for i in need], W)
        twins = dict(zip(need, tw))
        for i in need:          # a twin that could not be run (resources on a loaded machine): once more, in this process
            if twins[i].get("error"):
                ctx.dist["oracle:twin-error"] += 1
                if len(ctx.notes) < 12:
                    ctx.notes.append("twin (compressor none) of %s could not be run: %s" % (results[i]["case"]["op"], twins[i]["error"][:160]))
                twins[i] = memtrace.run_case(dict(results[i]["case"], compressor="none"))
    evaluate(ctx, results, twins)
    return results


def oracle(ctx):
    n = ctx.budget(29, 150)
    cases = sample_cases(ctx, n)
    cases.append(witness_unstack())
    t0 = ctx.elapsed()
    measure(ctx, cases)
    ctx.notes.append("timing: oracle %.0fs for %d cases" % (ctx.elapsed() - t0, len(cases)))
    ctx.notes.append("reserved_mem=%d (calibrated non-data peak of trivial tasks < 100 kB), chunk ~%d bytes, %d workers" % (memtrace.RESERVED, CHUNK, W))


def search(ctx):
    """Something of the model / proofs / correspondence no longer checks: look for a task that exceeds its projection.
    Tight computations first (no compressor, incompressible data: the projection is met exactly on the unchanged tree)."""
    ctx.rng.seed(ctx.seed + 7919)
    tight = []
    for opn, dts in [("negative", ["float64"]), ("add", ["float32"]), ("index_offset", ["float64"]), ("take", ["int32"]),
                     ("sum_axis0", ["float64", "int32"]), ("sum_all", ["float64"]), ("max_axis1", ["float64"]), ("mean_axis0", ["float64"]),
                     ("var_axis1", ["float64"]), ("argmax_axis0", ["float64"]), ("nansum_axis0", ["float64"]),
                     ("sum_keepdims_fused", ["float64"]), ("diamond", ["float64"]), ("chain3", ["float64"]), ("permute_after_add", ["float64"]),
                     ("rechunk_transposed", ["float64"]), ("rechunk_rows", ["int32"]), ("rechunk_after_add", ["float64"]),
                     ("concat_axis0", ["float64"]), ("stack_axis0", ["float64"]), ("flip_axis0", ["float64"]), ("pad", ["float64"]),
                     ("matmul", ["float64"]), ("transpose", ["float64"]), ("repeat_axis0", ["float64"]), ("cumulative_sum_axis0", ["float64"])]:
        for dt in dts:
            for g in ("square", "uneven", "skinny"):
                for fuse in (False, True):
                    tight.append({"op": opn, "geom": g, "dtype": dt, "fuse": fuse, "compressor": "none", "chunk_bytes": CHUNK,
                                  "input": "zarr", "data": "random", "seed": ctx.seed})
    first = [c for c in tight if c["geom"] == "square" or (c["geom"] == "uneven" and c["op"].startswith("rechunk"))]
    rest = [c for c in tight if c not in first]
    ctx.rng.shuffle(rest)
    measure(ctx, first if ctx.tier == "quick" else first + rest[:120])


def replay(ctx, body):
    """./check C03 --replay replays/C03-<seed>-failing-input.json : re-measure the failing computation."""
    case = (body.get("case") or {}).get("case")
    if not case:
        print("replay file has no measurement case")
        return
    r = memtrace.run_case(case)
    if r["error"]:
        print("case could not be run:", r["error"])
        return
    for o in r["ops"]:
        if o["projected"] is not None:
            print("%-14s %-13s projected_mem %10d  measured task peak %10d  ratio %.2f%s" % (
                o["name"], o["op_name"], o["projected"], o["peak"], o["peak"] / max(o["projected"], 1), "   <-- exceeds" if o["peak"] > o["projected"] else ""))
    twins = {}
    if case["compressor"] == "default" and op_failures(r):
        twins[0] = memtrace.run_case(dict(case, compressor="none"))
    evaluate(ctx, [r], twins)
