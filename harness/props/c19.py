"""C19 — acceptance and results do not depend on how resources are configured.

corr   : (1) the generated site table as Lean sees it  vs  the extractor's table;
         (2) every array created while calling each public function family under an explicit non-default Spec
             (observed by wrapping CoreArray.__init__ in this process, harness/spectrace.py): the chain of static
             creation sites on its call stack, fed to the Lean chain model, must predict the spec the array really got;
             creations at places the table does not know are reported;
         (3) the whole call, flattened to a model expression, must be accepted/rejected as `build` predicts;
         (4) get_buffer_copies / calculate_projected_mem / the admission test of real plans  vs  copies/projected/admits;
         (5) Spec.__eq__  vs  structural equality of the model Spec;  (6) intermediate_store  vs  storeOf.
oracle : independent of Lean — the same call recipe / generated program built and computed under every configuration
         variant (global default, config.set, explicit equal Spec, mixed explicit-equal and default inputs, other
         work_dir, MemoryStore / LocalStore intermediate store, compressor none / explicit codec, reserved_mem shifted,
         executor single-threaded / threads, larger allowed_mem, explicit Spec under an unusable global config): same phase
         and (before execution) exception type, same values.
         Tight sweep: with allowed−reserved fixed at exactly what the plan needs (and one byte less), every storage /
         compressor / executor / reserved-shift variant gives the same decision.
         Reserved-share sweep: expressions that rechunk arrays several times larger than the memory left for data
         (fixed corpus + seeded sizes + generated programs): at the smallest sufficient headroom h (and 1.5h, 3h) the
         decision of (allowed=h, reserved=0) equals that of (allowed=h+r, reserved=r), r in {h/4, h, 4h}, explicit Spec and
         global config; some accepted pairs are executed and their values compared.
"""
from __future__ import annotations

import contextlib
import os
import random as pyrandom
import shutil
import tempfile

DRIVER = "C19"
RULE = ("call recipes: one deterministic call of every public function family (creation incl. from_array/from_zarr/random, "
        "elementwise, scalars, clip, reductions, scans, nan-functions, indexing incl. integer arrays, take, flip, roll, repeat, tile, "
        "concat, stack, unstack, reshape family, broadcast, rechunk, pad, searchsorted, isin, matmul family, qr, svd, map_blocks, "
        "map_overlap, apply_gufunc, groupby, a composition) x configuration variants; generated programs: harness/exprgen.py "
        "(<=4 dims of 0..13, independent chunkings, all dtypes, depth<=4) x variants (quick: baseline + explicit non-default + 3 "
        "sampled variants per case, thorough: all 14); non-trivial = the case builds more than one array; distinct by recipe/program "
        "and variant")
ASSUMPTIONS = [
    "xarray is not installed: the xarray branch of asarray (`asarray(a.data, dtype=…, chunks=…, spec=spec)`, pragma: no cover) is "
    "exercised through a stand-in object (class module \"xarray.core.dataarray\", `.data`) as a must-hold regression case",
    "one configuration per expression: every input of an expression is created under the same configuration (the property's setting); "
    "mixing default-config arrays with arrays of an explicit field-wise equal Spec is also exercised",
    "allowed_mem suffices for the plan in the value sweep; the tight sweep compares decisions at equal allowed−reserved",
]
TRUSTED = [
    "modelled not verified: urlsplit(work_dir).scheme (model: text before the first ':'), object identity of stores/executors as numbers",
    "the call-stack observation of array creations (harness/spectrace.py) and the recipe table (harness/c19_recipes.py)",
]

DEFAULT_ALLOWED = 2_000_000_000
DEFAULT_RESERVED = 100_000_000


# ----------------------------------------------------------------------------------------------
# configuration variants
# ----------------------------------------------------------------------------------------------

class Variant:
    def __init__(self, name, spec=None, config=None, spec_for=None):
        self.name, self.spec, self.config, self.spec_for = name, spec, config, spec_for

    @contextlib.contextmanager
    def context(self):
        import cubed
        if self.config:
            with cubed.config.set(self.config):
                yield
        else:
            yield


def make_variants(tmp, headroom=None, reserved=DEFAULT_RESERVED):
    """All configuration variants.  With `headroom` given, every variant leaves exactly that many bytes for data
    (allowed = reserved + headroom); the default-config variants are then expressed through config.set."""
    import zarr

    import cubed
    from cubed.runtime.create import create_executor

    if headroom is None:
        allowed = DEFAULT_ALLOWED
        base = dict(allowed_mem=allowed, reserved_mem=reserved)
        vs = [Variant("default")]
    else:
        allowed = reserved + headroom
        base = dict(allowed_mem=allowed, reserved_mem=reserved)
        vs = [Variant("default", config={"spec.allowed_mem": allowed, "spec.reserved_mem": reserved})]
    S = cubed.Spec
    eq = S(**base)
    codec = {"name": "blosc", "configuration": {"cname": "lz4", "clevel": 2, "shuffle": "shuffle"}}
    vs += [
        Variant("workdir", spec=S(work_dir=os.path.join(tmp, "wd"), **base)),
        Variant("config_set", config={"spec.work_dir": os.path.join(tmp, "cfg"), "spec.allowed_mem": allowed + 7_000_000,
                                      "spec.reserved_mem": reserved + 7_000_000}),
        Variant("memstore", spec=S(intermediate_store=zarr.storage.MemoryStore(), **base)),
        Variant("localstore", spec=S(intermediate_store=zarr.storage.LocalStore(os.path.join(tmp, "ls")), **base)),
        Variant("comp_none", spec=S(zarr_compressor=None, **base)),
        Variant("comp_codec", spec=S(zarr_compressor=codec, **base)),
        Variant("reserved_shift", spec=S(allowed_mem=allowed + 333_000_000, reserved_mem=reserved + 333_000_000)),
        Variant("exec_single", spec=S(executor_name="single-threaded", **base)),
        Variant("exec_threads", spec=S(executor=create_executor("threads"), **base)),
        # an explicit Spec while the global default config is unusable: nothing may leak in from the global config
        Variant("poisoned_config", spec=S(work_dir=os.path.join(tmp, "wd-p"), **base),
                config={"spec.allowed_mem": 1, "spec.reserved_mem": 0, "spec.work_dir": "/proc/c19-not-writable",
                        "spec.zarr_compressor": {"name": "c19-no-such-codec", "configuration": {}}}),
    ]
    if headroom is None:
        vs += [
            Variant("equal", spec=eq),
            Variant("mixed_equal", spec=eq, spec_for=lambda n: eq if n % 2 else None),
        ]
        # a larger allowed_mem, within what the local executors accept (check_runtime_memory: allowed_mem * workers <= RAM)
        import psutil
        room = psutil.virtual_memory().total // max(1, os.cpu_count() or 1)
        big = min(2 * allowed, room)
        if big > allowed:
            vs.append(Variant("bigmem", spec=S(allowed_mem=big, reserved_mem=reserved)))
    return vs


# ----------------------------------------------------------------------------------------------
# running one case under one variant
# ----------------------------------------------------------------------------------------------

def run_case(build_fn, variant, want_plan=False, execute=True):
    """-> dict(phase='ok'|'build'|'plan'|'execute', exc=type name or None, msg, values, plan info)."""
    import cubed
    from c19_recipes import Env
    phase = "build"
    out = {"phase": "ok", "exc": None, "msg": "", "values": None, "narrays": 0, "need": None}
    try:
        with variant.context():
            pyrandom.seed(20260923)
            E = Env(spec=variant.spec, spec_for=variant.spec_for)
            res = build_fn(E)
            out["narrays"] = len(res)
            phase = "plan"
            fp = cubed.plan(*res)
            if want_plan:
                ops = [d["primitive_op"] for _, d in fp.dag.nodes(data=True) if d.get("primitive_op") is not None]
                out["need"] = max([op.projected_mem - op.reserved_mem for op in ops], default=0)
                out["nops"] = len(ops)
            fp.validate()
            phase = "execute"
            out["values"] = cubed.compute(*res) if execute else ()
    except Exception as e:  # noqa: BLE001 -- the exception type is the observable
        out.update(phase=phase, exc=type(e).__name__, msg=" ".join(str(e).split())[:160])
    return out


def same_values(a, b):
    import numpy as np
    if len(a) != len(b):
        return "number of results %d vs %d" % (len(a), len(b))
    for i, (x, y) in enumerate(zip(a, b)):
        x, y = np.asarray(x), np.asarray(y)
        if x.shape != y.shape or x.dtype != y.dtype:
            return "result %d: %s%s vs %s%s" % (i, x.dtype, x.shape, y.dtype, y.shape)
        if x.dtype.fields:
            ok = all(np.array_equal(x[f], y[f], equal_nan=x[f].dtype.kind in "fc") for f in x.dtype.fields)
        else:
            ok = np.array_equal(x, y, equal_nan=x.dtype.kind in "fc")
        if not ok:
            return "result %d differs" % i
    return None


def classify(case, base, got):
    """Name of a listed defect this failure is an instance of, or None.  No C19 defect is listed: the two found so far
    (searchsorted helper array, xarray unwrap in asarray) are fixed in the tree, so any recurrence is a violation."""
    return None


def probe_xarray_unwrap(ctx, tmp):
    """Regression case (fixed by 8171939): asarray() unwraps xarray objects by re-entering asarray(a.data, …, spec=spec) and
    must forward the spec.  xarray is not installed, so the branch is driven
    with a stand-in that has the two things the branch looks at (module name starts with "xarray", a `.data` attribute)."""
    import types

    import numpy as np

    import cubed

    class DataArray:
        def __init__(self, data):
            self.data = data
            self.variable = types.SimpleNamespace(_data=data)  # cubed.utils.extract_array_names looks at this for xarray objects

    DataArray.__module__ = "xarray.core.dataarray"

    def build(E):
        a = E.xp.asarray(DataArray(np.arange(6)), **E.kw)
        return [a + E.xp.ones((6,), dtype=a.dtype, chunks=(6,), **E.kw)]

    base = run_case(build, Variant("default"))
    v = Variant("workdir", spec=cubed.Spec(work_dir=os.path.join(tmp, "wd-x"), allowed_mem=DEFAULT_ALLOWED, reserved_mem=DEFAULT_RESERVED))
    got = run_case(build, v)
    case = {"probe": "asarray-xarray-standin", "call": "asarray(<xarray-like object wrapping np.arange(6)>, spec=S) + ones((6,), spec=S)"}
    ctx.count(dict(case, variant=v.name), nontrivial=True, kind="probe:xarray-unwrap:" + got["phase"])
    compare(ctx, case, base, got, v.name)


def compare(ctx, case, base, got, vname, rerun=None, base_name="global default config"):
    """Compare an outcome with the baseline outcome; report through ctx.fail.  `rerun() -> (base outcome, variant outcome)`
    is used when both sides die inside a task with different exception types: which task of a doomed computation fails
    first depends on the thread schedule, so the legal outcome is a set; the case is a failure only if each side is
    stable over repeated runs and the two still differ."""
    c = dict(case, variant=vname)
    if rerun is not None and base["phase"] == got["phase"] == "execute" and base["exc"] != got["exc"]:
        seen_b, seen_g = {base["exc"]}, {got["exc"]}
        for _ in range(3):
            b2, g2 = rerun()
            seen_b.add(b2["exc"] if b2["phase"] == "execute" else b2["phase"])
            seen_g.add(g2["exc"] if g2["phase"] == "execute" else g2["phase"])
        if len(seen_b) > 1 or len(seen_g) > 1 or seen_b & seen_g:
            ctx.dist["schedule-dependent-task-failure"] += 1
            return True
    if base["phase"] == got["phase"] == "execute" and base["exc"] != got["exc"]:
        # both computations die inside a task; which of several doomed tasks is reported first depends on the executor's
        # order (threads vs single-threaded), not on the resources: same decision, phase compared, type recorded only
        ctx.dist["execute-phase-type-differs(%s/%s)" % (base["exc"], got["exc"])] += 1
        return True
    if (base["phase"], base["exc"]) != (got["phase"], got["exc"]):
        ctx.fail("acceptance differs: baseline (%s) -> %s, variant %s -> %s" % (
            base_name, _show(base), vname, _show(got)), c, key=classify(c, base, got))
        return False
    if base["phase"] == "ok":
        d = same_values(base["values"], got["values"])
        if d:
            ctx.fail("values differ between the baseline (%s) and variant %s: %s" % (base_name, vname, d), c, key=classify(c, base, got))
            return False
    return True


def _show(o):
    return "ok" if o["phase"] == "ok" else "%s in phase %s (%s)" % (o["exc"], o["phase"], o["msg"][:90])


# ----------------------------------------------------------------------------------------------
# cases: recipes and generated programs
# ----------------------------------------------------------------------------------------------

def recipe_cases():
    from c19_recipes import RECIPES
    return [({"recipe": name, "family": fam}, fn) for name, fam, fn, _ in RECIPES]


def _execute(case):
    """Recipes of family `planonly` are built and planned but not run (their task dies inside NumPy the same way under
    every configuration, with a traceback on stderr)."""
    return case.get("family") != "planonly"


def program_case(rng, families=None, max_elems=400):
    import exprgen
    prog = exprgen.gen_program(rng, max_depth=rng.choice([2, 3, 4]), max_inputs=3, families=families, max_elems=max_elems,
                               max_blocks=24 if max_elems <= 400 else 64)
    desc = prog.describe()

    def build(E, prog=prog):
        import numpy as np
        vals = []
        for arr, i in zip(prog.input_arrays(), prog.inputs):
            vals.append(E.arr(np.asarray(arr), tuple(i["chunks"])))
        for o in prog.ops:
            vals.append(exprgen._apply(o["op"], E.xp, False, [vals[j] for j in o["in"]], o["params"]))
        return [vals[j] for j in prog.outputs]
    return {"program": desc, "families": sorted(prog.families())}, build


def sweep(ctx, cases, variants, sample=None, kind="sweep", deadline=None):
    """Run every case under the baseline and under the variants (all, or the explicit non-default one + `sample` others)."""
    import time
    base_v = variants[0]
    others = variants[1:]
    for case, fn in cases:
        if deadline is not None and time.time() > deadline:
            ctx.notes.append("%s sweep stopped at its time limit" % kind)
            return
        base = run_case(fn, base_v, execute=_execute(case))
        chosen = others
        if sample is not None and len(others) > sample + 1:
            rest = [v for v in others if v.name != "workdir"]
            chosen = [v for v in others if v.name == "workdir"] + ctx.rng.sample(rest, sample)
        for v in chosen:
            got = run_case(fn, v, execute=_execute(case))
            label = case.get("recipe") or ("program:" + "+".join(case.get("families", [])[:3]))
            ctx.count({"case": label if "recipe" in case else case, "variant": v.name, "baseline": base["phase"]},
                      nontrivial=True, kind="%s:%s:%s" % (kind, v.name, base["phase"]))
            compare(ctx, case, base, got, v.name,
                    rerun=lambda v=v: (run_case(fn, base_v, execute=_execute(case)), run_case(fn, v, execute=_execute(case))))


def tight_sweep(ctx, cases, tmp, sample=None, deadline=None):
    """Same headroom everywhere: the decision (and the values) must not depend on storage / compressor / executor /
    a joint shift of allowed and reserved memory.  Headroom = exactly what the baseline plan needs, and one byte less."""
    import time
    generous = make_variants(tmp)
    for case, fn in cases:
        if deadline is not None and time.time() > deadline:
            ctx.notes.append("tight sweep stopped at its time limit")
            return
        info = run_case(fn, generous[1], want_plan=True)  # explicit Spec, local work_dir
        if info["phase"] != "ok" or not info.get("need"):
            continue
        for delta in (0, -1):
            h = info["need"] + delta
            vs = make_variants(tmp, headroom=h, reserved=1_000_000)
            base = run_case(fn, vs[0])
            others = [v for v in vs[1:] if v.name != "config_set"]
            if sample is not None:
                others = [v for v in others if v.name == "workdir"] + ctx.rng.sample([v for v in others if v.name != "workdir"], sample)
            for v in others:
                got = run_case(fn, v)
                ctx.count({"case": case.get("recipe", "program"), "variant": v.name, "headroom": h, "baseline": base["phase"]},
                          nontrivial=True, kind="tight:%s:%s" % ("exact" if delta == 0 else "minus1", base["phase"]))
                compare(ctx, dict(case, headroom=h, reserved=1_000_000), base, got, v.name,
                        rerun=lambda v=v, vs=vs: (run_case(fn, vs[0]), run_case(fn, v)))
            if delta == 0 and base["phase"] == "plan":
                # allowed memory that sufficed under the generous configuration: monotonicity says a plan-phase refusal at
                # exactly the needed headroom can only come from a plan that changed with the headroom (rechunk, qr)
                ctx.dist["tight:plan-changed-with-headroom"] += 1


# ----------------------------------------------------------------------------------------------
# same headroom, different reserved share (arrays larger than the per-task budget)
# ----------------------------------------------------------------------------------------------

def _big_transpose(n, c):
    def build(E):
        an = E.np.arange(n * n, dtype="float64").reshape(n, n)
        a = E.cubed.from_array(an, chunks=(n, c), **E.kw)
        b = a.rechunk((c, n))
        return [b, E.xp.sum(E.xp.add(b, 1.0), axis=0)]
    return build


def _big_mixed_add(n, c):
    def build(E):
        an = E.np.arange(n * n, dtype="float64").reshape(n, n)
        a = E.cubed.from_array(an, chunks=(n, c), **E.kw)       # (asarray refuses in-memory arrays above 1 MB)
        b = E.cubed.from_array(an.T * 0.5, chunks=(c, n), **E.kw)
        return [E.xp.max(E.xp.add(a, b), axis=1)]      # operands chunked across each other: internal rechunk
    return build


def _big_1d(n, c1, c2):
    def build(E):
        a = E.cubed.from_array(E.np.arange(n, dtype="int64"), chunks=(c1,), **E.kw)
        return [E.xp.sum(E.cubed.rechunk(a, (c2,)) * 2)]
    return build


def big_corpus(rng, tier):
    """Expressions with a rechunk (explicit or internal) of an array several times larger than the memory left for data,
    so that the rechunk planner sizes its copy chunks at its limit (multi-stage plans).  The first entry is fixed
    (transposing rechunk of an 8 MB array, then add and sum(axis=0)); the others vary with the seed."""
    n = rng.randrange(300, 420, 4)
    c = rng.choice([4, 6, 8, 10])
    out = [
        ({"corpus": "rechunk_transpose_add_sum", "n": 1000, "chunk": 10}, _big_transpose(1000, 10)),
        ({"corpus": "rechunk_transpose_add_sum", "n": n, "chunk": c}, _big_transpose(n, c)),
        ({"corpus": "add_of_cross_chunked", "n": n, "chunk": c}, _big_mixed_add(n, c)),
    ]
    m = rng.randrange(150_000, 300_000, 1000)
    out.append(({"corpus": "rechunk_1d", "n": m, "chunks": [1000, 70_000]}, _big_1d(m, 1000, 70_000)))
    if tier != "quick":
        for _ in range(4):
            case, fn = program_case(rng, families=["rechunk", "binary", "reduce", "permute_dims", "concat", "reshape"], max_elems=100_000)
            out.append((case, fn))
    return out


def corpus_fn(case):
    if case["corpus"] == "rechunk_transpose_add_sum":
        return _big_transpose(case["n"], case["chunk"])
    if case["corpus"] == "add_of_cross_chunked":
        return _big_mixed_add(case["n"], case["chunk"])
    return _big_1d(case["n"], *case["chunks"])


def share_variant(tmp, h, r, via):
    import cubed
    if via == "config":
        return Variant("config(allowed=%d,reserved=%d)" % (h + r, r),
                       config={"spec.work_dir": os.path.join(tmp, "share-cfg"), "spec.allowed_mem": h + r, "spec.reserved_mem": r})
    return Variant("Spec(allowed=%d,reserved=%d)" % (h + r, r),
                   spec=cubed.Spec(work_dir=os.path.join(tmp, "share"), allowed_mem=h + r, reserved_mem=r))


def reserved_share_sweep(ctx, cases, tmp, deadline=None, execute_budget=2):
    """Theorem (c): admission depends on the spec only through allowed − reserved.  For each case find (on a ladder) the
    smallest headroom h that (allowed=h, reserved=0) accepts; then for h, 1.5h, 3h compare the decision of
    (allowed=h, reserved=0) with (allowed=h+r, reserved=r), r in {h/4, h, 4h}, as explicit Spec and as global config.
    Decisions are taken up to plan validation; a few accepted pairs are also executed and their values compared."""
    import time
    executed = 0
    for case, fn in cases:
        if deadline is not None and time.time() > deadline:
            ctx.notes.append("reserved-share sweep stopped at its time limit")
            return
        hmin = None
        h = 60_000
        while h < 80_000_000:
            o = run_case(fn, share_variant(tmp, h, 0, "spec"), execute=False)
            if o["phase"] == "ok":
                hmin = h
                break
            h = h * 3 // 2
        if hmin is None:
            continue
        label = case.get("corpus") or "program"
        for mult in (2, 3, 6):               # h, 1.5 h, 3 h
            h = hmin * mult // 2
            base_v = share_variant(tmp, h, 0, "spec")
            base = run_case(fn, base_v, execute=False)
            for r in (h // 4, h, 4 * h):
                for via in ("spec", "config"):
                    v = share_variant(tmp, h, r, via)
                    got = run_case(fn, v, execute=False)
                    c = dict(case, headroom=h, reserved=r, via=via, baseline="Spec(allowed=%d, reserved=0)" % h)
                    ctx.count({"case": label, "n": case.get("n"), "headroom": h, "reserved": r, "via": via},
                              nontrivial=True, kind="share:%s:%s" % (via, base["phase"]))
                    ok = compare(ctx, c, base, got, v.name, base_name=base_v.name)
                    if ok and base["phase"] == "ok" and executed < execute_budget and r == h and via == "spec" and mult == 2 \
                            and case.get("n", 0) != 1000:
                        executed += 1
                        b2, g2 = run_case(fn, base_v), run_case(fn, v)
                        ctx.count({"case": label, "headroom": h, "reserved": r, "executed": True}, nontrivial=True, kind="share:executed")
                        compare(ctx, c, b2, g2, v.name, base_name=base_v.name)
            if any(not f["key"] for f in ctx.failures):
                return


# ----------------------------------------------------------------------------------------------
# correspondence
# ----------------------------------------------------------------------------------------------

class Batch:
    """Collect the requests of all correspondence parts and run the Lean driver once."""

    def __init__(self):
        self.reqs, self.handlers = [], []

    def add(self, reqs, handler):
        """handler(answers) is called with the answers to exactly these requests."""
        self.handlers.append((len(self.reqs), len(reqs), handler))
        self.reqs.extend(reqs)

    def run(self, ctx):
        ans = ctx.lean.drive(DRIVER, self.reqs)
        for start, n, h in self.handlers:
            h(ans[start:start + n])


def _cls(spec, S, D):
    if spec is S or spec == S:
        return "opnd"
    if spec == D:
        return "dflt"
    return "other"


def corr_sites(ctx, sites, batch):
    import extract_c19
    reqs = ["site|" + s["id"] for s in sites]

    def done(ans):
        for s, a in zip(sites, ans):
            ctx.count({"site": s["id"], "kind": s["kind"]}, nontrivial=False, kind="site:" + s["kind"])
            if a != s["kind"]:
                ctx.disagree("GeneratedC19.sites = extractor's site table", {"site": s["id"]}, a, s["kind"])
    batch.add(reqs, done)
    ctx.extra["site_kinds"] = {k: sum(1 for s in sites if s["kind"] == k) for k in extract_c19.KINDS}


def corr_chains(ctx, sites, batch):
    """Dynamic creations vs the chain model; whole calls vs `build`."""
    import cubed
    import extract_c19
    from c19_recipes import RECIPES, Env
    from common import REPO
    from cubed.spec import spec_from_config
    from spectrace import Tracer

    creators = extract_c19.creators(REPO)
    D = spec_from_config(cubed.config)
    tmp = tempfile.mkdtemp(prefix="c19-corr-")
    S = cubed.Spec(work_dir=os.path.join(tmp, "opnd"), allowed_mem=400_000_000, reserved_mem=1_000_000)
    reqs, metas = [], []
    covered = set()
    restarts = 0
    cases = [(name, fn) for name, _, fn, _ in RECIPES]
    nprog = ctx.budget(15, 120)
    for _ in range(nprog):
        case, fn = program_case(ctx.rng)
        cases.append(("program", fn, case))
    for item in cases:
        name, fn = item[0], item[1]
        desc = {"recipe": name} if len(item) == 2 else item[2]
        for cfg, spec in (("other", S), ("default", None)):
            if cfg == "default" and (name == "program" or ctx.rng.random() < 0.6):
                continue
            tr = Tracer(REPO, sites, creators)
            raised = None
            with tr:
                try:
                    pyrandom.seed(20260923)
                    fn(Env(spec))
                except Exception as e:  # noqa: BLE001
                    raised = e
            opnd = S if spec is not None else D
            inputs, helpers = [], []
            for r in tr.records:
                restarts += r.get("restarts", 0)
                for u in r["unmatched"]:
                    ctx.disagree("every array creation goes through a site of the table", dict(desc, cfg=cfg, frames=r["frames"][-4:]),
                                 "in table", "not in table: " + u)
                if not r["chain"]:
                    continue
                covered.update(r["chain"])
                init = "none" if r["init"] == "none" else {"opnd": "opnd", "dflt": "dflt"}.get(_cls(r["init"], S, D), "other")
                if spec is None and init != "none":
                    init = "dflt"
                got = _cls(r["spec"], S, D) if spec is not None else ("dflt" if r["spec"] == D else "other")
                reqs.append("chain|%s|%s|%s" % ("O" if spec is not None else "D", init, ";".join(r["chain"])))
                metas.append(("chain", dict(desc, cfg=cfg, chain=r["chain"], init=init), got, spec is not None))
                (inputs if r.get("outer") in ("asarray",) and len(r["chain"]) == 1 else helpers).append(",".join(r["chain"]))
            # whole call -> model expression (inputs = arrays created by a direct asarray call of the recipe)
            same_spec_error = isinstance(raised, ValueError) and "same spec" in str(raised)
            if raised is not None and not same_spec_error:
                continue  # declined for a reason unrelated to the configuration
            if not inputs and not helpers:
                continue
            if not inputs:
                inputs, helpers = helpers[:1], helpers[1:]
            chains = ";".join(helpers) or "-"
            e = "(c %s)" % inputs[0]
            if len(inputs) == 1:
                e = "(u %s %s)" % (chains, e)
            else:
                e = "(b %s %s (c %s))" % (chains, e, inputs[1])
                for extra in inputs[2:]:
                    e = "(b - %s (c %s))" % (e, extra)
            reqs.append("build|%s|%s" % (cfg, e))
            metas.append(("build", dict(desc, cfg=cfg, arrays=len(inputs) + len(helpers)),
                          "reject" if same_spec_error else ("ok cfg" if cfg == "other" else "ok dflt"), True))
    def done(ans):
        for rq, (kind, case, impl, informative), a in zip(reqs, metas, ans):
            ctx.count({"req": rq[:300], "impl": impl}, nontrivial=informative and (kind == "build" or len(case.get("chain", [])) > 1),
                      kind="corr:%s:%s" % (kind, impl))
            ctx.traces += 1
            if a != impl:
                ctx.disagree("helperSpec / build = spec actually carried by the created array / real acceptance" if kind == "chain"
                             else "build = real acceptance of the call", dict(case, request=rq[:400]), a, impl)
    batch.add(reqs, done)
    uncovered = sorted(s["id"] for s in sites if s["id"] not in covered)
    ctx.extra["sites_total"] = len(sites)
    ctx.extra["sites_reached_dynamically"] = len(sites) - len(uncovered)
    ctx.extra["sites_uncovered"] = uncovered
    ctx.notes.append("creation sites not reached by any recipe/program (reported, not failed): %s" % (uncovered or "none"))
    ctx.extra["chain_restarts"] = restarts
    shutil.rmtree(tmp, ignore_errors=True)


WORKDIRS = [None, "/tmp/c19-x", "relative/dir", "file:///tmp/c19-y", "s3://bucket/prefix", "gs://bucket/x", "S3://Bucket/UP",
            "gcs://bucket/x", "s3a://bucket", "http://host/x", "/tmp/with:colon", "memory://x", "C:\\temp", "az://cont/x", "s3:/odd"]


def corr_memory(ctx, batch):
    import numpy as np

    import cubed
    import cubed.array_api as xp
    from cubed.primitive.memory import calculate_projected_mem, get_buffer_copies
    rng = ctx.rng
    reqs, exp, cases = [], [], []
    for _ in range(ctx.budget(300, 3000)):
        wd = rng.choice(WORKDIRS)
        reserved = rng.choice([0, 1, 1000, 10 ** 6, rng.randint(0, 10 ** 7)])
        ins = [rng.choice([0, 1, 8, rng.randint(1, 10 ** 6)]) for _ in range(rng.randint(0, 4))]
        op = rng.choice([0, 0, rng.randint(0, 10 ** 6)])
        out = rng.choice([0, 8, rng.randint(1, 10 ** 6)])
        spec0 = cubed.Spec(work_dir=wd, allowed_mem=0, reserved_mem=reserved)
        bc = get_buffer_copies(spec0)
        proj = calculate_projected_mem(reserved, ins, op, out, bc)
        allowed = rng.choice([proj, proj - 1, proj + 1, rng.randint(0, 2 * proj + 10)])
        allowed = max(allowed, 0)
        reqs.append("accept|%d|%d|%s|%s|%d|%d" % (allowed, reserved, wd if wd is not None else "-", ",".join(map(str, ins)) or "-", op, out))
        exp.append("copies=%d,%d projected=%d accept=%s" % (bc.read, bc.write, proj, "false" if proj > allowed else "true"))
        cases.append({"work_dir": wd, "allowed": allowed, "reserved": reserved, "inputs": ins, "operation": op, "output": out})
    # real plans: add(a, b) under Specs around the exact requirement (local and cloud work_dir; the plan is never executed)
    for _ in range(ctx.budget(40, 300)):
        n, c = rng.randint(1, 40), rng.randint(1, 12)
        dt = rng.choice(["int8", "int32", "float64"])
        wd = rng.choice([None, "/tmp/c19-z", "s3://c19-never-touched/x", "gs://c19-never-touched/y"])
        reserved = rng.choice([0, 12345, 10 ** 6])
        item = np.dtype(dt).itemsize
        chunkmem = min(n, c) * item
        probe = cubed.Spec(work_dir=wd, allowed_mem=10 ** 9, reserved_mem=reserved)
        a = xp.asarray(np.arange(n).astype(dt), chunks=(c,), spec=probe)
        z = xp.add(a, a)
        op = [d["primitive_op"] for _, d in z._plan.dag.nodes(data=True) if d.get("primitive_op") is not None][-1]
        proj = op.projected_mem
        allowed = max(0, proj + rng.choice([-1, 0, 0, 1, 5000, -chunkmem]))
        spec = cubed.Spec(work_dir=wd, allowed_mem=allowed, reserved_mem=reserved)
        a = xp.asarray(np.arange(n).astype(dt), chunks=(c,), spec=spec)
        z = xp.add(a, a)
        try:
            cubed.plan(z, optimize_graph=False).validate()
            acc = "true"
        except ValueError:
            acc = "false"
        reqs.append("accept|%d|%d|%s|%d,%d|0|%d" % (allowed, reserved, wd if wd is not None else "-", chunkmem, chunkmem, chunkmem))
        bc = get_buffer_copies(spec)
        exp.append("copies=%d,%d projected=%d accept=%s" % (bc.read, bc.write, proj, acc))
        cases.append({"plan": "add(a,a)", "n": n, "chunk": c, "dtype": dt, "work_dir": wd, "allowed": allowed, "reserved": reserved})
    # check_runtime_memory of the local executors
    import psutil
    from cubed.runtime.executors.local import check_runtime_memory
    total = psutil.virtual_memory().total
    for _ in range(ctx.budget(40, 300)):
        workers = rng.randint(1, 64)
        allowed = rng.choice([total // workers, total // workers + 1, max(0, total // workers - 1), rng.randint(0, 2 * total // workers)])
        try:
            check_runtime_memory(cubed.Spec(allowed_mem=allowed), workers)
            ok = "true"
        except ValueError:
            ok = "false"
        reqs.append("machine|%d|%d|%d" % (total, workers, allowed))
        exp.append(ok)
        cases.append({"machine_total": total, "workers": workers, "allowed": allowed})
    def done(ans):
        for rq, e, a, case in zip(reqs, exp, ans, cases):
            if rq.startswith("machine"):
                ctx.count({"req": rq}, nontrivial=True, kind="corr:machine:" + e)
                if e != a:
                    ctx.disagree("machineOk = check_runtime_memory", case, a, e)
                continue
            ctx.count({"req": rq}, nontrivial=True, kind="corr:accept:" + e.split("accept=")[1] + (":plan" if "plan" in case else ""))
            if e != a:
                ctx.disagree("copies / projected / admits = get_buffer_copies / calculate_projected_mem / plan admission", case, a, e)
    batch.add(reqs, done)


def corr_speceq_store(ctx, batch):
    import tempfile as tf

    import zarr

    import cubed
    from cubed.core.plan import intermediate_store
    from cubed.runtime.create import create_executor
    rng = ctx.rng
    # (two empty MemoryStores compare equal, so the two store objects are of different kinds)
    stores = [None, zarr.storage.MemoryStore(), zarr.storage.LocalStore(os.path.join(tf.gettempdir(), "c19-speceq-store"))]
    execs = [None, create_executor("single-threaded"), create_executor("threads")]
    sopts = [None, {"anon": True}, {"anon": False}]
    comps = [("auto", "auto"), ("off", None), ("c1", {"name": "blosc", "configuration": {"cname": "lz4", "clevel": 2, "shuffle": "shuffle"}}),
             ("c2", {"name": "zstd", "configuration": {"level": 3}})]
    wds = [None, "/tmp/c19-a", "/tmp/c19-b", "s3://b/x"]

    def rand():
        i = [rng.randrange(len(x)) for x in (wds, stores, execs, sopts, comps)]
        al, re_ = rng.choice([0, 1000, 2000]), rng.choice([0, 10])
        enc = "%s;%s;%d;%d;%s;%s;%s" % (wds[i[0]] or "-", i[1] or "-", al, re_, i[2] or "-", i[3] or "-", comps[i[4]][0])
        # same dict object for the same index: dict equality is structural anyway (distinct indices have distinct contents)
        sp = cubed.Spec(work_dir=wds[i[0]], intermediate_store=stores[i[1]], allowed_mem=al, reserved_mem=re_, executor=execs[i[2]],
                        storage_options=sopts[i[3]], zarr_compressor=comps[i[4]][1])
        return enc, sp

    reqs, exp = [], []
    for _ in range(ctx.budget(200, 2000)):
        e1, s1 = rand()
        if rng.random() < 0.4:
            e2, s2 = e1, cubed.Spec(work_dir=s1.work_dir, intermediate_store=s1.intermediate_store, allowed_mem=s1.allowed_mem,
                                    reserved_mem=s1.reserved_mem, executor=s1.executor, storage_options=s1.storage_options,
                                    zarr_compressor=s1.zarr_compressor)
        else:
            e2, s2 = rand()
        reqs.append("speceq|%s|%s" % (e1, e2))
        exp.append("true" if s1 == s2 else "false")
        if rng.random() < 0.3:
            reqs.append("store|" + e1)
            st = intermediate_store(s1)
            if s1.intermediate_store is not None:
                exp.append("object:%d" % [k for k, o in enumerate(stores) if o is s1.intermediate_store][0])
            else:
                base = s1.work_dir if s1.work_dir is not None else tf.gettempdir()
                exp.append(("dir:%s" % (s1.work_dir or "-")) if str(st).startswith(base) else "dir:?" + str(st))
    def done(ans):
        for rq, e, a in zip(reqs, exp, ans):
            ctx.count({"req": rq}, nontrivial=True, kind="corr:" + rq.split("|")[0] + ":" + e.split(":")[0])
            if e != a:
                ctx.disagree("Spec equality / storeOf = Spec.__eq__ / intermediate_store", {"request": rq}, a, e)
    batch.add(reqs, done)


def corr(ctx):
    import extract_c19
    from common import REPO
    import time
    sites = extract_c19.sites(REPO)
    tm = ctx.extra.setdefault("seconds", {})
    batch = Batch()
    for label, f in (("corr_sites", lambda: corr_sites(ctx, sites, batch)), ("corr_chains", lambda: corr_chains(ctx, sites, batch)),
                     ("corr_memory", lambda: corr_memory(ctx, batch)), ("corr_speceq_store", lambda: corr_speceq_store(ctx, batch)),
                     ("lean_driver", lambda: batch.run(ctx))):
        t0 = time.time()
        f()
        tm[label] = round(time.time() - t0, 1)


# ----------------------------------------------------------------------------------------------
# oracle / search
# ----------------------------------------------------------------------------------------------

TIGHT_RECIPES = ["elementwise", "reductions", "rechunk", "matmul_family", "searchsorted", "pad", "qr", "index_array", "tril_triu",
                 "concat_stack_unstack", "map_blocks", "arange"]


def static_suspects(ctx):
    """Independent of Lean: creation sites that drop the spec, straight from the extractor."""
    import extract_c19
    from common import REPO
    try:
        sites = extract_c19.sites(REPO)
    except Exception as e:  # noqa: BLE001
        ctx.notes.append("site table not available: %r" % (e,))
        return []
    bad = [s for s in sites if s["kind"] in ("missing", "unknown")]
    if bad:
        ctx.notes.append("creation sites that do not thread the spec: " + "; ".join("%s [%s] %s" % (s["id"], s["kind"], s["text"]) for s in bad))
    return bad


def oracle(ctx, n_programs=None, sample="auto"):
    tmp = tempfile.mkdtemp(prefix="c19-oracle-")
    try:
        static_suspects(ctx)
        probe_xarray_unwrap(ctx, tmp)
        variants = make_variants(tmp)
        if sample == "auto":
            sample = 1 if ctx.tier == "quick" else None
        import time
        tm = ctx.extra.setdefault("seconds", {})
        t0 = time.time()
        sweep(ctx, recipe_cases(), variants, sample=sample, kind="recipe")
        tm["oracle_recipes"] = round(time.time() - t0, 1)
        t0 = time.time()
        n = n_programs if n_programs is not None else ctx.budget(20, 40)
        progs = [program_case(ctx.rng) for _ in range(n)]
        sweep(ctx, progs, variants, sample=sample, kind="program")
        tm["oracle_programs"] = round(time.time() - t0, 1)
        t0 = time.time()
        from c19_recipes import by_name
        tight = [({"recipe": r}, by_name(r)[2]) for r in TIGHT_RECIPES]
        if ctx.tier == "quick":
            tight = ctx.rng.sample(tight, 3)
        tight += [program_case(ctx.rng) for _ in range(ctx.budget(2, 10))]
        if ctx.tier != "quick":
            tight.append(({"corpus": "rechunk_transpose_add_sum", "n": 360, "chunk": 8}, _big_transpose(360, 8)))
        tight_sweep(ctx, tight, tmp, sample=4 if ctx.tier == "quick" else None)
        tm["oracle_tight"] = round(time.time() - t0, 1)
        t0 = time.time()
        reserved_share_sweep(ctx, big_corpus(ctx.rng, ctx.tier), tmp, execute_budget=ctx.budget(1, 4))
        tm["oracle_reserved_share"] = round(time.time() - t0, 1)
    finally:
        shutil.rmtree(tmp, ignore_errors=True)


def search(ctx):
    """A proof obligation or a correspondence relation no longer checks: look for an expression whose acceptance or value
    depends on the configuration.  Time-boxed (quick: 3 min, thorough: 10 min).  Order: the reserved-share sweep on the
    large-array corpus (cheap, decisions only); recipes of functions that enclose a suspicious site; the tight sweep; then
    seeded recipes / programs under all variants until the time is up."""
    import time

    import exprgen
    ctx.rng.seed(ctx.seed + 7919)
    deadline = time.time() + ctx.budget(180, 600)
    tmp = tempfile.mkdtemp(prefix="c19-search-")

    def found():
        return any(not f["key"] for f in ctx.failures)
    try:
        bad = static_suspects(ctx)
        reserved_share_sweep(ctx, big_corpus(ctx.rng, "thorough"), tmp, deadline=deadline, execute_budget=2)
        if found():
            return
        variants = make_variants(tmp)
        from c19_recipes import RECIPES, by_name
        suspects = {s["function"].split(".")[-1] for s in bad}
        first = [({"recipe": n, "family": f, "suspect_site": sorted(suspects)}, fn) for n, f, fn, cov in RECIPES
                 if suspects & set(cov) or any(x in n for x in suspects)]
        sweep(ctx, first, variants, sample=None, kind="search-suspect", deadline=deadline)
        if found():
            return
        fams = [f for f in exprgen.FAMILIES if any(x in f for x in suspects)] or None
        if fams:
            sweep(ctx, [program_case(ctx.rng, families=fams + ["binary"]) for _ in range(20)], variants, sample=None,
                  kind="search-family", deadline=deadline)
            if found():
                return
        tight_sweep(ctx, [({"recipe": r}, by_name(r)[2]) for r in TIGHT_RECIPES], tmp, sample=4, deadline=deadline)
        if found():
            return
        sweep(ctx, recipe_cases(), variants, sample=3, kind="search-recipe", deadline=deadline)
        if found():
            return
        sweep(ctx, [program_case(ctx.rng) for _ in range(ctx.budget(40, 80))], variants, sample=3, kind="search-program", deadline=deadline)
    finally:
        shutil.rmtree(tmp, ignore_errors=True)


def replay(ctx, body):
    """Re-run the failing case of a replay file under the baseline and the recorded variant and print both outcomes."""
    case = body.get("case", {})
    tmp = tempfile.mkdtemp(prefix="c19-replay-")
    try:
        if "via" in case:   # reserved-share sweep
            fn = corpus_fn(case) if "corpus" in case else None
            if fn is None:
                import exprgen
                prog = exprgen.Program.from_description(case["program"])

                def fn(E, prog=prog):
                    import numpy as np
                    vals = [E.arr(np.asarray(a), tuple(i["chunks"])) for a, i in zip(prog.input_arrays(), prog.inputs)]
                    for o in prog.ops:
                        vals.append(exprgen._apply(o["op"], E.xp, False, [vals[j] for j in o["in"]], o["params"]))
                    return [vals[j] for j in prog.outputs]
            for v in (share_variant(tmp, case["headroom"], 0, "spec"), share_variant(tmp, case["headroom"], case["reserved"], case["via"])):
                o = run_case(fn, v, execute=False)
                print("replay %-46s -> %s" % (v.name, _show(o) if o["phase"] != "ok" else "accepted"))
            return
        if "headroom" in case:
            variants = make_variants(tmp, headroom=case["headroom"], reserved=case.get("reserved", 1_000_000))
        else:
            variants = make_variants(tmp)
        if "corpus" in case:
            fn = corpus_fn(case)
        elif "recipe" in case:
            from c19_recipes import by_name
            fn = by_name(case["recipe"])[2]
        else:
            import exprgen
            prog = exprgen.Program.from_description(case["program"])

            def fn(E, prog=prog):
                import numpy as np
                vals = [E.arr(np.asarray(a), tuple(i["chunks"])) for a, i in zip(prog.input_arrays(), prog.inputs)]
                for o in prog.ops:
                    vals.append(exprgen._apply(o["op"], E.xp, False, [vals[j] for j in o["in"]], o["params"]))
                return [vals[j] for j in prog.outputs]
        for v in variants:
            if v.name in ("default", case.get("variant")):
                o = run_case(fn, v)
                print("replay %-14s -> %s" % (v.name, _show(o) if o["phase"] != "ok" else "ok " + repr([x.tolist() if x.size < 30 else x.shape for x in o["values"]])[:300]))
    finally:
        shutil.rmtree(tmp, ignore_errors=True)
