"""C06 — tasks are idempotent and independent of order, repetition and placement.

corr   : (a) `cubed.utils.block_id_to_offset / offset_to_block_id`, the offsets virtual array behind `map_blocks(block_id)`
             and the Philox key of `cubed.random._random`  vs  the Lean model (`ravel?`, `unravel?`, `blockIdOf`, `philoxKey`);
         (b) store traces: a real plan is run by the adversarial executor (harness/advexec.py) on a tracing store; the observed
             read/write footprint of every task, and the executed schedule (shuffled, with duplicates and late re-executions),
             are sent to the Lean driver, which checks the hypotheses of the theorems on the footprint (single writer, no self
             read, later ops never write earlier ops' keys), replays the schedule with `runL` over free symbolic values and
             says which writes are equal in the model; every model equality must hold for the bytes the implementation wrote.
oracle : independent of Lean.  The same program is run in plain order (reference) and adversarially (shuffle, duplicates
         immediately / after the op / after downstream ops, cloudpickle round trips, fresh spawned processes); every key of
         the store must hold identical bytes afterwards, every re-execution must leave the whole store byte-identical,
         all writes of one key must carry identical bytes, results must equal NumPy; random arrays must equal an
         independent Philox reconstruction per block and distinct blocks must differ.
"""
from __future__ import annotations

import itertools
import math
import random as pyrandom
import shutil
import tempfile

DRIVER = "C06"
RULE = ("programs drawn from {elementwise chain, tree reduction (split_every 2-3), rechunk, index/selection, concat, stack, "
        "map_blocks with block_id, two-output op, matmul, cubed.random.random} on 1-3-d arrays of 1-40 chunks, optimizer on/off; "
        "per op a shuffled task order, 0-3 immediate duplicates per task, 0-2 duplicates after the op, 0-2 late re-executions of "
        "earlier ops' tasks after each op and after the plan (create-arrays included), 25% of executions through a cloudpickle "
        "round trip; in half of the oracle cases 15% of the tasks are preceded by an attempt that dies before its first or second "
        "write and 15% of the immediate duplicates die likewise; spawn cases ship up to 3 executions to fresh processes; offsets: grids of rank 0-4 with sizes 1-5 (and 0), "
        "blocks inside / outside the grid, negative entries, wrong rank; non-trivial = more than one task in some op and at "
        "least one re-execution (plans), rank >= 2 with some size > 1 (offsets); distinct by case description")
ASSUMPTIONS = [
    "hypothesis OpOK.single (one writer per key within an op, C05) — checked on the observed footprint of every traced plan",
    "hypothesis OpOK.noSelfRead (no task reads a key written by its own op) — checked likewise",
    "hypothesis PlanOK.final (no later op writes a key an earlier op reads or writes; producers run first, C07) — checked likewise",
    "a task's read and write key sets do not depend on the store contents — checked: every re-execution shows the footprint of the first",
    "the root group key `zarr.json` (written by whichever create-arrays task runs first, identical bytes) is outside the model; "
    "the oracle checks that all its writes carry identical bytes",
    "block grids have fewer than 2^31 blocks (the offsets virtual array is int32) and root_seed + number of blocks <= 2^128",
]
TRUSTED = [
    "modelled not verified: executions interleave at the granularity of single-key writes, each write atomic (zarr writes a chunk "
    "with one `set`); overlapping executions (backups) are covered as interleavings of such writes by C06_write_level_interleaving",
    "modelled not verified: cloudpickle round-trip fidelity and the global state of a fresh process (exercised by the oracle's "
    "spawned executions, not proved); Philox streams with distinct keys being statistically independent; zarr codecs being "
    "deterministic (identical arrays encode to identical bytes)",
]

ROOT_KEYS = ("zarr.json", ".zgroup", ".zattrs", ".zmetadata")


# ----------------------------------------------------------------------------------------------
# programs
# ----------------------------------------------------------------------------------------------

def _shape_chunks(rng, maxdim=3, maxlen=7, maxblocks=40):
    while True:
        nd = rng.randint(1, maxdim)
        shape = tuple(rng.randint(1, maxlen) for _ in range(nd))
        chunks = tuple(rng.randint(1, s) for s in shape)
        nb = math.prod(-(-s // c) for s, c in zip(shape, chunks))
        if nb <= maxblocks:
            return shape, chunks


def _arr(np, shape, k=1):
    return (np.arange(int(np.prod(shape)), dtype="int64").reshape(shape) + 1) * k


def _add_block_id(block, block_id=None):
    v = 0
    for b in block_id:
        v = v * 10 + (b + 1)
    return block + v * 1000


def _two_outputs(x):
    yield x * 2
    yield -x - 1


def prog_elementwise(rng, spec, np, cubed, xp):
    shape, chunks = _shape_chunks(rng)
    an, bn = _arr(np, shape), _arr(np, shape, 7)
    a = xp.asarray(an, chunks=chunks, spec=spec)
    b = xp.asarray(bn, chunks=chunks, spec=spec)
    c, cn = xp.add(a, b), an + bn
    n = rng.randint(1, 3)
    for i in range(n):
        r = rng.randrange(3)
        if r == 0:
            c, cn = xp.negative(c), -cn
        elif r == 1:
            c, cn = xp.multiply(c, a), cn * an
        else:
            c, cn = xp.subtract(c, b), cn - bn
    return (c,), [cn], {"shape": shape, "chunks": chunks, "steps": n}


def prog_reduce(rng, spec, np, cubed, xp):
    shape, chunks = _shape_chunks(rng, maxlen=9)
    an = _arr(np, shape)
    a = xp.asarray(an, chunks=chunks, spec=spec)
    axis = rng.choice([None] + list(range(len(shape))))
    kind = rng.choice(["sum", "max", "mean"])
    se = rng.choice([2, 3])
    if kind == "sum":
        r, rn = xp.sum(a, axis=axis, split_every=se), an.sum(axis=axis)
    elif kind == "max":
        r, rn = xp.max(a, axis=axis, split_every=se), an.max(axis=axis)
    else:
        af = xp.astype(a, xp.float64)
        r, rn = xp.mean(af, axis=axis, split_every=se), an.astype("float64").mean(axis=axis)
    return (r,), [rn], {"shape": shape, "chunks": chunks, "axis": axis, "kind": kind, "split_every": se}


def prog_rechunk(rng, spec, np, cubed, xp):
    shape, chunks = _shape_chunks(rng, maxlen=8)
    new = tuple(rng.randint(1, s) for s in shape)
    an = _arr(np, shape)
    # a small memory budget makes the rechunk a multi-task (often two-stage) copy; fall back to larger budgets
    # when the planner refuses (chunk larger than max_mem, blockwise projected memory over the budget)
    cmem = 8 * max(math.prod(chunks), math.prod(new))
    last = None
    for factor in (rng.choice([5, 8, 12]), 20, 40, None):
        sp = spec if factor is None else cubed.Spec(intermediate_store=spec.intermediate_store, work_dir=spec.work_dir,
                                                    allowed_mem=max(factor * cmem, 200), reserved_mem=0)
        try:
            a = xp.add(xp.asarray(an, chunks=chunks, spec=sp), 1)
            r = xp.multiply(a.rechunk(new), 3)
            for og in (True, False):   # the memory checks happen on the finalized plan
                r.plan(optimize_graph=og).validate()
            return (r,), [(an + 1) * 3], {"shape": shape, "chunks": chunks, "new_chunks": new, "allowed_mem": sp.allowed_mem}
        except ValueError as e:
            last = e
    raise last


def _prog_index_once(rng, spec, np, cubed, xp):
    shape, chunks = _shape_chunks(rng, maxlen=8)
    an = _arr(np, shape)
    a = xp.asarray(an, chunks=chunks, spec=spec)
    sel, desc = [], []
    # cubed allows one integer-array index per selection, and not together with integer indexes
    mode = rng.choice(["array", "ints", "slices"])
    array_axis = rng.randrange(len(shape)) if mode == "array" else None
    for ax, s in enumerate(shape):
        r = rng.random()
        if ax == array_axis:
            idx = sorted(rng.randrange(s) for _ in range(rng.randint(1, s)))
            sel.append(idx)
            desc.append(str(idx))
        elif r < 0.55:
            lo = rng.randint(0, s - 1)
            hi = rng.randint(lo + 1, s)
            st = rng.choice([1, 1, 2])
            sel.append(slice(lo, hi, st))
            desc.append("%d:%d:%d" % (lo, hi, st))
        elif r < 0.75 and mode == "ints" and len(shape) > 1:
            i = rng.randrange(s)
            sel.append(i)
            desc.append(str(i))
        else:
            sel.append(slice(None))
            desc.append(":")
    r = a[tuple(sel)]
    rn = an[tuple(sel)]
    return (xp.add(r, 1),), [rn + 1], {"shape": shape, "chunks": chunks, "index": desc}


def prog_index(rng, spec, np, cubed, xp):
    # cubed refuses some selections when the plan is built (NotImplementedError / "Chunks ... must be a multiple of");
    # that is outside this property: draw again
    last = None
    for _ in range(8):
        try:
            return _prog_index_once(rng, spec, np, cubed, xp)
        except (NotImplementedError, ValueError) as e:
            last = e
    raise last


def prog_concat_stack(rng, spec, np, cubed, xp):
    shape, chunks = _shape_chunks(rng, maxlen=5, maxblocks=12)
    an, bn = _arr(np, shape), _arr(np, shape, 5)
    a = xp.asarray(an, chunks=chunks, spec=spec)
    b = xp.negative(xp.asarray(bn, chunks=chunks, spec=spec))
    if rng.random() < 0.5:
        ax = rng.randrange(len(shape))
        r, rn, kind = xp.concat([a, b], axis=ax), np.concatenate([an, -bn], axis=ax), "concat"
    else:
        ax = rng.randint(0, len(shape))
        r, rn, kind = xp.stack([a, b], axis=ax), np.stack([an, -bn], axis=ax), "stack"
    return (r,), [rn], {"shape": shape, "chunks": chunks, "axis": ax, "kind": kind}


def prog_block_id(rng, spec, np, cubed, xp):
    shape, chunks = _shape_chunks(rng)
    an = _arr(np, shape)
    a = xp.asarray(an, chunks=chunks, spec=spec)
    r = cubed.map_blocks(_add_block_id, xp.add(a, 0), dtype=a.dtype)
    rn = an.copy()
    nbs = [-(-s // c) for s, c in zip(shape, chunks)]
    for bid in itertools.product(*[range(n) for n in nbs]):
        sl = tuple(slice(i * c, (i + 1) * c) for i, c in zip(bid, chunks))
        rn[sl] = _add_block_id(an[sl], block_id=bid)
    return (xp.negative(r),), [-rn], {"shape": shape, "chunks": chunks}


def prog_multi_output(rng, spec, np, cubed, xp):
    from cubed.core.ops import general_blockwise
    from cubed.primitive.blockwise import ChunkKey, FunctionArgs
    shape, chunks = _shape_chunks(rng)
    an = _arr(np, shape)
    a = xp.add(xp.asarray(an, chunks=chunks, spec=spec), 1)
    name = a.name

    def back_key_function(out_key):
        return FunctionArgs(ChunkKey(name, out_key.coords), output_name=out_key.name)

    b, c = general_blockwise(_two_outputs, back_key_function, a, shapes=[a.shape, a.shape], dtypes=[a.dtype, a.dtype],
                             chunkss=[a.chunks, a.chunks], target_stores=[None, None])
    d = xp.add(b, c)
    return (b, c, d), [(an + 1) * 2, -(an + 1) - 1, an], {"shape": shape, "chunks": chunks}


def prog_matmul(rng, spec, np, cubed, xp):
    n, k, m = rng.randint(1, 5), rng.randint(1, 6), rng.randint(1, 5)
    cn, ck, cm = rng.randint(1, n), rng.randint(1, k), rng.randint(1, m)
    an, bn = _arr(np, (n, k)), _arr(np, (k, m), 3)
    a = xp.asarray(an, chunks=(cn, ck), spec=spec)
    b = xp.asarray(bn, chunks=(ck, cm), spec=spec)
    return (xp.matmul(a, b),), [an @ bn], {"shapes": [(n, k), (k, m)], "chunks": [(cn, ck), (ck, cm)]}


def prog_random(rng, spec, np, cubed, xp):
    import cubed.random
    shape, chunks = _shape_chunks(rng, maxlen=6)
    root = rng.getrandbits(128) if rng.random() < 0.8 else rng.getrandbits(20)
    root = min(root, 2 ** 128 - 1 - 4096)
    saved = cubed.random.pyrandom.getrandbits
    cubed.random.pyrandom.getrandbits = lambda n: root   # pins root_seed (harness process only)
    try:
        r = cubed.random.random(shape, chunks=chunks, spec=spec)
    finally:
        cubed.random.pyrandom.getrandbits = saved
    post = rng.random() < 0.5
    out = xp.multiply(r, 2.0) if post else r
    # independent reconstruction: block b of the grid = Philox(key = root + row-major index of b)
    from numpy.random import Generator, Philox
    rn = np.empty(shape, dtype="float64")
    nbs = [-(-s // c) for s, c in zip(shape, chunks)]
    for bid in itertools.product(*[range(n) for n in nbs]):
        sl = tuple(slice(i * c, min((i + 1) * c, s)) for i, c, s in zip(bid, chunks, shape))
        off = 0
        for i, n_ in zip(bid, nbs):
            off = off * n_ + i
        rn[sl] = Generator(Philox(key=root + off)).random(rn[sl].shape)
    if post:
        rn = rn * 2.0
    return (out,), [rn], {"shape": shape, "chunks": chunks, "root_seed": str(root), "post": post, "numblocks": nbs}


PROGRAMS = {
    "elementwise": prog_elementwise, "reduce": prog_reduce, "rechunk": prog_rechunk, "index": prog_index,
    "concat_stack": prog_concat_stack, "block_id": prog_block_id, "multi_output": prog_multi_output,
    "matmul": prog_matmul, "random": prog_random,
}


# ----------------------------------------------------------------------------------------------
# one case: reference run + adversarial run
# ----------------------------------------------------------------------------------------------

class CaseResult:
    pass


def run_case(case_seed, spawn=False, program=None, max_spawn=2, p_abort=0.0):
    """Everything is derived from `case_seed` (replayable).  Returns a CaseResult with the raw observations."""
    import numpy as np
    import zarr

    import advexec
    import cubed
    import cubed.array_api as xp
    from advexec import TRACE, TracingStore, clear, snapshot

    rng = pyrandom.Random(case_seed)
    name = rng.choice(sorted(PROGRAMS))
    name = program or name
    res = CaseResult()
    res.case = {"case_seed": case_seed, "program": name, "spawn": spawn, "p_abort": p_abort}
    res.error = None
    tmp = None
    import warnings
    warnings.simplefilter("ignore")
    try:
        if spawn:
            tmp = tempfile.mkdtemp(prefix="c06-")
            store = tmp
            spec = cubed.Spec(work_dir=tmp, allowed_mem="200MB", reserved_mem=0)
        else:
            store = TracingStore(zarr.storage.MemoryStore())
            spec = cubed.Spec(intermediate_store=store, allowed_mem="200MB", reserved_mem=0)
        arrays, expected, desc = PROGRAMS[name](rng, spec, np, cubed, xp)
        optimize = rng.random() < 0.5
        adv_seed = rng.getrandbits(32)
        res.case.update({"params": desc, "optimize_graph": optimize, "adv_seed": adv_seed})
        Ex = advexec.make_executor_class()
        # reference: plain order, every task once
        TRACE.reset()
        ref_ex = Ex(plain=True, store=store)
        ref_vals = cubed.compute(*arrays, executor=ref_ex, optimize_graph=optimize)
        res.ref_snapshot = snapshot(store)
        res.ref_vals = [np.asarray(v) for v in ref_vals]
        res.ref_errors = ref_ex.errors
        res.ref_events = list(TRACE.events)
        # adversarial
        clear(store)
        TRACE.reset()
        if spawn:
            ex = Ex(seed=adv_seed, store=store, p_now=0.2, n_after=1, n_late=1, p_spawn=0.25, p_pickle=0.3, max_spawn=max_spawn)
        else:
            ex = Ex(seed=adv_seed, store=store, p_pickle=0.25, p_abort=p_abort)
        adv_vals = cubed.compute(*arrays, executor=ex, optimize_graph=optimize)
        res.adv_snapshot = snapshot(store)
        res.adv_vals = [np.asarray(v) for v in adv_vals]
        res.ex = ex
        res.events = list(TRACE.events)
        res.expected = expected
        res.ntasks = [n for _, n in ex.ops]
        res.case["ops"] = ["%s:%d" % on for on in ex.ops]
        res.case["executions"] = len(ex.executions)
    except Exception as e:  # noqa: BLE001
        import traceback
        res.error = "%r | %s" % (e, traceback.format_exc(limit=3)[-400:])
    finally:
        TRACE.reset()
        if tmp:
            shutil.rmtree(tmp, ignore_errors=True)
    return res


def sched_of(ex, upto=None):
    return [(e["op"], e["task"], e["phase"] + ("(died before write %d)" % e["aborted_before_write"] if e.get("aborted") else ""),
             e["placement"]) for e in ex.executions[:upto]]


def nontrivial(res):
    return res.error is None and max(res.ntasks[1:] or [0]) > 1 and any(e["phase"] != "first" for e in res.ex.executions)


# ----------------------------------------------------------------------------------------------
# direct oracle on one case
# ----------------------------------------------------------------------------------------------

def check_direct(ctx, res):
    import numpy as np
    case = res.case
    if res.error is not None:
        ctx.fail("program raised under the reference or the adversarial executor: " + res.error, case)
        return
    ex = res.ex
    if res.ref_errors:
        e, msg = res.ref_errors[0]
        ctx.fail("task raised in the plain reference run: %s" % msg, dict(case, execution=e))
        return
    for e, msg in ex.errors[:1]:
        ctx.fail("task execution raised (%s, placement %s): %s" % (e["phase"], e["placement"], msg),
                 dict(case, execution=e, schedule_prefix=sched_of(ex, e["id"] + 1)[-12:]))
    # (1) a re-execution leaves every byte of the store unchanged
    for e, keys in ex.rerun_diffs[:1]:
        ctx.fail("re-execution (%s, %s) of task %d of %s changed stored bytes of %s" % (e["phase"], e["placement"], e["task"], e["op"], keys),
                 dict(case, execution=e, changed_keys=keys, schedule_prefix=sched_of(ex, e["id"] + 1)[-12:]))
    # (2) every key holds the same bytes as after the plain run
    diff = [k for k in sorted(set(res.ref_snapshot) | set(res.adv_snapshot)) if res.ref_snapshot.get(k) != res.adv_snapshot.get(k)]
    # The root *group* metadata is no chunk and no array: zarr writes it as a side effect of the first array creation.  A
    # create-arrays task that dies between its two writes leaves the array metadata without the group metadata, and its
    # re-execution (open-or-create) does not add it.  Arrays open regardless, no value depends on it: recorded, not a failure.
    root_only = [k for k in diff if k.split("/")[-1] in ROOT_KEYS and (k in ROOT_KEYS or k.count("/") == 1 and k.startswith("cubed-"))]
    if root_only:
        ctx.dist["observed:root-group-metadata-absent-after-aborted-create"] += 1
        diff = [k for k in diff if k not in root_only]
    if diff:
        ctx.fail("store differs from the plain-order run at %d key(s), e.g. %s" % (len(diff), diff[:4]),
                 dict(case, differing_keys=diff[:8], schedule=sched_of(ex)[:60]))
    # (3) all writes of one key carry identical bytes (in-memory cases: traced)
    writes = {}
    for eid, kind, key, dig in res.events:
        if kind in ("set", "del"):
            writes.setdefault(key, set()).add(dig if kind == "set" else "<deleted>")
    bad = sorted(k for k, v in writes.items() if len(v) > 1)
    if bad:
        ctx.fail("repeated writes of one key carried different bytes: %s" % bad[:4], dict(case, keys=bad[:8], schedule=sched_of(ex)[:60]))
    # (4) results: adversarial = reference = NumPy
    for i, (rv, av, want) in enumerate(zip(res.ref_vals, res.adv_vals, res.expected)):
        if rv.shape != av.shape or not np.array_equal(rv, av):
            ctx.fail("result %d of the adversarial run differs from the plain-order run" % i, dict(case, schedule=sched_of(ex)[:60]))
        want = np.asarray(want)
        ok = rv.shape == want.shape and (np.array_equal(rv, want) if case["program"] != "reduce" else np.allclose(rv, want, rtol=1e-12, atol=0))
        if not ok:
            ctx.fail("result %d of the plain-order run differs from NumPy" % i, case)
    # (5) random arrays: distinct blocks differ
    if case["program"] == "random" and not case["params"]["post"]:
        v = res.adv_vals[0]
        chunks, shape = case["params"]["chunks"], case["params"]["shape"]
        blocks = {}
        for bid in itertools.product(*[range(-(-s // c)) for s, c in zip(shape, chunks)]):
            sl = tuple(slice(i * c, (i + 1) * c) for i, c in zip(bid, chunks))
            blk = v[sl]
            blocks.setdefault(blk.shape, []).append((bid, blk.tobytes()))
        for shp, lst in blocks.items():
            if math.prod(shp) >= 2 and len({b for _, b in lst}) != len(lst):
                ctx.fail("two distinct blocks of a random array hold identical values", dict(case, block_shape=shp))


# ----------------------------------------------------------------------------------------------
# correspondence (b): observed footprint + schedule -> Lean replay
# ----------------------------------------------------------------------------------------------

def array_key(k):
    """`<array>/zarr.json` and chunk keys `<array>/c[/i/j...]`; not the root group key, not the v2 probes (.zarray/.zattrs)."""
    parts = k.split("/")
    return len(parts) >= 2 and (parts[-1] == "zarr.json" or parts[1] == "c")


def build_trace_request(res):
    """Returns (request line, exec_writes) or (None, reason).  exec_writes[i] = {key number: digest of the last write}"""
    ex = res.ex
    opindex = {name: i for i, (name, _) in enumerate(ex.ops)}
    per_exec = {}
    for eid, kind, key, dig in res.events:
        if eid is None or not array_key(key):
            continue
        per_exec.setdefault(eid, {"get": [], "set": {}})
        if kind == "get":
            per_exec[eid]["get"].append(key)
        else:
            per_exec[eid]["set"][key] = dig if kind == "set" else "<deleted>"
    tasks = {}       # (op, task) -> dict(id, reads set, writes set)
    unstable = []
    for e in ex.executions:
        fp = per_exec.get(e["id"], {"get": [], "set": {}})
        rd, wr = set(fp["get"]), set(fp["set"])
        t = tasks.get((e["op"], e["task"]))
        if t is None:
            tasks[(e["op"], e["task"])] = {"id": len(tasks), "reads": rd, "writes": wr, "op": opindex[e["op"]]}
        elif e["op"] == "create-arrays":
            # mode="a": a re-execution finds the key present and does not write (model: Task.ifAbsent)
            if not (wr <= t["writes"] and rd <= t["reads"] | t["writes"]):
                unstable.append((e, sorted(wr - t["writes"]), sorted(rd - t["reads"])))
        elif (t["reads"], t["writes"]) != (rd, wr):
            unstable.append((e, sorted(t["writes"] ^ wr), sorted(t["reads"] ^ rd)))
    written_by_someone = set().union(*[t["writes"] for t in tasks.values()]) if tasks else set()
    keys = sorted(written_by_someone | set().union(*[t["reads"] for t in tasks.values()]) if tasks else [])
    # keys nobody ever writes hold their initial value in every store: irrelevant for equalities, dropped from reads
    keynum = {k: i for i, k in enumerate(keys)}
    defs = []
    for (op, ti), t in sorted(tasks.items(), key=lambda kv: kv[1]["id"]):
        create = op == "create-arrays"
        reads = sorted(keynum[k] for k in t["reads"] if k in written_by_someone and not (create and k in t["writes"]))
        writes = sorted(keynum[k] for k in t["writes"])
        defs.append("%d:%d:%s:%s:%s" % (t["id"], t["op"], "C" if create else "T",
                                        ",".join(map(str, reads)) or "-", ",".join(map(str, writes)) or "-"))
    phases = [[[], []] for _ in ex.ops]
    cur = -1
    for e in ex.executions:
        tid = tasks[(e["op"], e["task"])]["id"]
        if e["phase"] == "late":
            phases[cur][1].append(tid)
        else:
            cur = opindex[e["op"]]
            phases[cur][0].append(tid)
    ph = ";".join("%s/%s" % (",".join(map(str, s)) or "-", ",".join(map(str, l)) or "-") for s, l in phases)
    exec_writes = []
    for e in ex.executions:
        fp = per_exec.get(e["id"], {"get": [], "set": {}})
        exec_writes.append({keynum[k]: d for k, d in fp["set"].items()})
    return "trace|%s|%s" % (";".join(defs), ph), exec_writes, unstable, keys


def corr_traces(ctx, n):
    reqs, metas = [], []
    names = sorted(PROGRAMS)
    for i in range(n):
        cs = ctx.rng.getrandbits(40)
        res = run_case(cs, program=names[i % len(names)])
        if res.error is not None:
            ctx.fail("program raised under the reference or the adversarial executor: " + res.error, res.case)
            continue
        req, exec_writes, unstable, keys = build_trace_request(res)
        for e, dw, dr in unstable[:1]:
            ctx.disagree("a task's footprint is independent of the store (model: fixed reads/writes per task)",
                         dict(res.case, execution=e), "same footprint as first execution", {"writes_differ": dw[:4], "reads_differ": dr[:4]})
        reqs.append(req)
        metas.append((res, exec_writes, keys))
    ans = ctx.lean.drive(DRIVER, reqs)
    for (res, exec_writes, keys), a in zip(metas, ans):
        ctx.count({"trace": res.case}, nontrivial=nontrivial(res), kind="trace:" + res.case["program"])
        ctx.traces += 1
        parts = dict(p.split("=", 1) for p in a.split(" ") if "=" in p)
        case = dict(res.case)
        if parts.get("hyp") != "ok":
            h = parts.get("hyp", a[:80])
            ids = h.split(":", 1)[1].split(",") if ":" in h else []
            case["tasks"] = ids
            ctx.disagree("hypotheses of the C06 theorems hold on the observed footprint (single writer / no self read / final inputs)",
                         case, "ok", h)
        if parts.get("phases") != "ok":
            ctx.disagree("executed schedule is of the form covered by C06_adversarial_schedule_invariant", case, "ok", parts.get("phases"))
        if parts.get("final") != "eq" and parts.get("hyp") == "ok":
            ctx.disagree("abstract replay of the executed schedule ends in the store of the plain order", case, "eq", parts.get("final"))
        # model equalities must hold for the bytes written
        vals = parts.get("vals", "").split(";") if parts.get("vals") else []
        by_term = {}
        for e, ws, item in zip(res.ex.executions, exec_writes, vals):
            if e["placement"] == "spawn":
                continue
            for kv in filter(None, item.split(",")):
                k, v = kv.split(":")
                dig = ws.get(int(k))
                if dig is None and e["op"] == "create-arrays":
                    continue    # key already present: nothing written, the model value is the stored one
                if dig is None:
                    ctx.disagree("every execution writes all keys of the task's footprint", dict(case, execution=e), "writes key %s" % keys[int(k)], "no write observed")
                    continue
                prev = by_term.setdefault(v, (dig, e))
                if prev[0] != dig:
                    ctx.disagree("writes that are equal in the model (same symbolic term) carry identical bytes",
                                 dict(case, execution=e, earlier_execution=prev[1], key=keys[int(k)]), "equal", "bytes differ")


# ----------------------------------------------------------------------------------------------
# correspondence (a): offsets, block ids, Philox keys
# ----------------------------------------------------------------------------------------------

def _fmt(xs):
    xs = list(xs)
    return ",".join(str(int(x)) for x in xs) if xs else "-"


def gen_grid(rng):
    rank = rng.choice([0, 1, 1, 2, 2, 2, 3, 3, 4])
    nbs = [rng.choice([1, 1, 2, 3, 4, 5]) for _ in range(rank)]
    if rng.random() < 0.03 and rank:
        nbs[rng.randrange(rank)] = 0
    return nbs


def gen_block(rng, nbs):
    r = rng.random()
    ids = [rng.randrange(n) if n else 0 for n in nbs]
    if r < 0.10 and ids:
        i = rng.randrange(len(ids))
        ids[i] = nbs[i] + rng.randint(0, 1)          # outside the grid
    elif r < 0.15 and ids:
        ids[rng.randrange(len(ids))] = -rng.randint(1, 2)
    elif r < 0.20:
        ids = ids + [0] if rng.random() < 0.5 else ids[:-1]   # wrong rank
    return ids


def corr_offsets(ctx, n):
    import numpy as np

    import cubed.random
    from cubed.storage.virtual import virtual_offsets
    from cubed.utils import block_id_to_offset, offset_to_block_id

    reqs, exp, cases = [], [], []

    def add(req, e, case, nontriv):
        reqs.append(req)
        exp.append(e)
        cases.append((case, nontriv))

    for _ in range(n):
        nbs = gen_grid(ctx.rng)
        ids = gen_block(ctx.rng, nbs)
        nt = len(nbs) >= 2 and any(x > 1 for x in nbs)
        try:
            e = "ok %d" % block_id_to_offset(tuple(ids), tuple(nbs))
        except ValueError:
            e = "error"
        add("ravel|%s|%s" % (_fmt(ids), _fmt(nbs)), e, {"block_id": ids, "numblocks": nbs}, nt)
        size = math.prod(nbs)
        off = ctx.rng.randrange(size) if size and ctx.rng.random() < 0.85 else ctx.rng.choice([size, size + 1, -1])
        try:
            e = "ok " + _fmt(offset_to_block_id(off, tuple(nbs)))
        except ValueError:
            e = "error"
        add("unravel|%d|%s" % (off, _fmt(nbs)), e, {"offset": off, "numblocks": nbs}, nt)
        # the block_id a map_blocks function sees: offsets virtual array read at the task's coords, then offset_to_block_id
        if size and len(nbs) == len(ids) and all(0 <= i < n_ for i, n_ in zip(ids, nbs)):
            try:
                offs = virtual_offsets(tuple(nbs))
                v = int(offs[tuple(slice(i, i + 1) for i in ids)]) if nbs else int(offs[()])
                e = "ok " + _fmt(offset_to_block_id(v, tuple(nbs)))
            except Exception as ex:  # noqa: BLE001
                e = "exc %r" % (ex,)
            add("blockid|%s|%s" % (_fmt(ids), _fmt(nbs)), e, {"coords": ids, "numblocks": nbs, "what": "block_id"}, nt)
            # Philox key used by cubed.random._random for this block
            root = ctx.rng.getrandbits(128) if ctx.rng.random() < 0.8 else 2 ** 128 - 1 - ctx.rng.randint(0, size)
            seen = []
            import numpy.random as npr
            real = npr.Philox

            class Rec(real):  # records the key, then behaves like Philox
                def __init__(self, *a, key=None, **kw):
                    seen.append(key)
                    super().__init__(*a, key=key, **kw)
            npr.Philox = Rec
            try:
                cubed.random._random(np.empty((2,)), numblocks=tuple(nbs), root_seed=root, block_id=tuple(ids))
                e = ("ok %d" % seen[0]) if seen and seen[0] is not None else "no-philox-key"
            except ValueError:
                e = "error"
            finally:
                npr.Philox = real
            add("philox|%d|%s|%s" % (root, _fmt(ids), _fmt(nbs)), e, {"root_seed": str(root), "block_id": ids, "numblocks": nbs}, nt)
    ans = ctx.lean.drive(DRIVER, reqs)
    for rq, e, a, (case, nt) in zip(reqs, exp, ans, cases):
        ctx.count({"offsets": rq, "impl": e}, nontrivial=nt, kind="offsets:" + rq.split("|")[0] + ":" + e.split(" ")[0])
        if e != a:
            ctx.disagree("ravel?/unravel?/blockIdOf/philoxKey = cubed.utils / virtual offsets / cubed.random._random", dict(case, request=rq), a, e)


# ----------------------------------------------------------------------------------------------
# entry points
# ----------------------------------------------------------------------------------------------

def corr(ctx):
    import time
    t = time.time()
    corr_offsets(ctx, ctx.budget(1500, 12000))
    t1 = time.time()
    corr_traces(ctx, ctx.budget(18, 150))
    ctx.notes.append("corr: offsets %.1fs, traces %.1fs" % (t1 - t, time.time() - t1))


def oracle_cases(ctx, n, nspawn):
    names = sorted(PROGRAMS)
    for i in range(n):
        cs = ctx.rng.getrandbits(40)
        prog = names[i % len(names)] if i < 2 * len(names) else None    # every program at least twice, then random
        res = run_case(cs, program=prog, p_abort=0.15 if i % 2 else 0.0)
        ctx.count({"oracle": res.case}, nontrivial=nontrivial(res), kind="oracle:" + res.case["program"])
        check_direct(ctx, res)
    spawn_progs = ["random", "block_id", "multi_output", "reduce", "elementwise", "rechunk", "index", "concat_stack", "matmul"]
    for i in range(nspawn):
        cs = ctx.rng.getrandbits(40)
        res = run_case(cs, spawn=True, program=spawn_progs[i % len(spawn_progs)], max_spawn=ctx.budget(2, 3))
        ctx.count({"oracle-spawn": res.case}, nontrivial=nontrivial(res), kind="oracle-spawn:" + res.case["program"])
        if res.error is None:
            ctx.dist["spawned-executions"] += res.ex.spawned
        check_direct(ctx, res)


def oracle(ctx):
    import time
    t = time.time()
    oracle_cases(ctx, ctx.budget(45, 400), ctx.budget(2, 10))
    ctx.notes.append("oracle: %.1fs" % (time.time() - t))


def search(ctx):
    ctx.rng.seed(ctx.seed + 7919)
    oracle_cases(ctx, ctx.budget(90, 300), ctx.budget(4, 9))


def replay(ctx, body):
    """./check C06 --replay replays/C06-<seed>-failing-input.json : re-run the recorded case."""
    import common
    common.use_repo()
    case = body.get("case", {})
    if "case_seed" not in case:
        print("replay file has no case_seed")
        return
    res = run_case(case["case_seed"], spawn=bool(case.get("spawn")), program=case.get("program"),
                   p_abort=case.get("p_abort", 0.0))
    check_direct(ctx, res)
    for f in ctx.failures:
        print("REPLAY-FAILURE:", f["what"])
    if not ctx.failures:
        print("REPLAY: case passes")
