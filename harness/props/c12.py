"""C12 — declared shape/dtype/chunks are truthful; written blocks match their chunk shape.

corr   : every call of a modelled shape-calculus function made while building real expressions (exprgen programs and
         family-dense programs) is recorded with its real parameters (`blockshape.CallTracer`), the expressions are
         executed unfused by the shape-recording executor, and for every recorded call the Lean model
         (drivers/C12.lean) must give the same declared (shape, chunks, numblocks) as the real output array and, at
         every out coordinate, the same block shape as the block the real function returned.
         Repaired defects (qr short row chunk, stack of differently chunked operands, scan with ragged groups) are
         must-hold regression cases; the three remaining findings are recognised by call site + trigger
         (`classify_mismatches`), anything else is a violation.
oracle : independent of Lean: (a) `BlockShapeExecutor` compares every block returned by every op's function (fused ops,
         every output of multi-output ops, every field of structured results) with the region it is written into;
         (b) `Array.shape/dtype/chunks` before compute == shape/dtype of the computed result == shape/dtype/chunk grid
         of the backing zarr array == shape (and dtype, see DTYPE_RULES) NumPy gives for the same expression.
"""
from __future__ import annotations

import functools
import itertools
import json
import logging
import warnings

DRIVER = "C12"
RULE = ("programs: exprgen (0-4 dims, dims 0-13 incl. 0 and 1, chunks 1..dim+1 chosen per input, 13 dtypes, 35 op families, DAGs of "
        "<=6 ops, 1-3 outputs): one third unrestricted, two thirds family-dense groups (elementwise/broadcast, reductions, "
        "axes, join, select, linalg), plus single-family programs for 21 focus families (repeat, index, concat, stack, unstack, "
        "squeeze, expand_dims, permute_dims, reduce, argreduce, cumulative, rechunk, qr, ...); direct calls on random metas "
        "(rank 1-4, dims 0-13, chunks 1..dim+1, <=64 blocks): map_blocks with chunks/drop_axis/new_axis, partial_reduce with "
        "split_every/combine_sizes, merge_chunks, rechunk, expand_dims/squeeze with 1-2 axes, index (ints, int arrays, slices "
        "with steps in +-1..7), repeat, broadcasting add, multi-axis reductions, Array.blocks[...] (ints, slices, lists of block "
        "indexes sorted/reordered/repeated, short last blocks incl. extent 1, plus 16 fixed cases); dtype sweep: 27 unary/reduction functions x 13 "
        "dtypes, 13 binary functions x 13 dtypes, add over all 156 mixed pairs; optimize_graph on and off; every out coordinate "
        "of every op in the oracle, <=64 per op in the correspondence; non-trivial = some array of the case has >1 block / "
        "the op has >1 out block; distinct by JSON description / request text")
ASSUMPTIONS = [
    "inputs of an op are arrays whose chunks are regular grids (what CoreArray.__init__ derives from the zarr chunk size) — checked on every array met",
    "NumPy's shape behaviour of the block functions (elementwise broadcasting, keepdims reductions, expand_dims/squeeze/"
    "permute_dims, repeat, linalg.qr reduced mode, basic slicing) is as modelled — validated at every compared coordinate",
    "zarr's indexer selects ceil((min(stop,n)-min(start,n))/step) items for a positive-step slice — validated likewise",
    "tree_reduce depth = ceil(log(nb, k)) is computed in floating point: theorem takes k^depth >= nb as hypothesis",
    "dtype rules (result_type, _upcast_integral_dtypes) are compared differentially with NumPy, not proved (DTYPE_RULES)",
    "the map_blocks / blockwise derivation of squeeze and expand_dims (mapBlocksToBw + bwChunkss) equals the structural formulas the "
    "theorems are stated on (removeAxes / expandAxes): checked inside the driver on every squeeze / expand_dims request (sc=1)",
    "stack's operand unification (stackUnify: rechunk to the first operand's chunk size, zero-size arrays left unchanged) is compared "
    "with the operands the real op reads on every stack call",
]
TRUSTED = ["modelled not verified: NumPy block kernels' shapes, zarr indexer / chunk-write broadcasting, ndindex canonicalisation "
           "(newshape, expand), dask normalize_chunks for non-integer inputs, dtype promotion tables"]

# dtype: the hard requirement is declared == computed == stored.  Against NumPy we require equality as well; the array-API
# rules cubed follows on purpose coincide with NumPy 2 (NEP 50 weak scalars, sum/prod/cumulative_sum of small ints
# upcast to the default integer of the same signedness, comparisons -> bool, abs(complex) -> real float); where cubed
# *declines* (var/std of integers, mean/var/std of bool, mixed-kind promotion outside the standard) nothing is compared.
DTYPE_RULES = ("declared == computed == stored; declared == NumPy 2 result dtype (array-API rules coincide); declines not compared; "
               "mean/var/std of bool must be refused while building (TypeError); clip(x, lo, hi) with array "
               "bounds: dtype of x (array API) accepted where NumPy promotes; copysign/hypot/atan2/logaddexp of non-float operands (outside the "
               "standard) not compared with NumPy")

DECLINE = (ValueError, TypeError, NotImplementedError, IndexError)
MAXC = 64


def _quiet():
    logging.getLogger("asyncio").setLevel(logging.CRITICAL)
    warnings.simplefilter("ignore")
    import numpy as np
    np.seterr(all="ignore")


def _spec():
    import cubed
    return cubed.Spec(allowed_mem="2GB", reserved_mem=0)


# ----------------------------------------------------------------------------------------------
# encoding for the Lean driver
# ----------------------------------------------------------------------------------------------

def enc_nats(xs):
    xs = [int(x) for x in xs]
    return ",".join(map(str, xs)) if xs else "-"


def enc_chunks(chunks):
    chunks = list(chunks)
    return ";".join(",".join(str(int(c)) for c in ax) for ax in chunks) if chunks else "-"


def enc_list(items):
    items = list(items)
    return "/".join(items) if items else "none"


def parse_answer(ans):
    """'ok c=.. d=.. b=..' -> dict ; 'error' -> {'error': True}"""
    if not ans.startswith("ok"):
        return {"status": ans}
    out = {"status": "ok"}
    for tok in ans.split(" ")[1:]:
        if "=" in tok:
            k, v = tok.split("=", 1)
            out[k] = v
    return out


def grid_coords(numblocks, rng, cap=MAXC):
    total = 1
    for n in numblocks:
        total *= n
    if total <= cap:
        return list(itertools.product(*[range(n) for n in numblocks]))
    out = {tuple(0 for _ in numblocks), tuple(n - 1 for n in numblocks)}
    while len(out) < cap:
        out.add(tuple(rng.randrange(n) for n in numblocks))
    return sorted(out)


def unwrap(f):
    kw = {}
    while isinstance(f, functools.partial):
        kw = {**f.keywords, **kw}
        f = f.func
    while hasattr(f, "__wrapped__"):
        f = f.__wrapped__
    return f, kw


def closure_vars(f):
    f, _ = unwrap(f)
    code = getattr(f, "__code__", None)
    if code is None or not getattr(f, "__closure__", None):
        return {}
    out = {}
    for n, c in zip(code.co_freevars, f.__closure__):
        try:
            out[n] = c.cell_contents
        except ValueError:
            pass
    return out


# ----------------------------------------------------------------------------------------------
# one Lean request per recorded call
# ----------------------------------------------------------------------------------------------

def _metas(x):
    from blockshape import ArrayMeta
    return x if isinstance(x, ArrayMeta) else None


def _axes_tuple(axis, ndim):
    if axis is None:
        return None
    if isinstance(axis, int):
        axis = (axis,)
    return tuple(int(a) % ndim if ndim else int(a) for a in axis)


def _fn_of_func(func, kw_call):
    """shape behaviour of a block function handed to map_blocks: Lean BlockFn name or None."""
    f, kw = unwrap(func)
    name = getattr(f, "__name__", "")
    kw = {**kw, **kw_call}
    if name == "squeeze":
        ax = kw.get("axis")
        return "squeeze:" + enc_nats(ax if isinstance(ax, tuple) else (ax,))
    if name == "_expand_dims" or name == "expand_dims":
        ax = kw.get("axis")
        return "expand:" + enc_nats(ax if isinstance(ax, tuple) else (ax,))
    if name == "_arg_map_func":
        ax = kw.get("axis")
        if isinstance(ax, int) and ax >= 0:
            return "setaxis:%d:1" % ax
        return None
    return None


def call_requests(calls, by_array, rng, want_blocks=True):
    """-> list of dict(request, expect={d, shape, blocks:{coords:shape}}, info)"""
    from blockshape import ArrayMeta, source_metas
    byid = {c["id"]: c for c in calls}
    out = []

    def coords_for(meta):
        rec = by_array.get(meta.name) or {}
        cs = grid_coords(meta.numblocks, rng)
        cs = [c for c in cs if c in rec] if rec else []
        return cs, {c: rec[c] for c in cs}

    def add(fn, req_prefix, res_meta, cmp_declared=True, extra=None):
        cs, blocks = coords_for(res_meta) if want_blocks else ([], {})
        req = req_prefix + "|" + enc_list(enc_nats(c) for c in cs)
        out.append({"request": req, "fn": fn, "coords": cs,
                    "expect": {"d": enc_chunks(res_meta.chunks) if cmp_declared else None,
                               "shape": tuple(res_meta.shape), "blocks": blocks},
                    "array": res_meta.name, "extra": extra or {}})

    for c in calls:
        fn, a, kw, res = c["fn"], c["args"], c["kwargs"], c["result"]
        raw = c["raw_result"]
        try:
            if fn == "elemwise":
                if not isinstance(res, ArrayMeta):
                    continue
                src = source_metas(raw)
                n = len(a) - 1
                if src is None or any(s is None for s in src[:n]):
                    continue
                add(fn, "elemwise|" + enc_list(enc_chunks(s.chunks) for s in src[:n]), res)
            elif fn == "blockwise":
                if not isinstance(res, ArrayMeta):
                    continue
                func, out_ind = a[0], a[1]
                pairs = a[2:]
                arrays, inds = pairs[::2], pairs[1::2]
                src = source_metas(raw)
                if src is None or len(src) < len(arrays) or any(s is None for s in src[:len(arrays)]):
                    continue
                sym = {}

                def lab(s):
                    if s not in sym:
                        sym[s] = len(sym) if not isinstance(s, int) else None
                    return s
                # labels: ints stay, other symbols are numbered after the largest int label
                allsyms = list(out_ind) + [s for ind in inds for s in ind]
                ints = [s for s in allsyms if isinstance(s, int)]
                base = (max(ints) + 1) if ints else 0
                others = []
                for s in allsyms:
                    if not isinstance(s, int) and s not in others:
                        others.append(s)

                def num(s):
                    return int(s) if isinstance(s, int) else base + others.index(s)
                adj = kw.get("adjust_chunks") or {}
                adj_items = []
                ok = True
                for k, v in adj.items():
                    if callable(v):
                        if v(7) == 1 and v(3) == 1:
                            adj_items.append("%d:o" % num(k))
                        else:
                            ok = False
                    elif isinstance(v, int):
                        adj_items.append("%d:c:%d" % (num(k), v))
                    else:
                        adj_items.append("%d:l:%s" % (num(k), enc_nats(v)))
                if not ok:
                    continue
                na = kw.get("new_axes") or {}
                na_items = ["%d:%s" % (num(k), enc_nats(v if isinstance(v, tuple) else (v,))) for k, v in na.items()]
                align = kw.get("align_arrays", True)
                labels_in = {num(s) for ind in inds for s in ind}
                faithful = not adj and not na and labels_in <= {num(s) for s in out_ind}
                args_enc = enc_list("%s@%s" % (enc_chunks(s.chunks), enc_nats(num(x) for x in ind))
                                    for s, ind in zip(src, inds))
                add(fn, "bw|%s|%s|%s|%s|%d|%s" % (enc_nats(num(s) for s in out_ind), args_enc,
                                                   "/".join(adj_items) or "-", "/".join(na_items) or "-",
                                                   1 if align else 0, "same" if faithful else "none"),
                    res, extra={"faithful": faithful})
            elif fn == "_map_blocks":
                if not isinstance(res, ArrayMeta):
                    continue
                func = a[0]
                arrs = a[1:]
                if not all(isinstance(x, ArrayMeta) for x in arrs):
                    continue
                chunks = kw.get("chunks")
                drop = kw.get("drop_axis")
                new = kw.get("new_axis")
                if drop is None:
                    drop = []
                if isinstance(drop, int):
                    drop = [drop]
                if isinstance(new, int):
                    new = [new]
                specs = "none" if chunks is None else (";".join(
                    ("i%d" % x) if isinstance(x, int) else ("t" + enc_nats(x)) for x in chunks) or "-")
                fkw = {k: v for k, v in kw.items() if k not in ("dtype", "chunks", "drop_axis", "new_axis")}
                f = _fn_of_func(func, fkw)
                if f is None and chunks is None and not drop and not new:
                    f = "same"
                add(fn, "mb|%s|%s|%s|%s|%s" % (enc_list(enc_chunks(x.chunks) for x in arrs), specs,
                                                 ",".join(str(int(d)) for d in drop) or "-",
                                                 "none" if new is None else enc_nats(new), f or "none"), res)
            elif fn == "squeeze":
                x = a[0]
                ax = kw.get("axis", a[1] if len(a) > 1 else None)
                add(fn, "squeeze|%s|%s" % (enc_chunks(x.chunks), enc_nats(_axes_tuple(ax, len(x.shape)))), res)
            elif fn == "expand_dims":
                x = a[0]
                ax = kw.get("axis", a[1] if len(a) > 1 else None)
                axt = ax if isinstance(ax, tuple) else (ax,)
                nd = len(x.shape) + len(axt)
                add(fn, "expand|%s|%s" % (enc_chunks(x.chunks), enc_nats(int(v) % nd for v in axt)), res)
            elif fn == "permute_dims":
                x = a[0]
                axes = kw.get("axes", a[1] if len(a) > 1 else None)
                if not axes:
                    axes = tuple(range(len(x.shape)))[::-1]
                axes = tuple(int(d) % len(x.shape) for d in axes)
                add(fn, "permute|%s|%s" % (enc_chunks(x.chunks), enc_nats(axes)), res)
            elif fn == "partial_reduce":
                x = a[0]
                func = a[1] if len(a) > 1 else kw.get("func")
                split = kw.get("split_every")
                comb = kw.get("combine_sizes") or {}
                f0, _ = unwrap(func)
                concat = {"identity_func": 1, "_sum_to": 2}.get(getattr(f0, "__name__", ""), 0)
                add(fn, "pr|%s|%s|%s|%d" % (enc_chunks(x.chunks),
                                            ",".join("%d:%d" % (k, v) for k, v in split.items()) or "-",
                                            "/".join(("%d:t%s" % (k, enc_nats(v))) if isinstance(v, tuple) else ("%d:%d" % (k, v))
                                                     for k, v in comb.items()) or "-",
                                            concat), res)
            elif fn == "concat":
                if not isinstance(res, ArrayMeta):
                    continue
                arrays = a[0]
                if len(arrays) < 2:
                    continue
                src = source_metas(raw)
                src = src[:len(arrays)] if src is not None else None   # (the block_id offsets array comes last)
                if src is None or any(s is None for s in src):
                    continue
                axis = kw.get("axis", 0)
                if axis is None:
                    axis = 0
                axis = int(axis) % max(1, len(res.shape))
                ch = kw.get("chunks")
                add(fn, "concat|%s|%d|%s" % (enc_list(enc_chunks(s.chunks) for s in src), axis,
                                              "none" if ch is None else enc_chunks(ch)), res)
            elif fn == "stack":
                src = source_metas(raw)
                src = src[:len(a[0])] if src is not None else None
                if src is None or any(s is None for s in src):
                    continue
                axis = int(kw.get("axis", 0)) % len(res.shape)
                add(fn, "stack|%s|%d" % (enc_list(enc_chunks(s.chunks) for s in src), axis), res)
                if all(isinstance(x, ArrayMeta) for x in a[0]):
                    out.append({"request": "stackunify|" + enc_list(enc_chunks(x.chunks) for x in a[0]), "fn": "stack-unify",
                                "coords": [], "array": res.name,
                                "expect": {"plain": "ok " + "/".join(enc_chunks(s.chunks) for s in src)}, "extra": {}})
            elif fn == "unstack":
                x = a[0]
                axis = int(kw.get("axis", 0)) % len(x.shape)
                if not isinstance(res, tuple) or len(res) < 2:
                    continue
                for r in res:
                    add(fn, "unstack|%s|%d" % (enc_chunks(x.chunks), axis), r)
            elif fn == "repeat":
                if not isinstance(res, ArrayMeta):
                    continue
                axis = kw.get("axis", 0)
                if axis is None:           # flattened first: the op's real source
                    src = source_metas(raw)
                    if src is None or src[0] is None:
                        continue
                    xm, axis = src[0], 0
                else:
                    xm = a[0]              # (repeats == 0 gives a virtual empty array without a source)
                add(fn, "repeat|%s|%d|%d" % (enc_chunks(xm.chunks), int(a[1]), int(axis)), res)
            elif fn == "_rechunk":
                x, copy = a[0], a[1]
                # Array.chunks of a rechunk output reports the *target* chunking (the zarr chunks); the write grid is the
                # copy chunking: compare the latter through the recorded regions
                add(fn, "copy|%s|%s" % (enc_chunks(x.chunks), enc_nats(copy)), res, cmp_declared=False,
                    extra={"write_grid": True})
            elif fn == "merge_chunks":
                x, tgt = a[0], a[1] if len(a) > 1 else kw.get("chunks")
                add(fn, "merge|%s|%s" % (enc_chunks(x.chunks), enc_nats(tgt)), res)
            elif fn == "map_selection":
                selfn = a[1]
                f0, _ = unwrap(selfn)
                if not getattr(f0, "__qualname__", "").startswith("index.<locals>"):
                    continue
                cv = closure_vars(selfn)
                selection = cv.get("selection")
                x = a[2]
                parent = byid.get(c["parent"])
                orig_steps = None
                if parent is not None and parent["fn"] == "index":
                    import ndindex
                    key = parent["raw_args"][1]
                    if not isinstance(key, tuple):
                        key = (key,)
                    import numpy as np
                    from cubed.core.array import CoreArray
                    if any(isinstance(k, CoreArray) for k in key):
                        continue
                    idx = ndindex.ndindex(key).expand(x.shape)
                    args_ = [ia for ia in idx.args if not isinstance(ia, ndindex.Newaxis)]
                    orig_steps = [ia.step if isinstance(ia, ndindex.Slice) else None for ia in args_]
                if selection is None or orig_steps is None or len(orig_steps) != len(selection):
                    continue
                import numpy as np
                sels = []
                for s, o in zip(selection, orig_steps):
                    if isinstance(s, slice):
                        sels.append("s:%d:%d:%d:%d" % (s.start or 0, s.stop, s.step if s.step is not None else 1, o))
                    elif isinstance(s, np.ndarray):
                        sels.append("a:%d" % len(s))
                    else:
                        sels.append("i")
                add("index", "index|%s|%s" % (enc_chunks(x.chunks), ";".join(sels) or "-"), res)
            elif fn == "_qr_first_step":
                A = a[0]
                q1, r1 = res
                csq, bq = coords_for(q1) if want_blocks else ([], {})
                _, br = coords_for(r1) if want_blocks else ([], {})
                out.append({"request": "qr1|%s|%s" % (enc_chunks(A.chunks), enc_list(enc_nats(x) for x in csq)), "fn": fn,
                            "coords": csq, "array": q1.name,
                            "expect": {"qd": enc_chunks(q1.chunks), "rd": enc_chunks(r1.chunks), "qb": bq, "rb": br},
                            "extra": {}})
            elif fn == "_qr_third_step":
                q1 = a[0]
                src = source_metas(raw)
                if src is None or len(src) < 2 or src[1] is None or len(src[1].shape) != 2:
                    continue
                add(fn, "qr3|%s|%s" % (enc_chunks(q1.chunks), enc_nats(src[1].shape)), res)
            elif fn == "blocks":
                if not isinstance(res, ArrayMeta):
                    continue
                bv, key = c["raw_args"][0], c["raw_args"][1]
                x = ArrayMeta(bv.array)
                sels = block_selection(key, x.numblocks)
                if sels is None:
                    continue
                add(fn, "blocks|%s|%s" % (enc_chunks(x.chunks), enc_chunks(sels)), res)
            elif fn == "arg_reduction":
                x = a[0]
                axis = kw.get("axis")
                child = next((c2 for c2 in calls if c2["parent"] == c["id"] and c2["fn"] == "_map_blocks"), None)
                if isinstance(axis, int) and child is not None and isinstance(child["result"], ArrayMeta):
                    add(fn, "argmap|%s|%d" % (enc_chunks(x.chunks), axis), child["result"])
            elif fn == "reduction":
                x = a[0]
                axis = kw.get("axis")
                nd = len(x.shape)
                axes = tuple(range(nd)) if axis is None else _axes_tuple(axis, nd)
                out.append({"request": "reduced|%s|%s|%d" % (enc_nats(x.shape), enc_nats(axes), 1 if kw.get("keepdims") else 0),
                            "fn": fn, "coords": [], "array": res.name, "expect": {"plain": enc_nats(res.shape)}, "extra": {}})
        except Exception as e:  # noqa: BLE001 - a call we cannot encode is skipped, not failed
            out.append({"request": None, "fn": fn, "skip": repr(e)[:120]})
    return [o for o in out if o.get("request")], [o for o in out if not o.get("request")]


def parse_shape(s):
    if s == "-":
        return ()
    if s == "!":
        return None
    return tuple(int(x) for x in s.split(","))


def compare_answer(ctx, item, ans, case):
    exp = item["expect"]
    fn = item["fn"]
    rel_d = "ShapeCalc.declared(%s) = Array.shape/chunks/numblocks of the real op" % fn
    rel_b = "ShapeCalc.blockShape(%s) = shape of the block the real function returned" % fn
    small = {"request": item["request"], "array": item["array"], "case": case}
    if "plain" in exp:
        if ans != exp["plain"]:
            ctx.disagree("ShapeCalc.%s = the real %s" % (("stackUnify", "operands of the stack op") if fn == "stack-unify"
                                                        else ("reducedShape", "shape of reduction()")), small, ans, exp["plain"])
        return
    a = parse_answer(ans)
    if a["status"] != "ok":
        ctx.disagree(rel_d, small, ans, "real call succeeded: " + str(exp.get("d") or exp.get("qd")))
        return
    if fn == "_qr_first_step":
        if a.get("qd") != exp["qd"] or a.get("rd") != exp["rd"]:
            ctx.disagree(rel_d, small, "%s %s" % (a.get("qd"), a.get("rd")), "%s %s" % (exp["qd"], exp["rd"]))
        for k, key in (("qb", "qb"), ("rb", "rb")):
            got = (a.get(k) or "").split("/") if item["coords"] else []
            for co, g in zip(item["coords"], got):
                if co in exp[key] and parse_shape(g) != tuple(exp[key][co]):
                    ctx.disagree(rel_b, dict(small, coords=list(co), output=k), g, list(exp[key][co]))
        return
    if exp.get("d") is not None and a.get("d") != exp["d"]:
        ctx.disagree(rel_d, small, a.get("d"), exp["d"])
    if a.get("sc", "1") != "1":
        ctx.disagree("structural formula of the theorem (%s) = map_blocks derivation of the model" % fn, small, "sc=0", "sc=1")
    # shape = sums of the model's chunkss
    c = a.get("c", "-")
    mshape = tuple(sum(int(x) for x in ax.split(",")) for ax in c.split(";")) if c != "-" else ()
    if mshape != tuple(exp["shape"]):
        ctx.disagree(rel_d, small, "shape %s" % (mshape,), "shape %s" % (tuple(exp["shape"]),))
    got = (a.get("b") or "").split("/") if item["coords"] else []
    if item["request"].split("|")[-2] == "none" and fn in ("blockwise", "_map_blocks"):
        return  # block function not modelled at this level
    for co, g in zip(item["coords"], got):
        if co in exp["blocks"] and parse_shape(g) != tuple(exp["blocks"][co]):
            ctx.disagree(rel_b, dict(small, coords=list(co)), g, list(exp["blocks"][co]))


# ----------------------------------------------------------------------------------------------
# building + running real expressions
# ----------------------------------------------------------------------------------------------

def build_traced(p):
    import cubed.array_api as xp
    from blockshape import CallTracer
    with CallTracer() as t:
        vals = p.build(xp, _spec(), all_values=True)
    return vals, t.calls


def run_recorded(arrays, optimize):
    """compute `arrays` (deduplicated) on the shape-recording executor -> (executor, results or None, error or None)"""
    import cubed
    from blockshape import make_executor_class
    ex = make_executor_class()()
    seen, uniq = set(), []
    for a in arrays:
        if a.name not in seen:
            seen.add(a.name)
            uniq.append(a)
    try:
        res = cubed.compute(*uniq, executor=ex, optimize_graph=optimize)
        return ex, dict(zip([a.name for a in uniq], res)), None
    except Exception as e:  # noqa: BLE001
        return ex, None, "%s: %s" % (type(e).__name__, str(e)[:160])


DENSE = {
    "elementwise": ["binary", "unary", "scalar", "where", "clip", "astype", "broadcast_to"],
    "reduce": ["reduce", "argreduce", "count_nonzero", "cumulative", "unary"],
    "axes": ["squeeze", "expand_dims", "permute_dims", "moveaxis", "reduce", "binary"],
    "join": ["concat", "stack", "unstack", "repeat", "tile", "roll", "flip"],
    "select": ["index", "take", "rechunk", "reshape", "diff", "pad"],
    "linalg": ["qr", "matmul", "tensordot", "outer", "vecdot", "tri", "searchsorted"],
}


def gen_programs(ctx, n, tag):
    import exprgen
    rng = ctx.rng
    groups = list(DENSE)
    for i in range(n):
        if i % 3 == 0:
            fams, g = None, "all"
        else:
            g = groups[(i // 3) % len(groups)]
            fams = DENSE[g]
        try:
            p = exprgen.gen_program(rng, families=fams)
        except RuntimeError:
            continue
        yield p, g


def nontrivial_desc(d):
    return any(-(-s // max(1, c)) > 1 for inp in d["inputs"] for s, c in zip(inp["shape"], inp["chunks"]))


def corr_programs(ctx, n, kfam=0):
    reqs, items = [], []
    for p, g in itertools.chain(gen_programs(ctx, n, "corr"), family_programs(ctx, kfam)):
        d = p.describe()
        try:
            vals, calls = build_traced(p)
        except DECLINE:
            ctx.dist["corr:decline"] += 1
            continue
        except Exception as e:  # noqa: BLE001 - build crashes are C17's concern
            ctx.dist["corr:build-error:" + type(e).__name__] += 1
            continue
        ex, res, err = run_recorded(vals, optimize=False)
        ctx.dist["corr:run:" + ("ok" if err is None else "error")] += 1
        its, skipped = call_requests(calls, ex.by_array, ctx.rng)
        for s in skipped:
            ctx.dist["corr:skip:" + s["fn"]] += 1
        for it in its:
            it["case"] = {"program": d}
            reqs.append(it["request"])
            items.append(it)
        ctx.traces += 1
    def done(answers):
        for it, ans in zip(items, answers):
            nb = len(it["coords"])
            ctx.count({"request": it["request"]}, nontrivial=nb > 1, kind="corr:" + it["fn"])
            compare_answer(ctx, it, ans, it["case"])
    return reqs, done


# direct calls of the core functions with parameters the array-API layer does not reach ----------------------------

def rand_meta(rng, ndim=None, lo=0):
    ndim = rng.choice([0, 1, 1, 2, 2, 2, 3, 3, 4]) if ndim is None else ndim
    shape, chunks = [], []
    for _ in range(ndim):
        r = rng.random()
        s = 0 if (r < 0.06 and lo == 0) else 1 if r < 0.16 else rng.randint(max(lo, 2), 13)
        s = max(s, lo)
        q = rng.random()
        c = s if q < 0.2 else 1 if q < 0.35 else s + 1 if q < 0.42 else rng.randint(1, s + 1)
        shape.append(s)
        chunks.append(max(1, c))
    # cap the number of blocks
    def nb():
        t = 1
        for s, c in zip(shape, chunks):
            t *= max(1, -(-s // c))
        return t
    while nb() > 64:
        k = max(range(ndim), key=lambda i: -(-shape[i] // chunks[i]))
        chunks[k] = min(shape[k], chunks[k] * 2)
    return tuple(shape), tuple(chunks)


def direct_cases(ctx, n):
    """map_blocks with chunks/drop_axis/new_axis, partial_reduce with split_every / combine_sizes, merge_chunks,
    rechunk, expand_dims/squeeze with several axes — called directly on random metas."""
    import numpy as np

    import cubed
    import cubed.array_api as xp
    from blockshape import CallTracer
    from cubed.core import ops as core_ops
    rng = ctx.rng
    reqs, items = [], []
    for _ in range(n):
        shape, chunks = rand_meta(rng, ndim=rng.choice([1, 2, 2, 3, 3, 4]))
        an = np.arange(int(np.prod(shape)), dtype="int64").reshape(shape)
        kind = rng.choice(["mb_drop", "mb_new", "mb_chunks", "pr", "pr_comb", "merge", "rechunk", "expand", "squeeze", "mb_same2",
                           "index", "index", "repeat", "bcast", "reduce", "blocks", "blocks"])
        case = {"kind": kind, "shape": shape, "chunks": chunks}
        try:
            with CallTracer() as t:
                x = xp.asarray(an, chunks=chunks, spec=_spec())
                nd = x.ndim
                if kind == "mb_drop":
                    ax = rng.randrange(nd)
                    if x.numblocks[ax] != 1:
                        x = x.rechunk(tuple(s if i == ax else c for i, (s, c) in enumerate(zip(shape, x.chunksize))))
                    neg = rng.random() < 0.3
                    case["axis"] = ax - nd if neg else ax
                    r = cubed.map_blocks(functools.partial(np.sum, axis=ax), x, dtype=x.dtype, drop_axis=case["axis"])
                elif kind == "mb_new":
                    ax = rng.randint(0, nd)
                    k = rng.choice([1, 1, 2, 3])
                    case["axis"], case["k"] = ax, k
                    newchunks = tuple(k if i == ax else next_c for i, next_c in
                                      zip(range(nd + 1), list(x.chunks[:ax]) + [None] + list(x.chunks[ax:])))
                    r = cubed.map_blocks(_stack_k, x, dtype=x.dtype, chunks=newchunks, new_axis=ax, axis=ax, k=k)
                elif kind == "mb_chunks":
                    ax = rng.randrange(nd)
                    k = rng.choice([1, 2, 3])
                    case["axis"], case["k"] = ax, k
                    newchunks = tuple(k if i == ax else c for i, c in enumerate(x.chunks))
                    if rng.random() < 0.5:
                        newchunks = tuple((k,) * x.numblocks[ax] if i == ax else c for i, c in enumerate(x.chunks))
                    r = cubed.map_blocks(_head_k, x, dtype=x.dtype, chunks=newchunks, axis=ax, k=k)
                elif kind in ("pr", "pr_comb"):
                    axes = sorted(rng.sample(range(nd), rng.randint(1, nd)))
                    split = {a_: rng.choice([2, 2, 3, 4, 5]) for a_ in axes}
                    case["split"] = split
                    if kind == "pr":
                        r = core_ops.partial_reduce(x, np.sum, split_every=split, dtype=x.dtype)
                    else:
                        comb = {a_: rng.choice([1, 2, 3]) for a_ in axes}
                        case["combine"] = comb
                        r = core_ops.partial_reduce(x, functools.partial(_sum_to, sizes=comb), split_every=split,
                                                    dtype=x.dtype, combine_sizes=comb)
                elif kind == "merge":
                    tgt = tuple(c * rng.choice([1, 1, 2, 3]) for c in x.chunksize)
                    case["target"] = tgt
                    r = core_ops.merge_chunks(x, tgt)
                elif kind == "rechunk":
                    tgt = tuple(max(1, rng.randint(1, s + 1)) for s in shape)
                    case["target"] = tgt
                    r = x.rechunk(tgt)
                elif kind == "expand":
                    k = rng.randint(1, 2)
                    ax = tuple(sorted(rng.sample(range(nd + k), k)))
                    case["axis"] = ax
                    r = xp.expand_dims(x, axis=ax)
                elif kind == "squeeze":
                    k = rng.randint(1, 2)
                    ax = tuple(sorted(rng.sample(range(nd + k), k)))
                    case["axis"] = ax
                    r = xp.squeeze(xp.expand_dims(x, axis=ax), axis=ax if rng.random() < 0.6 else ax[:1])
                elif kind == "index":
                    key = []
                    used_arr = False
                    for s_ in shape:
                        q = rng.random()
                        if q < 0.15 and s_ > 0:
                            key.append(rng.randint(-s_, s_ - 1))
                        elif q < 0.3 and s_ > 0 and not used_arr:
                            used_arr = True
                            key.append(np.array([rng.randint(0, s_ - 1) for _ in range(rng.randint(1, 7))]))
                        elif q < 0.4:
                            key.append(slice(None))
                        else:
                            st = rng.choice([1, 1, 2, 2, 3, 4, 5, 7, -1, -2, -3])
                            a_ = rng.choice([None, rng.randint(-s_ - 1, s_ + 1)])
                            b_ = rng.choice([None, rng.randint(-s_ - 1, s_ + 1)])
                            key.append(slice(a_, b_, st))
                    case["key"] = [k.tolist() if isinstance(k, np.ndarray) else ([k.start, k.stop, k.step] if isinstance(k, slice) else k) for k in key]
                    r = x[tuple(key)]
                    if r is x:
                        continue
                elif kind == "blocks":
                    key = rand_blocks_key(rng, x.numblocks)
                    case["key"] = [([k.start, k.stop, k.step] if isinstance(k, slice) else k) for k in key]
                    r = x.blocks[key]
                elif kind == "repeat":
                    ax = rng.randrange(nd)
                    rep = rng.choice([1, 2, 2, 3, 3, 4, 5])
                    case["axis"], case["repeats"] = ax, rep
                    r = xp.repeat(x, rep, axis=ax)
                elif kind == "bcast":
                    sh2 = tuple(1 if rng.random() < 0.4 else s_ for s_ in shape)[rng.randint(0, nd - 1):]
                    ch2 = tuple(max(1, rng.randint(1, s_ + 1)) for s_ in sh2)
                    case["shape2"], case["chunks2"] = sh2, ch2
                    y = xp.asarray(np.ones(sh2, dtype="int64"), chunks=ch2, spec=_spec())
                    r = xp.add(x, y) if rng.random() < 0.5 else xp.multiply(y, x)
                elif kind == "reduce":
                    axes = tuple(sorted(rng.sample(range(nd), rng.randint(1, nd))))
                    kd = rng.random() < 0.4
                    se = rng.choice([None, 2, 3, 4, 8])
                    case["axis"], case["keepdims"], case["split_every"] = axes, kd, se
                    r = getattr(xp, rng.choice(["sum", "max", "prod"]))(x, axis=axes, keepdims=kd, split_every=se)
                else:  # two arguments with different numbers of blocks (align_arrays=False: most blocks wins)
                    y = xp.asarray(an[tuple(slice(0, 1) for _ in shape)], chunks=tuple(1 for _ in shape), spec=_spec())
                    r = cubed.map_blocks(np.add, x, y, dtype=x.dtype) if rng.random() < 0.5 else cubed.map_blocks(np.add, y, x, dtype=x.dtype)
        except DECLINE as e:
            ctx.dist["direct:decline:" + kind] += 1
            continue
        except Exception as e:  # noqa: BLE001 - crashes while building are C17's concern
            ctx.dist["direct:build-error:%s:%s" % (kind, type(e).__name__)] += 1
            continue
        ex, res, err = run_recorded([r], optimize=False)
        ctx.dist["direct:" + kind + (":ok" if err is None else ":error")] += 1
        if err is not None:
            case["error"] = err
        if ex.mismatches:
            m = ex.mismatches[0]
            key = None
            ks, rest_ = classify_mismatches(t.calls, ex.mismatches)
            if ks and not rest_:
                key = sorted(ks)[0]
            if kind == "mb_same2" and tuple(r.shape) != tuple(shape):
                # call site blockwise(align_arrays=False) + trigger: two operands with the same number of blocks along an
                # axis but different lengths, the shorter one first
                key = "map-blocks-tie-first-arg"
            ctx.fail("block of shape %s written into region of shape %s (array %s, out coords %s) by a direct %s call"
                     % (m["block"], m["region"], m["array"], list(m["coords"]), kind), case, key=key)
        its, skipped = call_requests(t.calls, ex.by_array, rng)
        for it in its:
            it["case"] = case
            reqs.append(it["request"])
            items.append(it)
    def done(answers):
        for it, ans in zip(items, answers):
            ctx.count({"request": it["request"]}, nontrivial=len(it["coords"]) > 1, kind="corr-direct:" + it["fn"])
            compare_answer(ctx, it, ans, it["case"])
    return reqs, done


def _stack_k(a, axis=None, k=None):
    import numpy as np
    return np.stack([a] * k, axis=axis)


def _head_k(a, axis=None, k=None):
    """a block with exactly k entries along `axis` (repeats the first hyperplane)."""
    import numpy as np
    first = np.take(a, [0], axis=axis) if a.shape[axis] > 0 else np.zeros(tuple(1 if i == axis else s for i, s in enumerate(a.shape)), a.dtype)
    return np.repeat(first, k, axis=axis)


def _sum_to(a, axis=None, keepdims=True, sizes=None):
    """reduce `axis` to the requested combine sizes (sum, then repeat)."""
    import numpy as np
    r = np.sum(a, axis=axis, keepdims=True)
    for ax in axis:
        r = np.repeat(r, sizes[ax], axis=ax)
    return r


def corr_reference(ctx):
    """Lean's reference shape rules against NumPy itself (broadcast_shapes, reduced shape, regular grid)."""
    import numpy as np
    rng = ctx.rng
    reqs, exp = [], []
    for _ in range(ctx.budget(150, 800)):
        k = rng.randint(1, 3)
        base = [rng.choice([0, 1, 2, 3, 5]) for _ in range(rng.randint(0, 4))]
        shapes = []
        for _ in range(k):
            s = [(1 if rng.random() < 0.3 else b) for b in base][rng.randint(0, len(base)):]
            if rng.random() < 0.08 and s:
                s[rng.randrange(len(s))] = 4
            shapes.append(s)
        try:
            e = enc_nats(np.broadcast_shapes(*[tuple(s) for s in shapes]))
        except ValueError:
            e = "!"
        reqs.append("bshapes|" + "/".join(enc_nats(s) for s in shapes))
        exp.append(e)
    for _ in range(ctx.budget(100, 500)):
        shape = [rng.randint(0, 5) for _ in range(rng.randint(0, 4))]
        axes = sorted(rng.sample(range(len(shape)), rng.randint(0, len(shape))))
        kd = rng.random() < 0.5
        e = enc_nats(np.sum(np.zeros(shape), axis=tuple(axes), keepdims=kd).shape)
        reqs.append("reduced|%s|%s|%d" % (enc_nats(shape), enc_nats(axes), kd))
        exp.append(e)
    from cubed.array_api.manipulation_functions import _array_slices
    for _ in range(ctx.budget(100, 500)):
        lens = [rng.choice([0, 1, 2, 3, 5, 9]) for _ in range(rng.randint(1, 5))]
        tot = sum(lens)
        a_ = rng.randint(0, tot)
        b_ = rng.randint(a_, tot)
        offs = [0]
        for x in lens:
            offs.append(offs[-1] + x)
        got = "/".join("%d,%d,%d" % (i, sl.start, sl.stop) for i, sl in _array_slices(offs, a_, b_)) or "-"
        reqs.append("aslices|%s|%d|%d" % (enc_nats(lens), a_, b_))
        exp.append(got)
    from cubed.utils import normalize_chunks
    for _ in range(ctx.budget(100, 500)):
        n, c = rng.randint(0, 40), rng.randint(1, 15)
        reqs.append("reggrid|%d|%d" % (c, n))
        exp.append(enc_nats(normalize_chunks((c,), shape=(n,))[0]))
    def done(ans):
        for r, e, a in zip(reqs, exp, ans):
            ctx.count({"request": r}, nontrivial=True, kind="corr-ref:" + r.split("|")[0])
            if a != e:
                ctx.disagree("ShapeCalc reference rule (%s) = NumPy / normalize_chunks" % r.split("|")[0], {"request": r}, a, e)
    return reqs, done


def drive_parts(ctx, parts):
    """one driver invocation for all request batches"""
    allreqs = [r for reqs, _ in parts for r in reqs]
    answers = ctx.lean.drive(DRIVER, allreqs) if allreqs else []
    k = 0
    for reqs, done in parts:
        done(answers[k:k + len(reqs)])
        k += len(reqs)


def corr(ctx):
    _quiet()
    drive_parts(ctx, [corr_reference(ctx), corr_programs(ctx, ctx.budget(25, 200), kfam=ctx.budget(2, 8)),
                      direct_cases(ctx, ctx.budget(50, 300))])


# ----------------------------------------------------------------------------------------------
# direct oracle
# ----------------------------------------------------------------------------------------------

def classify_mismatches(calls, mismatches):
    """Attribute block/region mismatches to the listed defects: call site (from the recorded calls) + triggering
    condition.  -> (set of keys, unattributed mismatch records)"""
    from blockshape import ArrayMeta, source_metas
    byid = {c["id"]: c for c in calls}
    site = {}   # array name -> key
    zero_site = set()
    for c in calls:
        fn, a, kw, res_ = c["fn"], c["args"], c["kwargs"], c["result"]
        if False:
            pass
        elif fn == "stack":
            # the repaired stack rechunks operands chunked differently from the first -- but rechunk returns zero-size
            # arrays unchanged
            src = [s for s in (source_metas(c["raw_result"]) or []) if s is not None]
            if isinstance(res_, ArrayMeta) and 0 in res_.shape and len({s.chunks for s in src}) > 1:
                zero_site.add(res_.name)
        elif fn == "blockwise" and kw.get("align_arrays", True):
            # unify_chunks relies on rechunk, and rechunk is a no-op on zero-size arrays (_rechunk_plan): operands of
            # a zero-size elementwise op can keep a chunking that differs from the output's
            src = [s for s in (source_metas(c["raw_result"]) or []) if s is not None]
            if isinstance(res_, ArrayMeta) and 0 in res_.shape and any(0 in s.shape for s in src):
                outc = set(res_.chunks)
                if any(ch not in outc and ch != (1,) for s in src for ch in s.chunks):
                    zero_site.add(res_.name)

    def nelems(shape):
        n = 1
        for x in shape:
            n *= x
        return n
    keys, rest = set(), []
    for m in mismatches:
        k = site.get(m["array"])
        if (k is None and m["array"] in zero_site and isinstance(m["block"], tuple) and isinstance(m["region"], tuple)
                and nelems(m["block"]) == 0 and nelems(m["region"]) == 0):
            k = "zero-size-rechunk-skipped"
        if k:
            keys.add(k)
        else:
            rest.append(m)
    return keys, rest


def attribute(p):
    """Run the program unfused with the call tracer and attribute every block/region mismatch to a known defect
    (call site + triggering condition).  -> (set of keys, list of unattributed mismatch records, error)"""
    from blockshape import ArrayMeta
    try:
        vals, calls = build_traced(p)
    except Exception as e:  # noqa: BLE001
        return set(), [], "build: " + repr(e)[:100]
    ex, res, err = run_recorded(vals, optimize=False)
    keys, rest = classify_mismatches(calls, ex.mismatches)
    return keys, rest, err


def check_program(p, optimize):
    """-> dict(status, mismatches=[...], meta=[...])  (status: ok | decline | build-error | exec-error)"""
    import numpy as np

    import cubed.array_api as xp
    from cubed.utils import normalize_chunks
    out = {"status": "ok", "mismatches": [], "meta": [], "dtype_dev": []}
    try:
        vals = p.build(xp, _spec(), all_values=True)
    except DECLINE as e:
        out["status"] = "decline"
        return out
    except Exception as e:  # noqa: BLE001
        out["status"] = "build-error:" + type(e).__name__
        return out
    ref = p.numpy_values()
    ni = len(p.inputs)
    idxs = list(range(len(vals))) if not optimize else list(p.outputs)
    seen, tt, ti = set(), [], []
    for j in idxs:
        if vals[j].name not in seen:
            seen.add(vals[j].name)
            tt.append(vals[j])
            ti.append(j)
    declared = [(tuple(a.shape), a.dtype, a.chunks, a.numblocks) for a in tt]
    for a, d in zip(tt, declared):
        if tuple(sum(c) for c in d[2]) != d[0] or tuple(len(c) for c in d[2]) != tuple(d[3]):
            out["meta"].append("array %s: chunks %s do not add up to shape %s / numblocks %s" % (a.name, d[2], d[0], d[3]))
    ex, res, err = run_recorded(tt, optimize)
    out["mismatches"] = [dict(m, coords=list(m["coords"])) for m in ex.mismatches[:6]]
    out["n_blocks"] = len(ex.records)
    if err is not None:
        out["status"] = "exec-error"
        out["error"] = err
        return out
    for a, j, d in zip(tt, ti, declared):
        r = np.asarray(res[a.name])
        what = "value %d (%s)" % (j, p.ops[j - ni]["op"] if j >= ni else "input")
        if d[0] != tuple(r.shape):
            out["meta"].append("%s: declared shape %s, computed result has shape %s" % (what, d[0], tuple(r.shape)))
        if d[0] != tuple(ref[j].shape):
            out["meta"].append("%s: declared shape %s, NumPy gives %s" % (what, d[0], tuple(ref[j].shape)))
        if d[1] != r.dtype:
            out["meta"].append("%s: declared dtype %s, computed result has dtype %s" % (what, d[1], r.dtype))
        if d[1] != ref[j].dtype and not dtype_outside_standard(p, j, ref, d[1]):
            ins = [str(ref[k].dtype) for k in p.ops[j - ni]["in"]] if j >= ni else []
            out["dtype_dev"].append("%s of %s: declared dtype %s, NumPy gives %s" % (what, ins, d[1], ref[j].dtype))
        if a.size > 0:
            try:
                z = a._zarray.open() if hasattr(a._zarray, "open") else a._zarray
                try:
                    zc = z.chunks
                except NotImplementedError:
                    zc = z.read_chunk_sizes
                zch = normalize_chunks(zc, shape=z.shape, dtype=z.dtype)
                if tuple(z.shape) != d[0] or z.dtype != d[1] or zch != d[2]:
                    out["meta"].append("%s: declared (%s, %s, %s) but the backing zarr array has (%s, %s, %s)"
                                       % (what, d[0], d[1], d[2], tuple(z.shape), z.dtype, zch))
            except Exception as e:  # noqa: BLE001
                out["meta"].append("%s: backing zarr array cannot be opened after compute: %s" % (what, repr(e)[:80]))
    return out


def dtype_outside_standard(p, j, ref, declared=None):
    """cases where NumPy's result dtype is not the reference (declared == computed == stored is still required):
    * copysign / hypot / atan2 / logaddexp of integer or boolean operands: the standard defines them for real
      floating-point dtypes only (NumPy converts to float64; where cubed accepts such operands it keeps their result_type);
    * clip(x, min, max) with array bounds of a wider dtype: the standard says the result has the dtype of x
      (cubed follows it), NumPy promotes."""
    ni = len(p.inputs)
    if j < ni:
        return False
    o = p.ops[j - ni]
    if o["op"] == "clip" and declared is not None and declared == ref[o["in"][0]].dtype:
        return True
    if o["op"] in ("copysign", "hypot", "atan2", "logaddexp") and any(ref[k].dtype.kind != "f" for k in o["in"]):
        return True   # the standard defines these for real floating-point operands only (cubed keeps result_type of the operands)
    return False   # (mean / var / std of a boolean array are refused while building since 3b811ad: no exception)


def has_problem(r):
    return bool(r["mismatches"] or r["meta"] or r["dtype_dev"])


def report(ctx, p, optimize, r):
    import exprgen

    def kind_of(rr):
        return ("block" if rr["mismatches"] else "") + ("meta" if rr["meta"] else "") + ("dtype" if rr["dtype_dev"] else "")
    k0 = kind_of(r)

    def still(q):
        rr = check_program(q, optimize)
        return has_problem(rr) and (("block" in k0) == bool(rr["mismatches"]))
    # failures fully explained by listed defects get a short shrink, anything else the full budget
    budget = 200
    if r["mismatches"] and not r["meta"] and not r["dtype_dev"]:
        k_pre, rest_pre, _ = attribute(p)
        if k_pre and not rest_pre:
            budget = 30
    small = exprgen.shrink(p, still, max_evals=budget)
    rs = check_program(small, optimize)
    if not has_problem(rs):
        small, rs = p, r
    case = {"program": small.describe(), "optimize_graph": optimize,
            "original_program": p.describe() if small.size() != p.size() else "same",
            "replay": "exprgen.Program.from_description(case['program']).build(cubed.array_api, Spec(allowed_mem='2GB'), all_values=True); "
                      "compute on blockshape.make_executor_class()() and read executor.mismatches"}
    if rs["meta"] or rs["dtype_dev"]:
        ctx.fail("declared metadata is not truthful: " + "; ".join((rs["meta"] + rs["dtype_dev"])[:3]), case, key=None)
    if rs["mismatches"]:
        keys, rest, err = attribute(small)
        m = rs["mismatches"][0]
        what = ("block of shape %s returned for out coords %s of %s (op %s) but the region it is written to has shape %s"
                % (m["block"], m["coords"], m["array"], m["op"], m["region"]))
        if rest or not keys:
            ctx.fail(what, dict(case, unattributed=[dict(x, coords=list(x["coords"])) for x in rest[:3]]), key=None)
        for k in sorted(keys):
            ctx.fail(what, case, key=k)


def values_wrong(p, optimize):
    """None, or a message when an output of the program differs from NumPy (used by `search` only)."""
    import cubed
    import cubed.array_api as xp
    import exprgen
    try:
        arrs = p.build(xp, _spec())
        res = cubed.compute(*arrs, optimize_graph=optimize)
        ref, info = p.numpy(), p.output_info()
    except Exception:  # noqa: BLE001
        return None
    for k, (r, a, i) in enumerate(zip(ref, res, info)):
        m = exprgen.compare_values(r, a, i)
        if m:
            return "output %d: %s" % (k, m)
    return None


def oracle_programs(ctx, n, tag="oracle", programs=None):
    for p, g in (programs if programs is not None else gen_programs(ctx, n, tag)):
        optimize = ctx.rng.random() < 0.5
        d = p.describe()
        r = check_program(p, optimize)
        ctx.count({"program": d, "optimize_graph": optimize, "status": r["status"]}, nontrivial=nontrivial_desc(d),
                  kind="%s:%s" % (tag, r["status"].split(":")[0]))
        ctx.dist["optimize:" + ("on" if optimize else "off")] += 1
        ctx.dist["group:" + g] += 1
        ctx.extra["blocks_compared"] = ctx.extra.get("blocks_compared", 0) + r.get("n_blocks", 0)
        for f in p.families():
            ctx.dist["fam:" + f] += 1
        if has_problem(r):
            report(ctx, p, optimize, r)


TRIGGERS = {
    "zero-size-rechunk-skipped": {"inputs": [{"shape": [2, 0], "chunks": [1, 1], "dtype": "float64", "data": "arange", "salt": 0},
                                             {"shape": [2, 0], "chunks": [2, 1], "dtype": "float64", "data": "arange", "salt": 1}],
                                  "ops": [{"op": "add", "family": "binary", "in": [0, 1], "params": {"_k": "binary"}}], "outputs": [2]},
}

# triggers of repaired defects: must hold now (declined while building, or every block matches its region)
REGRESSIONS = {
    "qr-short-row-chunk (fixed 19968d0)": {"inputs": [{"shape": [9, 4], "chunks": [4, 4], "dtype": "float64", "data": "perm:0", "salt": 0}],
                                           "ops": [{"op": "qr", "family": "qr", "in": [0], "params": {"part": "recon"}}], "outputs": [1]},
    "qr-wide (fixed 19968d0)": {"inputs": [{"shape": [2, 3], "chunks": [2, 3], "dtype": "float64", "data": "perm:0", "salt": 0}],
                                "ops": [{"op": "qr", "family": "qr", "in": [0], "params": {"part": "recon"}}], "outputs": [1]},
    "stack-mixed-chunks (fixed f3856f5)": {"inputs": [{"shape": [2], "chunks": [2], "dtype": "int64", "data": "arange", "salt": 0},
                                                      {"shape": [2], "chunks": [1], "dtype": "int64", "data": "arange", "salt": 1}],
                                           "ops": [{"op": "stack", "family": "stack", "in": [0, 1], "params": {"axis": 0}}], "outputs": [2]},
    "stack-mixed-chunks-swapped (fixed f3856f5)": {"inputs": [{"shape": [5], "chunks": [1], "dtype": "int64", "data": "arange", "salt": 0},
                                                              {"shape": [5], "chunks": [3], "dtype": "int64", "data": "arange", "salt": 1}],
                                                   "ops": [{"op": "stack", "family": "stack", "in": [0, 1, 0], "params": {"axis": 1}}], "outputs": [2]},
    "argreduce-negative-axis 1-d (fixed b0bb103)": {"inputs": [{"shape": [6], "chunks": [3], "dtype": "int64", "data": "perm:3", "salt": 0}],
                                                    "ops": [{"op": "argmax", "family": "argreduce", "in": [0],
                                                             "params": {"axis": -1, "keepdims": False, "split_every": None}}], "outputs": [1]},
    "argreduce-negative-axis 2-d keepdims (fixed b0bb103)": {"inputs": [{"shape": [5, 7], "chunks": [2, 3], "dtype": "float64", "data": "perm:5", "salt": 0}],
                                                             "ops": [{"op": "argmin", "family": "argreduce", "in": [0],
                                                                      "params": {"axis": -2, "keepdims": True, "split_every": 2}},
                                                                     {"op": "argmax", "family": "argreduce", "in": [0],
                                                                      "params": {"axis": -1, "keepdims": False, "split_every": None}}], "outputs": [1, 2]},
    "repeat-negative-axis -2 (fixed cfb5bf3)": {"inputs": [{"shape": [3, 2], "chunks": [2, 2], "dtype": "int64", "data": "arange", "salt": 0}],
                                                "ops": [{"op": "repeat", "family": "repeat", "in": [0], "params": {"repeats": 2, "axis": -2}}], "outputs": [1]},
    "repeat-negative-axis -1 (fixed cfb5bf3)": {"inputs": [{"shape": [3, 5], "chunks": [2, 2], "dtype": "int64", "data": "arange", "salt": 0}],
                                                "ops": [{"op": "repeat", "family": "repeat", "in": [0], "params": {"repeats": 3, "axis": -1}},
                                                        {"op": "repeat", "family": "repeat", "in": [1], "params": {"repeats": 2, "axis": -2}}], "outputs": [2, 1]},
    "repeat-zero (fixed cfb5bf3)": {"inputs": [{"shape": [3, 5], "chunks": [2, 2], "dtype": "int64", "data": "arange", "salt": 0}],
                                    "ops": [{"op": "repeat", "family": "repeat", "in": [0], "params": {"repeats": 0, "axis": -1}}], "outputs": [1]},
    "scan-ragged-groups (fixed 5fff6ae)": {"inputs": [{"shape": [7], "chunks": [1], "dtype": "int64", "data": "arange", "salt": 0}],
                                           "ops": [{"op": "cumulative_sum", "family": "cumulative", "in": [0], "params": {"axis": 0}}], "outputs": [1]},
}


def known_triggers(ctx):
    """Re-verify the listed defects on their minimal triggers (a repaired defect shows up as a note)."""
    import exprgen
    for key, d in TRIGGERS.items():
        p = exprgen.Program.from_description(d)
        r = check_program(p, optimize=False)
        ctx.count({"trigger": key, "mismatches": len(r["mismatches"])}, nontrivial=True, kind="trigger")
        if r["mismatches"]:
            keys, rest, err = attribute(p)
            m = r["mismatches"][0]
            what = ("block of shape %s returned for out coords %s of %s but the region it is written to has shape %s"
                    % (m["block"], m["coords"], m["array"], m["region"]))
            case = {"program": d, "optimize_graph": False}
            if rest or not keys:
                ctx.fail(what, case, key=None)
            for k in sorted(keys):
                ctx.fail(what, case, key=k)
        else:
            ctx.notes.append("known trigger %s no longer produces a block/region mismatch (repaired? update KNOWN_FINDINGS and the model)" % key)
        if r["meta"] or r["dtype_dev"]:
            ctx.fail("declared metadata is not truthful: " + "; ".join((r["meta"] + r["dtype_dev"])[:3]), {"program": d}, key=None)
    # fixed witness of map-blocks-tie-first-arg (a direct call, not an exprgen program)
    try:
        import numpy as np

        import cubed
        import cubed.array_api as xp
        xw = xp.asarray(np.arange(6).reshape(2, 3), chunks=(2, 3), spec=_spec())
        yw = xp.asarray(np.array([[10]]), chunks=(1, 1), spec=_spec())
        rw = cubed.map_blocks(np.add, yw, xw, dtype=xw.dtype)
        exw, _, _ = run_recorded([rw], optimize=False)
        case = {"call": "cubed.map_blocks(np.add, y, x)", "y": {"shape": [1, 1], "chunks": [1, 1]}, "x": {"shape": [2, 3], "chunks": [2, 3]}}
        ctx.count({"trigger": "map-blocks-tie-first-arg", "mismatches": len(exw.mismatches)}, nontrivial=True, kind="trigger")
        if exw.mismatches:
            m = exw.mismatches[0]
            ctx.fail("block of shape %s returned for out coords %s of %s but the region it is written to has shape %s (declared shape %s)"
                     % (m["block"], list(m["coords"]), m["array"], m["region"], tuple(rw.shape)), case,
                     key="map-blocks-tie-first-arg" if tuple(rw.shape) == (1, 1) else None)
        else:
            ctx.notes.append("known trigger map-blocks-tie-first-arg no longer produces a block/region mismatch (repaired? update KNOWN_FINDINGS)")
    except DECLINE:
        ctx.notes.append("known trigger map-blocks-tie-first-arg is now declined while building")
    # triggers of repaired defects: must hold
    for name, d in REGRESSIONS.items():
        p = exprgen.Program.from_description(d)
        for opt in (False, True):
            r = check_program(p, optimize=opt)
            ctx.count({"regression": name, "optimize_graph": opt, "status": r["status"]}, nontrivial=True,
                      kind="regression:" + r["status"].split(":")[0])
            if r["mismatches"]:
                m = r["mismatches"][0]
                ctx.fail("repaired defect is back (%s): block of shape %s returned for out coords %s of %s but the region has shape %s"
                         % (name, m["block"], m["coords"], m["array"], m["region"]), {"program": d, "optimize_graph": opt}, key=None)
            if r["meta"] or r["dtype_dev"]:
                ctx.fail("declared metadata is not truthful (%s): %s" % (name, "; ".join((r["meta"] + r["dtype_dev"])[:3])),
                         {"program": d, "optimize_graph": opt}, key=None)
            if r["status"] in ("exec-error",) or r["status"].startswith("build-error"):
                ctx.fail("repaired defect is back (%s): %s: %s" % (name, r["status"], r.get("error")),
                         {"program": d, "optimize_graph": opt}, key=None)


SWEEP_UNARY = ["sum", "prod", "mean", "var", "std", "max", "min", "cumulative_sum", "cumulative_prod", "argmax", "argmin",
               "all", "any", "count_nonzero", "abs", "negative", "positive", "square", "sign", "sqrt", "exp", "floor", "isnan",
               "logical_not", "bitwise_invert", "real", "conj"]
SWEEP_BINARY = ["add", "multiply", "subtract", "divide", "floor_divide", "maximum", "equal", "less", "bitwise_and", "logical_or",
                "matmul", "vecdot", "pow"]


def dtype_sweep(ctx, p_compute):
    """Declared dtype of every listed function for every input dtype (and dtype pair) against NumPy; where cubed
    declines (TypeError: outside the array-API standard) nothing is compared; a sample is computed to check
    declared == computed == stored."""
    import numpy as np

    import cubed
    import cubed.array_api as xp
    import exprgen
    rng = ctx.rng
    spec = _spec()

    def arr(dt, salt):
        return exprgen.make_data((3,), dt, "arange", salt)

    def check(name, xs_np, dts):
        case = {"function": name, "dtypes": dts, "shape": [3], "chunks": [2]}
        try:
            with np.errstate(all="ignore"):
                if name in ("cumulative_sum", "cumulative_prod"):
                    ref = getattr(np, name)(*xs_np, axis=0)
                elif name == "vecdot":
                    ref = np.vecdot(*xs_np)
                else:
                    ref = getattr(np, name)(*xs_np)
            ref = np.asarray(ref)
        except Exception:  # noqa: BLE001 - NumPy rejects
            ctx.dist["dtype-sweep:numpy-rejects"] += 1
            return
        try:
            xs = [xp.asarray(a, chunks=2, spec=spec) for a in xs_np]
            if name in ("cumulative_sum", "cumulative_prod"):
                r = getattr(xp, name)(*xs, axis=0)
            else:
                r = getattr(xp, name)(*xs)
        except DECLINE:
            ctx.dist["dtype-sweep:decline"] += 1
            return
        except Exception as e:  # noqa: BLE001
            ctx.dist["dtype-sweep:build-error:" + type(e).__name__] += 1
            return
        ctx.count({"dtype_sweep": case, "declared": str(r.dtype)}, nontrivial=True, kind="dtype-sweep")
        if name in ("mean", "var", "std") and np.dtype(dts[0]).kind == "b":
            ctx.fail("%s of a boolean array must be refused while building (TypeError) but returned an array of dtype %s"
                     % (name, r.dtype), case, key=None)
        if r.dtype != ref.dtype:
            ctx.fail("declared dtype %s of %s(%s), NumPy gives %s" % (r.dtype, name, ", ".join(dts), ref.dtype), case, key=None)
        if tuple(r.shape) != tuple(ref.shape):
            ctx.fail("declared shape %s of %s(%s), NumPy gives %s" % (r.shape, name, ", ".join(dts), ref.shape), case, key=None)
        if rng.random() < p_compute:
            declared = r.dtype
            try:
                v = np.asarray(r.compute())
            except Exception:  # noqa: BLE001 - execution failures are C17's concern
                ctx.dist["dtype-sweep:exec-error"] += 1
                return
            z = r._zarray.open() if hasattr(r._zarray, "open") else r._zarray
            if v.dtype != declared or z.dtype != declared:
                ctx.fail("declared dtype %s of %s(%s) but the computed result has %s and the stored array %s"
                         % (declared, name, ", ".join(dts), v.dtype, z.dtype), case, key=None)

    for name in SWEEP_UNARY:
        for dt in exprgen.DTYPES:
            check(name, [arr(dt, 0)], [dt])
    for name in SWEEP_BINARY:
        for dt in exprgen.DTYPES:
            check(name, [arr(dt, 0), arr(dt, 1)], [dt, dt])
    for d1 in exprgen.DTYPES:
        for d2 in exprgen.DTYPES:
            if d1 != d2:
                check("add", [arr(d1, 0), arr(d2, 1)], [d1, d2])


def family_programs(ctx, k):
    """single-family programs: every focus family is exercised in every run"""
    import exprgen
    fams = ["repeat", "index", "concat", "stack", "unstack", "squeeze", "expand_dims", "permute_dims", "reduce", "argreduce",
            "cumulative", "rechunk", "qr", "binary", "tile", "roll", "broadcast_to", "matmul", "reshape", "take", "flip"]
    for f in fams:
        for _ in range(k):
            try:
                yield exprgen.gen_program(ctx.rng, families=[f], max_depth=2), "fam-" + f
            except RuntimeError:
                break


def block_selection(key, numblocks):
    """per axis the list of selected block indexes of `Array.blocks[key]` (ndindex canonical form), or None"""
    import ndindex
    import numpy as np
    if not isinstance(key, tuple):
        key = (key,)
    try:
        idx = ndindex.ndindex(key).expand(tuple(numblocks))
    except Exception:  # noqa: BLE001
        return None
    out = []
    for ia, nb in zip(idx.args, numblocks):
        if isinstance(ia, ndindex.Integer):
            out.append([int(ia.raw) % nb])
        elif isinstance(ia, ndindex.Slice):
            out.append(list(range(nb))[ia.raw])
        elif isinstance(ia, ndindex.IntegerArray):
            out.append([int(v) % nb for v in np.asarray(ia.raw).ravel()])
        else:
            return None
    return out


def rand_blocks_key(rng, numblocks):
    """ints, slices and lists of block indexes (sorted, reordered, repeated; the last -- possibly short -- block is
    selected often); at most one list (ndindex / BlockView restriction)"""
    key, used_list = [], False
    for nb in numblocks:
        q = rng.random()
        if q < 0.2:
            key.append(rng.choice([nb - 1, -1, rng.randrange(nb), rng.randrange(nb) - nb]))
        elif q < 0.45:
            a_ = rng.randrange(nb)
            b_ = rng.randint(a_ + 1, nb)
            key.append(slice(a_, b_) if rng.random() < 0.7 else slice(a_, None, rng.choice([1, 2])))
        elif q < 0.55 or used_list:
            key.append(slice(None))
        else:
            used_list = True
            k = rng.randint(1, min(nb, 4))
            m = rng.random()
            if m < 0.5:
                sel = sorted(rng.sample(range(nb), k))
                if rng.random() < 0.6 and (nb - 1) not in sel:
                    sel = sel[:-1] + [nb - 1]
            elif m < 0.75:
                sel = rng.sample(range(nb), k)
            else:
                sel = sorted(rng.choice(range(nb)) for _ in range(k + 1))
            key.append(sel)
    return tuple(key)


def blocks_reference(an, chunks, sels):
    """the elements of the selected blocks, block after block, per axis"""
    import numpy as np
    idx = []
    for ch, sel in zip(chunks, sels):
        starts = [0]
        for c in ch:
            starts.append(starts[-1] + c)
        e = []
        for b in sel:
            e.extend(range(starts[b], starts[b + 1]))
        idx.append(np.asarray(e, dtype=np.int64))
    return an[np.ix_(*idx)] if idx else an


BLOCKS_FIXED = [   # (shape, chunks, key, then-negative)  -- the cases of seeded/C12-1/demo.py
    ((9,), (4,), (0,), False), ((9,), (4,), (-1,), False), ((9,), (4,), (slice(1, 3),), False), ((9,), (4,), ([0, 1],), False),
    ((9,), (4,), ([2],), False), ((9,), (4,), ([0, 2],), False), ((9,), (4,), ([0, 1, 2],), False), ((9,), (4,), ([1, 2],), True),
    ((9, 5), (4, 2), (-1, -1), False), ((9, 5), (4, 2), (slice(0, 2), [0, 1]), False), ((9, 5), (4, 2), ([0, 2], slice(0, 1)), False),
    ((9, 5), (4, 2), (slice(1, 2), [1, 2]), False), ((9, 5), (4, 2), (slice(2, 3), [0, 2]), False),
    ((10,), (4,), ([0, 2],), False), ((10,), (4,), ([2, 2],), False), ((7, 3), (3, 2), ([1, 2], [0, 1]), False),
]


def check_blocks_case(ctx, shape, chunks, key, neg, kind):
    """`Array.blocks[key]`: declared shape/chunks == computed == stored == the selected blocks; every block == its region."""
    import numpy as np

    import cubed.array_api as xp
    from cubed.utils import normalize_chunks
    an = np.arange(int(np.prod(shape)), dtype="int64").reshape(shape) + 1
    jkey = [([k.start, k.stop, k.step] if isinstance(k, slice) else k) for k in key]
    case = {"kind": "blocks", "shape": list(shape), "chunks": list(chunks), "key": jkey, "then_negative": neg,
            "replay": "x = asarray(arange(prod(shape)).reshape(shape)+1, chunks=chunks); r = x.blocks[key]"}
    try:
        x = xp.asarray(an, chunks=chunks, spec=_spec())
        sels = block_selection(key, x.numblocks)
        r0 = x.blocks[key]
        r = xp.negative(r0) if neg else r0
    except DECLINE:
        ctx.dist[kind + ":decline"] += 1
        return
    except Exception as e:  # noqa: BLE001
        ctx.dist[kind + ":build-error:" + type(e).__name__] += 1
        return
    ref = blocks_reference(an, x.chunks, sels)
    ref = -ref if neg else ref
    declared = (tuple(r.shape), r.dtype, r.chunks)
    nontrivial = x.npartitions > 1
    ctx.count({"blocks": case}, nontrivial=nontrivial, kind=kind)
    if declared[0] != tuple(ref.shape):
        ctx.fail("Array.blocks: declared shape %s, the selected blocks have shape %s (declared chunks %s)"
                 % (declared[0], tuple(ref.shape), declared[2]), case, key=None)
    for opt in (False, True):
        ex, res, err = run_recorded([r], optimize=opt)
        if ex.mismatches:
            m = ex.mismatches[0]
            ctx.fail("Array.blocks: block of shape %s returned for out coords %s of %s but the region it is written to has shape %s"
                     % (m["block"], list(m["coords"]), m["array"], m["region"]), dict(case, optimize_graph=opt), key=None)
            return
        if err is not None:
            ctx.fail("Array.blocks: accepted while building but a task fails: " + err, dict(case, optimize_graph=opt), key=None)
            return
        v = np.asarray(res[r.name])
        if tuple(v.shape) != declared[0] or v.dtype != declared[1] or not np.array_equal(v, ref):
            ctx.fail("Array.blocks: declared (%s, %s), computed (%s, %s), values equal to the selected blocks: %s"
                     % (declared[0], declared[1], tuple(v.shape), v.dtype, np.array_equal(v, ref) if v.shape == ref.shape else False),
                     dict(case, optimize_graph=opt), key=None)
            return
        if r.size > 0:
            z = r._zarray.open() if hasattr(r._zarray, "open") else r._zarray
            zch = normalize_chunks(z.chunks, shape=z.shape, dtype=z.dtype)
            if tuple(z.shape) != declared[0] or z.dtype != declared[1] or zch != declared[2]:
                ctx.fail("Array.blocks: declared %s but the backing zarr array has (%s, %s, %s)" % (declared, tuple(z.shape), z.dtype, zch),
                         dict(case, optimize_graph=opt), key=None)
                return


def blocks_oracle(ctx, n):
    for shape, chunks, key, neg in BLOCKS_FIXED:
        check_blocks_case(ctx, shape, chunks, key, neg, "blocks-fixed")
    rng = ctx.rng
    for _ in range(n):
        shape, chunks = rand_meta(rng, ndim=rng.choice([1, 1, 2, 2, 3]), lo=1)
        if rng.random() < 0.5:   # make the last block short (often of extent 1)
            ax = rng.randrange(len(shape))
            c = rng.randint(2, 5)
            shape = tuple((c * rng.randint(1, 3) + rng.choice([1, 1, 2])) if i == ax else s for i, s in enumerate(shape))
            chunks = tuple(c if i == ax else ch for i, ch in enumerate(chunks))
        nbs = tuple(-(-s // c) for s, c in zip(shape, chunks))
        check_blocks_case(ctx, shape, chunks, rand_blocks_key(rng, nbs), rng.random() < 0.2, "blocks")


def argreduce_regressions(ctx):
    """argmax / argmin / nanargmax / nanargmin with axis -1, -2 and keepdims both ways (fixed b0bb103): every block matches
    its region, every intermediate's declared chunks are what is computed, the result has NumPy's shape and values."""
    import numpy as np

    import cubed
    import cubed.array_api as xp
    an = (np.arange(35, dtype="float64").reshape(5, 7) * 7) % 11
    for name in ("argmax", "argmin", "nanargmax", "nanargmin"):
        f = getattr(xp, name, None) or getattr(cubed, name)
        for axis in (-1, -2):
            for kd in (False, True):
                case = {"function": name, "axis": axis, "keepdims": kd, "shape": [5, 7], "chunks": [2, 3]}
                try:
                    x = xp.asarray(an, chunks=(2, 3), spec=_spec())
                    r = f(x, axis=axis, keepdims=kd)
                except Exception as e:  # noqa: BLE001
                    ctx.fail("repaired defect is back (argreduce-negative-axis): %s raises %r" % (name, e), case, key=None)
                    continue
                declared = (tuple(r.shape), r.chunks)
                ex, res, err = run_recorded([r], optimize=False)
                ctx.count({"regression": case}, nontrivial=True, kind="regression:argreduce")
                ref = getattr(np, name)(an, axis=axis, keepdims=kd)
                if ex.mismatches:
                    m = ex.mismatches[0]
                    ctx.fail("repaired defect is back (argreduce-negative-axis): block of shape %s for out coords %s of %s, region %s"
                             % (m["block"], list(m["coords"]), m["array"], m["region"]), case, key=None)
                elif err is not None:
                    ctx.fail("repaired defect is back (argreduce-negative-axis): a task fails: " + err, case, key=None)
                else:
                    v = np.asarray(res[r.name])
                    if declared[0] != tuple(v.shape) or tuple(v.shape) != tuple(ref.shape) or not np.array_equal(v, ref):
                        ctx.fail("%s(axis=%d, keepdims=%s): declared shape %s, computed %s, NumPy %s (values equal: %s)"
                                 % (name, axis, kd, declared[0], v.shape, ref.shape, np.array_equal(v, ref)), case, key=None)


def oracle(ctx):
    _quiet()
    argreduce_regressions(ctx)
    blocks_oracle(ctx, ctx.budget(40, 300))
    ctx.notes.append("dtype reference: " + DTYPE_RULES)
    known_triggers(ctx)
    dtype_sweep(ctx, ctx.budget(0.1, 0.5))
    oracle_programs(ctx, ctx.budget(60, 450))
    oracle_programs(ctx, 0, tag="oracle-fam", programs=family_programs(ctx, ctx.budget(3, 12)))


def search(ctx):
    _quiet()
    import exprgen
    # lift disagreeing inputs to end-to-end cases
    done = set()
    for dis in ctx.disagreements[:40]:
        case = dis["case"].get("case") or {}
        prog = case.get("program")
        if not prog:
            continue
        h = json.dumps(prog, sort_keys=True)
        if h in done:
            continue
        done.add(h)
        p = exprgen.Program.from_description(prog)
        for opt in (False, True):
            r = check_program(p, opt)
            ctx.count({"program": prog, "optimize_graph": opt, "status": r["status"], "lifted": True}, kind="search:lifted")
            if has_problem(r):
                report(ctx, p, opt, r)
                break
            w = values_wrong(p, opt)
            if w:
                # a shape-calculus disagreement that leaves every block/region pair consistent (e.g. fewer output
                # blocks than input groups) still shows in the values
                ctx.fail("computed values differ from NumPy for a program whose shape calculus disagrees with the model: " + w,
                         {"program": prog, "optimize_graph": opt, "disagreement": dis["relation"],
                          "request": dis["case"].get("request")}, key=None)
                break
    ctx.rng.seed(ctx.seed + 7919)
    if ctx.lean is not None:
        try:
            drive_parts(ctx, [direct_cases(ctx, 150)])
        except Exception as e:  # noqa: BLE001
            ctx.notes.append("search: direct cases failed: " + repr(e)[:200])
    oracle_programs(ctx, ctx.budget(250, 900), tag="search")
