"""C11 — store / to_zarr fill every target completely, and only inside the requested region.

corr   : (A) region requests: the Lean `validate` / offsets / output blocks / declared task count / sequential run
             (drivers/C11.lean) vs the real `cubed.store(..., regions=..., compute=False)` op and its execution on the
             single-threaded executor, whole target read back with plain zarr;
         (B) argument pairing of `store` (length checks) vs `pairUp`;
         (C) lists of pairs with repeated / dependent lazy sources vs `storeOutcome` (rejected k / which targets are written, which never created;
             `broken` = no prediction);
         (D) the no-region store into an existing array (other length: rejected; other chunking: rechunked) vs
             `validateNoRegion` / `storeCopy`.
oracle : independent of the model: sources x targets x regions x eager/lazy x executors x lists of pairs, expectation
         computed with NumPy (`target[region] = source`, sentinel elsewhere); "rejected" = ValueError before the
         computation was started with every target untouched.  Known genuine defects are classified on the shrunk case.
"""
from __future__ import annotations

import c11_cases as cc

DRIVER = "C11"
RULE = ("region requests: 1-3 axes, target length 1..12, chunk 1..5, slices {None, aligned, misaligned, negative, beyond the "
        "end, stepped}, source chunking equal or different, source shape right or off by one; pair lists: 1-3 pairs over a "
        "pool of 2-5 related arrays (in-memory, from_zarr, elementwise, fused chain, rechunked, already computed) into paths, "
        "group paths, existing arrays (same / other chunking, sharded, other shape) with or without regions, eager and lazy, "
        "single-threaded and threads; non-trivial = more than one task or more than one pair or a region; distinct by case text")
ASSUMPTIONS = [
    "zarr `target[slot] = value` writes exactly the slot when value and slot have the same length (the only case the fixed "
    "code produces; the old variant of the model additionally uses value[:len(slot)] + NumPy broadcasting, kept for the "
    "`_old_` theorems) - compared on every executed region case: final target contents and error kind",
    "zarr OrthogonalIndexer / SliceDimIndexer iteration (chunks hit by a slice, empty projections skipped) as modelled by "
    "`hitBlocks` (compared with `list(pipeline.mappable)` on every accepted region case)",
    "`source.rechunk(c)` yields an array with the same values and chunk size min(c, extent) per axis (C14/C01); an op that "
    "is re-targeted in place writes its whole output to the new location (C05/C01) (compared on every generated pair list "
    "the model makes a prediction for)",
    "the single-threaded executor runs the tasks of an op in mappable order and stops at the first failing task",
]
TRUSTED = [
    "modelled not verified: NumPy broadcasting inside zarr's chunk merge; Python slice.indices; the order in which "
    "compute_arrays merges the per-array plans: when a re-targeted lazy source is still read at its old location (or read "
    "back from an existing array chunked differently) the model answers `broken` (no prediction; the implementation raises "
    "midway, computes from fill values, or survives by luck)",
]

VERDICT_MSG = {"does not align with target chunks": "misaligned", "does not match region shape": "shape",
               "must not have steps other than 1": "badstep", "must be a tuple of": "badregion",
               "does not match target shape": "shape"}


# ------------------------------------------------------------------------------------------------
# generators
# ------------------------------------------------------------------------------------------------

def gen_axis(rng, flavour):
    """One axis of a region request: dict(n, cs, sl=(start, stop, step), m, sc)."""
    n = rng.randint(1, 12)
    cs = rng.randint(1, min(n, 5))
    nb = -(-n // cs)
    step = None
    if flavour == "aligned":
        k = rng.randint(0, nb - 1)
        j = rng.randint(k + 1, nb)
        start = k * cs if (k or rng.random() < 0.5) else None
        stop = min(j * cs, n) if (j < nb or rng.random() < 0.6) else None
        if stop is not None and j == nb and rng.random() < 0.3:
            stop = j * cs  # beyond the end but chunk aligned
        if rng.random() < 0.15:
            step = 1
    elif flavour == "none":
        start = stop = None
    elif flavour == "misaligned":
        start = rng.randint(0, n)
        stop = rng.randint(start, n + 2)
    elif flavour == "negative":
        start = -rng.choice([cs * i for i in range(1, nb + 2)]) if rng.random() < 0.6 else rng.choice([None, 0])
        stop = rng.choice([None, -cs * rng.randint(0, nb), -rng.randint(1, n)]) if rng.random() < 0.7 else None
        if start is None and stop is None:
            start = -cs
        if stop == 0:
            stop = None
    elif flavour == "stepped":
        k = rng.randint(0, nb - 1)
        start = k * cs
        stop = rng.choice([None, n, min(nb * cs, n)])
        step = rng.choice([2, 3, cs, cs + 1])
        if step == 1:
            step = 2
    else:
        raise ValueError(flavour)
    nitems = len(range(*slice(start, stop, step).indices(n)))
    m = nitems
    r = rng.random()
    if r < 0.08:
        m = nitems + 1
    elif r < 0.12 and nitems > 1:
        m = nitems - 1
    if m == 0:
        m = 1
    r = rng.random()
    if r < 0.6:
        sc = cs
    elif r < 0.7:
        sc = 1
    else:
        sc = rng.randint(1, max(1, m))
    return {"n": n, "cs": cs, "sl": (start, stop, step), "m": m, "sc": min(sc, m)}


def gen_region_case(rng):
    nd = rng.choice([1, 1, 1, 2, 2, 3])
    main = rng.choice(["aligned"] * 5 + ["misaligned", "negative", "stepped"])
    axes = []
    for _ in range(nd):
        fl = main if rng.random() < 0.6 else rng.choice(["aligned", "aligned", "none"])
        axes.append(gen_axis(rng, fl))
    if all(a["sl"] == (None, None, None) for a in axes):
        axes[0] = gen_axis(rng, "aligned")
        if axes[0]["sl"] == (None, None, None):
            axes[0]["sl"] = (0, None, None)
    if rng.random() < 0.1:
        # sharded target: the model's chunk size is the shard size
        for a in axes:
            a["inner"] = rng.choice([d for d in range(1, a["cs"] + 1) if a["cs"] % d == 0])
    if nd > 1 and rng.random() < 0.06:
        # region tuple shorter than ndim: no entry for the trailing axes (their source extent = the whole axis)
        for a in axes[rng.randint(1, nd - 1):]:
            a["absent"] = True
            a["sl"] = (None, None, None)
            a["m"] = a["n"]
            a["sc"] = min(a["sc"], a["m"])
        if all(a["sl"] == (None, None, None) for a in axes if not a.get("absent")):
            # all-None entries mean "no region" to the code, whatever the tuple's length: keep this a region request
            axes[0]["sl"] = (0, None, None)
            axes[0]["m"] = axes[0]["n"]
            axes[0]["sc"] = min(axes[0]["sc"], axes[0]["m"])
    # keep n-D cases small
    while nd > 1 and _prod(a["n"] for a in axes) > 400:
        for a in axes:
            if a["n"] > 4:
                return gen_region_case(rng)
    return axes


def _prod(xs):
    p = 1
    for x in xs:
        p *= x
    return p


def axis_req(a):
    s, e, st = a["sl"]
    f = lambda v: "N" if v is None else str(v)
    if a.get("absent"):
        return "%d,%d,X,N,N,%d,%d" % (a["n"], a["cs"], a["m"], a["sc"])
    return "%d,%d,%s,%s,%s,%d,%d" % (a["n"], a["cs"], f(s), f(e), f(st), a["m"], a["sc"])


def region_request(axes):
    return "region|" + ";".join(axis_req(a) for a in axes)


# ------------------------------------------------------------------------------------------------
# (A) region requests on the real code
# ------------------------------------------------------------------------------------------------

def real_region(env, axes, run=True):
    """Answer line in the driver's format, computed from the implementation (`run=False`: build the op only)."""
    import numpy as np
    import zarr

    import cubed
    import cubed.array_api as xp
    from cubed.primitive.blockwise import ChunkKey

    shape = tuple(a["n"] for a in axes)
    chunks = tuple(a["cs"] for a in axes)
    mshape = tuple(a["m"] for a in axes)
    p = env.fresh()
    if any(a.get("inner") for a in axes):
        # sharded target: `cs` is the shard size, the stored (inner) chunks divide it
        z = zarr.create_array(p, shape=shape, chunks=tuple(a.get("inner") or a["cs"] for a in axes), shards=chunks,
                              dtype="int64", fill_value=0)
    else:
        z = zarr.create_array(p, shape=shape, chunks=chunks, dtype="int64", fill_value=0)
    z[...] = -1
    src = xp.asarray(np.arange(1, _prod(mshape) + 1, dtype="int64").reshape(mshape), chunks=tuple(a["sc"] for a in axes),
                     spec=env.spec)
    region = tuple(slice(*a["sl"]) for a in axes if not a.get("absent"))
    extra = {}
    try:
        out = cubed.store(src, z, regions=region, compute=False)
    except ValueError as e:
        msg = str(e)
        v = next((v for k, v in VERDICT_MSG.items() if k in msg), "ValueError:" + msg[:60])
        extra["untouched"] = bool(np.all(zarr.open_array(p, mode="r")[...] == -1))
        return "verdict=" + v, extra
    except Exception as e:  # noqa: BLE001
        return "verdict=exc:" + type(e).__name__, extra
    arr = out[0]
    dag = arr._plan.dag
    ops = [n for n in dag.predecessors(arr.name) if "primitive_op" in dag.nodes[n]]
    pop = dag.nodes[ops[0]]["primitive_op"]
    blocks = [list(b) for b in pop.pipeline.mappable]
    kf = pop.pipeline.config.back_key_function
    offs = None
    consistent = True
    for b in blocks:
        fa = kf(ChunkKey("out", tuple(b)))
        k = fa.args[0]
        # the op reads one array: the source itself or the source rechunked to the target's chunks
        if k.name != pop.source_array_names[0] or len(pop.source_array_names) != 1 or len(fa.args) != 1:
            consistent = False
        d = [bo - bi for bo, bi in zip(b, k.coords)]
        if offs is None:
            offs = d
        elif offs != d:
            consistent = False
    extra["keys_consistent"] = consistent
    extra["has_blocks"] = bool(blocks)
    if not run:
        return "verdict=ok offsets=%s blocks=%s declared=%d" % (
            ",".join(map(str, offs)) if offs is not None else "?",
            " ".join(".".join(map(str, b)) for b in blocks), pop.num_tasks), extra
    ex = cc.executors()["single"]()
    outcome = "ok"
    try:
        arr.compute(executor=ex, _return_in_memory_array=False)
    except IndexError:
        outcome = "IndexError"
    except ValueError as e:
        outcome = "BroadcastError" if "broadcast" in str(e) else "ValueError:" + str(e)[:40]
    except Exception as e:  # noqa: BLE001
        outcome = "exc:" + type(e).__name__
    final = zarr.open_array(p, mode="r")[...].ravel().tolist()
    line = "verdict=ok offsets=%s blocks=%s declared=%d outcome=%s final=%s" % (
        ",".join(map(str, offs)) if offs is not None else "?",
        " ".join(".".join(map(str, b)) for b in blocks), pop.num_tasks, outcome, ",".join(map(str, final)))
    return line, extra


def prep_regions(ctx, n):
    cases = [gen_region_case(ctx.rng) for _ in range(n)]
    # the concrete witnesses of the `_fails` theorems and of the examples in Properties/C11.lean
    fixed = [
        [{"n": 8, "cs": 4, "sl": (0, 8, None), "m": 8, "sc": 8}],
        [{"n": 8, "cs": 4, "sl": (0, 8, None), "m": 8, "sc": 2}],
        [{"n": 8, "cs": 4, "sl": (0, 8, None), "m": 8, "sc": 1}],
        [{"n": 4, "cs": 4, "sl": (0, 4, 4), "m": 1, "sc": 1}],
        [{"n": 8, "cs": 4, "sl": (0, 8, 2), "m": 4, "sc": 4}],
        [{"n": 12, "cs": 4, "sl": (-8, None, None), "m": 8, "sc": 4}],
        [{"n": 9, "cs": 4, "sl": (4, -4, None), "m": 1, "sc": 1}],
        [{"n": 12, "cs": 4, "sl": (4, 12, None), "m": 8, "sc": 4}],
        [{"n": 10, "cs": 4, "sl": (8, 10, None), "m": 2, "sc": 2}],
        [{"n": 6, "cs": 2, "sl": (2, 6, None), "m": 4, "sc": 2}, {"n": 5, "cs": 3, "sl": (3, None, None), "m": 2, "sc": 2}],
        [{"n": 4, "cs": 2, "sl": (2, 4, None), "m": 2, "sc": 2}, {"n": 4, "cs": 2, "sl": (None, None, None), "m": 4, "sc": 2, "absent": True}],
        [{"n": 10, "cs": 4, "sl": (0, 12, None), "m": 10, "sc": 3}],
        [{"n": 8, "cs": 4, "sl": (4, 4, None), "m": 1, "sc": 1}],
        [{"n": 16, "cs": 8, "inner": 2, "sl": (8, 16, None), "m": 8, "sc": 4}],
        [{"n": 16, "cs": 8, "inner": 2, "sl": (4, 12, None), "m": 8, "sc": 4}],
    ]
    cases = fixed + cases
    reqs = [region_request(c) for c in cases]
    return cases, reqs


def check_regions(ctx, env, cases, reqs, ans):
    for axes, rq, model in zip(cases, reqs, ans):
        try:
            impl, extra = real_region(env, axes)
        except Exception as e:  # noqa: BLE001
            ctx.fail("harness could not run the region case: %r" % (e,), {"request": rq})
            continue
        verdict = impl.split(" ")[0]
        nontrivial = verdict == "verdict=ok" and extra.get("has_blocks", False)
        ctx.count({"region": rq, "impl": impl[:200]}, nontrivial=nontrivial, kind="region:" + verdict.split("=")[1].split(":")[0])
        if verdict == "verdict=ok":
            out = [f for f in impl.split(" ") if f.startswith("outcome=")][0]
            ctx.dist["region-run:" + out.split("=")[1].split(":")[0]] += 1
            ctx.traces += 1
        case = {"request": rq, "oracle_case": region_oracle_case(axes)}
        if extra.get("untouched") is False:
            ctx.fail("region store raised ValueError after the target had been modified", case)
        if extra.get("keys_consistent") is False:
            ctx.fail("region key function is not a constant block offset of the source", case)
        m = model
        if verdict == "verdict=ok" and not extra.get("has_blocks") and m.startswith("verdict=ok"):
            # no output block: the offsets are unobservable
            import re
            m = re.sub(r"offsets=\S*", "offsets=?", m)
        if m != impl:
            ctx.disagree("StoreSem.validate/runRegion = _store_array region branch + apply_blockwise", case, model, impl)


def region_oracle_case(axes):
    """The same request as an end-to-end oracle case."""
    sharded = any(a.get("inner") for a in axes)
    return {"shape": [a["m"] for a in axes],
            "pool": [{"op": "asarray", "chunks": [a["sc"] for a in axes]}],
            "pairs": [{"src": 0, "target": {"kind": "array", "shape": [a["n"] for a in axes],
                                            "chunks": [(a.get("inner") or a["cs"]) if sharded else a["cs"] for a in axes],
                                            "shards": [a["cs"] for a in axes] if sharded else None},
                       "region": [list(a["sl"]) for a in axes if not a.get("absent")]}],
            "api": "store", "compute": "eager", "executor": "single"}


# ------------------------------------------------------------------------------------------------
# (B) pairing
# ------------------------------------------------------------------------------------------------

def prep_pairing(ctx):
    combos = [(ns, nt, r) for ns in range(0, 4) for nt in range(0, 4)
              for r in ["N", "one"] + ["many:%d" % k for k in range(0, 4)]]
    if ctx.tier == "quick":
        combos = ctx.rng.sample(combos, 40)
    reqs = ["pairs|%d|%d|%s" % c for c in combos]
    return combos, reqs


def check_pairing(ctx, env, combos, reqs, ans):
    import os

    import numpy as np

    import cubed
    import cubed.array_api as xp

    for (ns, nt, r), rq, model in zip(combos, reqs, ans):
        srcs = [xp.asarray(np.arange(4) + i, chunks=(2,), spec=env.spec) for i in range(ns)]
        tgts = [env.fresh() for _ in range(nt)]
        if r == "N":
            rg = None
        elif r == "one":
            rg = (slice(None),)
        else:
            rg = [(slice(None),)] * int(r.split(":")[1])
        try:
            out = cubed.store(srcs, tgts, regions=rg, compute=False)
            impl = "ok %d" % len(out)
        except ValueError as e:
            msg = str(e)
            impl = "error lenRegions" if "than regions" in msg else ("error lenTargets" if "Different number of sources" in msg
                                                                      else "ValueError " + msg[:50])
        except Exception as e:  # noqa: BLE001
            impl = "exc " + type(e).__name__
        ctx.count({"pairs": rq, "impl": impl}, nontrivial=ns > 0 and nt > 0, kind="pairing:" + impl.split(" ")[0])
        if any(os.path.exists(t) for t in tgts):
            ctx.fail("store(compute=False) created a target on disk", {"request": rq})
        if impl != model:
            ctx.disagree("StoreSem.pairUp = store argument pairing", {"request": rq, "oracle_case": pairing_oracle_case(ns, nt, r)},
                         model, impl)


def pairing_oracle_case(ns, nt, r):
    return {"pairing": [ns, nt, r]}


# ------------------------------------------------------------------------------------------------
# (C) pair lists: re-targeting, repeated and dependent sources
# ------------------------------------------------------------------------------------------------

def gen_pool(rng, shape, chunks, size):
    pool = [{"op": rng.choice(["asarray", "asarray", "fromzarr"]), "chunks": list(chunks)}]
    while len(pool) < size:
        r = rng.random()
        i = rng.randrange(len(pool))
        if r < 0.3:
            pool.append({"op": "add1", "arg": i})
        elif r < 0.4:
            pool.append({"op": "neg", "arg": i})
        elif r < 0.55:
            pool.append({"op": "chain", "arg": i})
        elif r < 0.7:
            pool.append({"op": "add", "args": [i, rng.randrange(len(pool))]})
        elif r < 0.8:
            pool.append({"op": "rechunk", "arg": i, "chunks": [max(1, c // 2) for c in chunks]})
        elif r < 0.88:
            pool.append({"op": "computed", "arg": i})
        else:
            pool.append({"op": rng.choice(["asarray", "fromzarr"]), "chunks": list(chunks)})
    return pool


def gen_store_case(rng):
    """Pair list for correspondence (C): targets are fresh paths or existing arrays twice the source's length with a
    chunk-aligned (accepted) or misaligned (rejected) half region; chunking always equal."""
    nd = rng.choice([1, 1, 2])
    chunks = [rng.choice([2, 3, 4]) for _ in range(nd)]
    shape = [c * rng.choice([1, 2]) for c in chunks]
    pool = gen_pool(rng, shape, chunks, rng.randint(2, 5))
    pairs = []
    for _ in range(rng.randint(1, 3)):
        src = rng.randrange(len(pool))
        r = rng.random()
        if r < 0.5:
            pairs.append({"src": src, "target": {"kind": "path"}, "region": None, "accepted": True})
        elif r < 0.6:
            # existing array of the source's shape; "half": stored chunks that divide the source's (no rechunk inserted)
            pairs.append({"src": src, "target": {"kind": "array", "shape": list(shape), "chunks": None, "shards": None,
                                                 "half": rng.random() < 0.7},
                          "region": None, "accepted": True})
        else:
            second = rng.random() < 0.5
            tshape = [2 * s for s in shape]
            region = [[s, 2 * s, None] if second else [0, s, None] for s in shape]
            accepted = True
            if r > 0.9:
                region[0] = [1, shape[0] + 1, None]
                accepted = chunks[0] == 1
            pairs.append({"src": src, "target": {"kind": "array", "shape": tshape, "chunks": None, "shards": None},
                          "region": region, "accepted": accepted})
    return {"shape": shape, "pool": pool, "pairs": pairs, "api": "store", "compute": "lazy", "executor": "single"}


def prep_store(ctx, env, n):
    cases = [gen_store_case(ctx.rng) for _ in range(n)]
    fixed = [
        {"shape": [8], "pool": [{"op": "asarray", "chunks": [4]}, {"op": "add1", "arg": 0}],
         "pairs": [{"src": 1, "target": {"kind": "path"}, "region": None, "accepted": True},
                   {"src": 1, "target": {"kind": "path"}, "region": None, "accepted": True}],
         "api": "store", "compute": "lazy", "executor": "single"},
        {"shape": [8], "pool": [{"op": "asarray", "chunks": [4]}, {"op": "add1", "arg": 0}, {"op": "neg", "arg": 1}],
         "pairs": [{"src": 1, "target": {"kind": "path"}, "region": None, "accepted": True},
                   {"src": 2, "target": {"kind": "path"}, "region": None, "accepted": True}],
         "api": "store", "compute": "lazy", "executor": "single"},
    ]
    fixed.append(
        {"shape": [4, 4], "pool": [{"op": "asarray", "chunks": [4, 2]}, {"op": "add1", "arg": 0}],
         "pairs": [{"src": 1, "target": {"kind": "array", "shape": [4, 4], "chunks": [2, 1], "shards": None}, "region": None,
                    "accepted": True},
                   {"src": 1, "target": {"kind": "array", "shape": [8, 8], "chunks": None, "shards": None},
                    "region": [[0, 4, None], [0, 4, None]], "accepted": True}],
         "api": "store", "compute": "lazy", "executor": "single"})
    cases = fixed + cases
    # laziness and dependencies are read off the real arrays, so the pool has to be built before asking the model
    prepared = []
    for case in cases:
        for p in case["pairs"]:
            if p["target"]["kind"] == "array" and p["target"]["chunks"] is None:
                pass
        try:
            arrs, _ = cc.build_pool(env, case)
        except Exception as e:  # noqa: BLE001
            ctx.fail("could not build the source pool: %r" % (e,), case)
            continue
        chunk_of = [list(a.chunksize) for a in arrs]
        for p in case["pairs"]:
            p["same"] = True
            if p["target"]["kind"] == "array" and p["target"]["chunks"] is not None and p["region"] is None:
                p["same"] = list(p["target"]["chunks"]) == chunk_of[p["src"]]
            if p["target"]["kind"] == "array" and p["target"]["chunks"] is None:
                p["target"]["chunks"] = list(chunk_of[p["src"]])
                if p["region"] is None:
                    if p["target"].pop("half", False):
                        p["target"]["chunks"] = [c // 2 if c % 2 == 0 else c for c in p["target"]["chunks"]]
                    p["same"] = p["target"]["chunks"] == chunk_of[p["src"]]
                    continue
                # alignment of the half region with the *actual* source chunking
                cs = p["target"]["chunks"]
                p["accepted"] = all((r[0] % c == 0) and (r[1] % c == 0 or r[1] == 2 * s)
                                    for r, c, s in zip(p["region"], cs, case["shape"]))
        info = cc.pool_info(case, arrs)
        lazy, deps, ident = info["lazy"], info["deps"], info["ident"]
        tab = " ".join("%d:%d:%s" % (i, int(lazy[i]), ".".join(str(ident[d]) for d in deps[i]))
                       for i in range(len(arrs)) if ident[i] == i)
        prs = " ".join("%d:%d:%d:%d:%d:%d" % (ident[p["src"]], 100 + k, int(p["region"] is not None), int(p["accepted"]),
                                              int(p["same"]), int(p["target"]["kind"] == "array"))
                       for k, p in enumerate(case["pairs"]))
        prepared.append((case, "store|%s|%s" % (tab, prs)))
    return prepared, [rq for _, rq in prepared]


def check_store(ctx, env, prepared, reqs, ans):
    import numpy as np

    for (case, rq), model in zip(prepared, ans):
        run = dict(case, pairs=[{k: v for k, v in p.items() if k not in ("accepted", "same")} for p in case["pairs"]])
        try:
            res = cc.run_case(env, run)
        except Exception as e:  # noqa: BLE001
            ctx.fail("harness could not run the pair list: %r" % (e,), run)
            continue
        st = res["status"]
        if st == "rejected":
            k = next((i for i, p in enumerate(case["pairs"]) if not p["accepted"]), -1)
            impl = "rejected %d" % k
        elif st in ("late-error", "build-error"):
            impl = "lateError" if st == "late-error" else "build-error " + str(res["error"])[:60]
        else:
            marks = []
            for (kind, want), got, t in zip(res["exp"], res["after"], res["targets"]):
                if got is None or (t["existing"] and np.array_equal(got, t["before"])):
                    marks.append("m")
                elif want is not None and got.shape == want.shape and np.array_equal(got, want):
                    marks.append("w")
                else:
                    marks.append("x")
            impl = "done " + " ".join(marks)
        ctx.count({"store": rq, "impl": impl}, nontrivial=len(case["pairs"]) > 1, kind="store:" + impl.split(" ")[0])
        ctx.traces += 1
        if model == "broken":
            # outside the model's envelope (a re-targeted lazy source is still read at its old location): no prediction;
            # what the implementation does there (raise midway / fill values / by luck nothing) is recorded only
            ctx.dist["store-broken->" + impl.split(" ")[0] + ("-all-written" if impl.startswith("done") and set(impl.split(" ")[1:]) <= {"w"} else "")] += 1
            continue
        if impl != model:
            ctx.disagree("StoreSem.storeOutcome = store loop over _store_array + compute_arrays",
                         {"request": rq, "oracle_case": run}, model, impl)


# ------------------------------------------------------------------------------------------------
# (D) no-region identity copy into an existing array of another length
# ------------------------------------------------------------------------------------------------

def prep_copy(ctx, n):
    """(m, sc, n, tc): length-m source with chunk sc stored without region into an existing length-n array with chunk tc"""
    cases = []
    for _ in range(n):
        m = ctx.rng.randint(1, 12)
        sc = min(ctx.rng.randint(1, 6), m)
        nn = m if ctx.rng.random() < 0.75 else ctx.rng.randint(1, 12)
        tc = sc if ctx.rng.random() < 0.3 else ctx.rng.randint(1, 6)
        cases.append((m, sc, nn, min(tc, nn)))
    cases += [(8, 4, 6, 4), (8, 4, 10, 4), (8, 1, 8, 4), (8, 3, 8, 4), (8, 8, 8, 4), (11, 1, 10, 1), (5, 3, 9, 3)]
    reqs = ["copy|%d,%d,%d,%d" % c for c in cases]
    return cases, reqs


def check_copy(ctx, env, cases, reqs, ans):
    import numpy as np
    import zarr

    import cubed
    import cubed.array_api as xp

    for (m, sc, nn, tc), rq, model in zip(cases, reqs, ans):
        p = env.fresh()
        z = zarr.create_array(p, shape=(nn,), chunks=(tc,), dtype="int64", fill_value=0)
        z[...] = -1
        src = xp.asarray(np.arange(1, m + 1, dtype="int64"), chunks=(sc,), spec=env.spec)
        ex = cc.executors()["single"]()
        outcome = "ok"
        rejected = None
        try:
            cubed.store(src, z, executor=ex)
        except IndexError:
            outcome = "IndexError"
        except ValueError as e:
            if not ex.started:
                rejected = next((v for k, v in VERDICT_MSG.items() if k in str(e)), "ValueError:" + str(e)[:40])
            else:
                outcome = "BroadcastError" if "broadcast" in str(e) else "ValueError:" + str(e)[:40]
        except Exception as e:  # noqa: BLE001
            outcome = "exc:" + type(e).__name__
        final = zarr.open_array(p, mode="r")[...].tolist()
        if rejected is not None:
            impl = "verdict=" + rejected
            if any(v != -1 for v in final):
                ctx.fail("store raised ValueError after the target had been modified", {"request": rq})
        else:
            impl = "verdict=ok outcome=%s final=%s" % (outcome, ",".join(map(str, final)))
        ctx.count({"copy": rq, "impl": impl[:120]}, nontrivial=m > sc, kind="copy:" + ("same-shape" if m == nn else "other-shape"))
        if impl != model:
            ctx.disagree("StoreSem.validateNoRegion/storeCopy = no-region store into an existing target",
                         {"request": rq, "oracle_case": {
                             "shape": [m], "pool": [{"op": "asarray", "chunks": [sc]}],
                             "pairs": [{"src": 0, "target": {"kind": "array", "shape": [nn], "chunks": [tc], "shards": None},
                                        "region": None}],
                             "api": "store", "compute": "eager", "executor": "single"}}, model, impl)


def prep_builds(ctx):
    """thorough tier: every 1-D request with n <= 6, cs <= 3, start/stop in {None} + [-n-1, n+1], step in {None, 1, 2},
    source of the region's size (and one element more for every 7th), equal chunking - built, not executed."""
    if ctx.tier != "thorough":
        return [], []
    cases = []
    k = 0
    for n in range(1, 7):
        for cs in range(1, min(n, 3) + 1):
            bounds = [None] + list(range(-n - 1, n + 2))
            for start in bounds:
                for stop in bounds:
                    for step in (None, 1, 2):
                        k += 1
                        m = len(range(*slice(start, stop, step).indices(n)))
                        if k % 7 == 0:
                            m += 1
                        if m == 0:
                            continue
                        if (start, stop, step) == (None, None, None):
                            continue
                        cases.append([{"n": n, "cs": cs, "sl": (start, stop, step), "m": m, "sc": min(cs, m)}])
    return cases, [region_request(c) for c in cases]


def check_builds(ctx, env, cases, reqs, ans):
    import re
    for axes, rq, model in zip(cases, reqs, ans):
        try:
            impl, extra = real_region(env, axes, run=False)
        except Exception as e:  # noqa: BLE001
            ctx.fail("harness could not build the region case: %r" % (e,), {"request": rq})
            continue
        m = re.sub(r" outcome=.*$", "", model)
        if impl.startswith("verdict=ok") and not extra.get("has_blocks"):
            m = re.sub(r"offsets=\S*", "offsets=?", m)
        ctx.count({"build": rq, "impl": impl[:120]}, nontrivial=impl.startswith("verdict=ok") and extra.get("has_blocks", False),
                  kind="build:" + impl.split(" ")[0].split("=")[1].split(":")[0])
        if extra.get("untouched") is False:
            ctx.fail("region store raised ValueError after the target had been modified", {"request": rq})
        if m != impl:
            ctx.disagree("StoreSem.validate/blockOffset/outputBlocks/declaredTasks = _store_array region branch (exhaustive small 1-D)",
                         {"request": rq, "oracle_case": region_oracle_case(axes)}, m, impl)
    if cases:
        ctx.exhaustive = True
        ctx.notes.append("thorough: all %d one-axis requests with n<=6, cs<=3, bounds in {None} + [-n-1, n+1], step in {None,1,2} and a "
                         "non-empty source built on the implementation and compared with validate/offsets/blocks/declared"
                         % len(cases))


def corr(ctx):
    env = cc.Env()
    try:
        parts = [
            (check_regions,) + prep_regions(ctx, ctx.budget(100, 700)),
            (check_pairing,) + prep_pairing(ctx),
            (check_store,) + prep_store(ctx, env, ctx.budget(30, 250)),
            (check_copy,) + prep_copy(ctx, ctx.budget(15, 120)),
            (check_builds,) + prep_builds(ctx),
        ]
        # one driver invocation for everything
        allreq = [rq for _, _, reqs in parts for rq in reqs]
        ans = ctx.lean.drive(DRIVER, allreq)
        pos = 0
        for fn, cases, reqs in parts:
            fn(ctx, env, cases, reqs, ans[pos:pos + len(reqs)])
            pos += len(reqs)
    finally:
        env.close()


# ------------------------------------------------------------------------------------------------
# direct oracle
# ------------------------------------------------------------------------------------------------

def gen_region(rng, tshape, tchunks, mshape, flavour):
    """Region of `mshape` elements inside a target; returns list of [start, stop, step] or None when impossible."""
    out = []
    for n, cs, m in zip(tshape, tchunks, mshape):
        if flavour in ("aligned", "full"):
            starts = [s for s in range(0, n, cs) if s + m <= n and ((s + m) % cs == 0 or s + m == n)]
            if not starts:
                return None
            s = rng.choice(starts)
            start = s if (s or rng.random() < 0.6) else None
            stop = s + m if (s + m < n or rng.random() < 0.6) else None
            out.append([start, stop, None if rng.random() < 0.8 else 1])
        elif flavour == "misaligned":
            if n - m < 1:
                out.append([0, m, None])
                continue
            s = rng.randint(0, n - m)
            out.append([s, s + m, None])
        elif flavour == "negative":
            starts = [s for s in range(0, n, cs) if s + m <= n and ((s + m) % cs == 0 or s + m == n)]
            if not starts:
                return None
            s = rng.choice(starts)
            if rng.random() < 0.5 or s + m == n:
                out.append([s - n, s + m if s + m < n else None, None])
            else:
                out.append([s, s + m - n, None])
        elif flavour == "stepped":
            step = rng.choice([2, 3])
            span = (m - 1) * step + 1
            starts = [s for s in range(0, n, cs) if s + span <= n]
            if not starts:
                return None
            s = rng.choice(starts)
            stop = rng.choice([e for e in range(s + span, min(n, s + span + step - 1) + 1)
                               if e % cs == 0 or e == n] or [None])
            if stop is None:
                if s + span + step - 1 < n:
                    return None
            out.append([s, stop, step])
    if flavour == "misaligned" and all((r[0] % cs == 0) and (r[1] % cs == 0 or r[1] == n)
                                       for r, cs, n in zip(out, tchunks, tshape)):
        return None
    return out


def gen_oracle_case(rng):
    nd = rng.choice([1, 1, 2])
    chunks = [rng.choice([1, 2, 3, 4]) for _ in range(nd)]
    shape = [max(1, c * rng.choice([1, 2, 3]) - rng.choice([0, 0, 1])) for c in chunks]
    pool = gen_pool(rng, shape, chunks, rng.randint(1, 4))
    api = "to_zarr" if rng.random() < 0.25 else "store"
    npairs = 1 if api == "to_zarr" else rng.choice([1, 1, 2, 3])
    pairs = []
    for k in range(npairs):
        src = rng.randrange(len(pool))
        r = rng.random()
        if r < 0.3:
            t = {"kind": "path"}
            region = None if rng.random() < 0.85 else [[None, None, None]] * nd
        elif r < 0.38 and api == "to_zarr":
            t = {"kind": "group", "path": rng.choice(["g", "g/sub/arr"])}
            region = None
        elif r < 0.6:
            # existing array of the source's shape, no region / full region
            kind = rng.random()
            tch = list(chunks) if kind < 0.5 else [rng.randint(1, max(1, s)) for s in shape]
            t = {"kind": "array", "shape": list(shape), "chunks": tch, "shards": None, "reopen": rng.random() < 0.3}
            if kind > 0.85:
                t["chunks"] = [max(1, c // 2) if c > 1 else 1 for c in chunks]
                t["shards"] = [c * rng.choice([1, 2]) for c in t["chunks"]]
            if kind > 0.95:
                t["shape"] = [s + rng.choice([-1, 1, 2]) if s > 1 else s + 1 for s in shape]
            region = None if rng.random() < 0.7 else [[None, None, None]] * nd
        else:
            # region inside a larger existing array
            same = rng.random() < 0.75
            tch = list(chunks) if same else [rng.randint(1, 4) for _ in range(nd)]
            tshape = [s + c * rng.choice([0, 1, 2]) for s, c in zip(shape, tch)]
            flavour = rng.choice(["aligned"] * 6 + ["misaligned", "misaligned", "negative", "stepped"])
            # sometimes a region of another size than the source (must be rejected)
            mshape = shape if rng.random() < 0.92 else [max(1, s + rng.choice([-1, 1])) for s in shape]
            region = gen_region(rng, tshape, tch, mshape, flavour)
            if region is None:
                region = gen_region(rng, tshape, tch, mshape, "aligned")
            if region is None:
                tshape = [s + c for s, c in zip(shape, chunks)]
                tch = list(chunks)
                region = [[0, s, None] for s in shape]
            t = {"kind": "array", "shape": tshape, "chunks": tch, "shards": None, "reopen": rng.random() < 0.3}
            if rng.random() < 0.06:
                t["chunks"] = [max(1, c // 2) if c > 1 else 1 for c in tch]
                t["shards"] = list(tch)
            if nd > 1 and rng.random() < 0.04:
                region = region[:-1]
            # a second pair into the same target, other region
            if k > 0 and rng.random() < 0.3 and pairs[-1]["target"]["kind"] == "array" and pairs[-1]["region"] is not None:
                prev = pairs[-1]
                r2 = gen_region(rng, prev["target"]["shape"], prev["target"]["chunks"], shape, "aligned")
                if r2 is not None and _disjoint(r2, prev["region"], prev["target"]["shape"]):
                    t = dict(prev["target"], same_as=k - 1)
                    region = r2
        pairs.append({"src": src, "target": t, "region": region})
    case = {"shape": shape, "pool": pool, "pairs": pairs, "api": api,
            "compute": rng.choice(["eager", "lazy"]), "executor": rng.choice(["single", "threads"])}
    if api == "store":
        case["regions_as_tuple"] = rng.random() < 0.5
        case["single_arg"] = rng.random() < 0.5
    return case


def _disjoint(r1, r2, shape):
    if len(r1) != len(shape) or len(r2) != len(shape):
        return False
    for a, b, n in zip(r1, r2, shape):
        x = set(range(*slice(*a).indices(n)))
        y = set(range(*slice(*b).indices(n)))
        if not (x & y):
            return True
    return False


WITNESSES = [
    # (a) region, other source chunking
    {"shape": [8], "pool": [{"op": "asarray", "chunks": [8]}],
     "pairs": [{"src": 0, "target": {"kind": "array", "shape": [8], "chunks": [4], "shards": None}, "region": [[0, 8, None]]}],
     "api": "store", "compute": "eager", "executor": "single"},
    {"shape": [8], "pool": [{"op": "asarray", "chunks": [2]}],
     "pairs": [{"src": 0, "target": {"kind": "array", "shape": [8], "chunks": [4], "shards": None}, "region": [[0, 8, None]]}],
     "api": "store", "compute": "eager", "executor": "threads"},
    {"shape": [8], "pool": [{"op": "asarray", "chunks": [1]}],
     "pairs": [{"src": 0, "target": {"kind": "array", "shape": [8], "chunks": [4], "shards": None}, "region": [[0, 8, None]]}],
     "api": "to_zarr", "compute": "eager", "executor": "single"},
    # (b) stepped region
    {"shape": [1], "pool": [{"op": "asarray", "chunks": [1]}],
     "pairs": [{"src": 0, "target": {"kind": "array", "shape": [4], "chunks": [4], "shards": None}, "region": [[0, 4, 4]]}],
     "api": "store", "compute": "eager", "executor": "single"},
    {"shape": [4], "pool": [{"op": "asarray", "chunks": [4]}],
     "pairs": [{"src": 0, "target": {"kind": "array", "shape": [8], "chunks": [4], "shards": None}, "region": [[0, 8, 2]]}],
     "api": "store", "compute": "lazy", "executor": "single"},
    # negative bounds
    {"shape": [8], "pool": [{"op": "asarray", "chunks": [4]}],
     "pairs": [{"src": 0, "target": {"kind": "array", "shape": [12], "chunks": [4], "shards": None}, "region": [[-8, None, None]]}],
     "api": "store", "compute": "eager", "executor": "single"},
    # (c) the same lazy source twice
    {"shape": [8], "pool": [{"op": "asarray", "chunks": [4]}, {"op": "add1", "arg": 0}],
     "pairs": [{"src": 1, "target": {"kind": "path"}, "region": None}, {"src": 1, "target": {"kind": "path"}, "region": None}],
     "api": "store", "compute": "eager", "executor": "single"},
    # a listed dependant of a re-targeted lazy source
    {"shape": [8], "pool": [{"op": "asarray", "chunks": [4]}, {"op": "add1", "arg": 0}, {"op": "neg", "arg": 1}],
     "pairs": [{"src": 1, "target": {"kind": "path"}, "region": None}, {"src": 2, "target": {"kind": "path"}, "region": None}],
     "api": "store", "compute": "eager", "executor": "single"},
    # (d) existing target with other chunking, parallel executor
    {"shape": [4, 4], "pool": [{"op": "asarray", "chunks": [1, 1]}],
     "pairs": [{"src": 0, "target": {"kind": "array", "shape": [4, 4], "chunks": [4, 4], "shards": None}, "region": None}],
     "api": "store", "compute": "eager", "executor": "threads"},
    # no region, other shape
    {"shape": [8], "pool": [{"op": "asarray", "chunks": [4]}],
     "pairs": [{"src": 0, "target": {"kind": "array", "shape": [6], "chunks": [4], "shards": None}, "region": None}],
     "api": "store", "compute": "eager", "executor": "single"},
    # region tuple shorter than ndim
    {"shape": [2, 4], "pool": [{"op": "asarray", "chunks": [2, 2]}],
     "pairs": [{"src": 0, "target": {"kind": "array", "shape": [4, 4], "chunks": [2, 2], "shards": None}, "region": [[2, 4, None]]}],
     "api": "store", "compute": "eager", "executor": "single"},
    # a lazy source re-targeted into an existing array chunked differently, then used again (known finding)
    {"shape": [4, 4], "pool": [{"op": "asarray", "chunks": [4, 2]}, {"op": "add1", "arg": 0}],
     "pairs": [{"src": 1, "target": {"kind": "array", "shape": [4, 4], "chunks": [2, 1], "shards": None}, "region": None},
               {"src": 1, "target": {"kind": "array", "shape": [8, 8], "chunks": [4, 2], "shards": None},
                "region": [[0, 4, None], [0, 4, None]]}],
     "api": "store", "compute": "eager", "executor": "single"},
    # region into a sharded array under the parallel executor (repaired by b3e0575): must hold
    {"shape": [8], "pool": [{"op": "asarray", "chunks": [4]}],
     "pairs": [{"src": 0, "target": {"kind": "array", "shape": [16], "chunks": [2], "shards": [8]}, "region": [[8, 16, None]]}],
     "api": "store", "compute": "eager", "executor": "threads"},
    {"shape": [8], "pool": [{"op": "asarray", "chunks": [4]}, {"op": "add1", "arg": 0}],
     "pairs": [{"src": 1, "target": {"kind": "array", "shape": [16], "chunks": [2], "shards": [8]}, "region": [[8, 16, None]]}],
     "api": "to_zarr", "compute": "lazy", "executor": "threads"},
    {"shape": [4, 8], "pool": [{"op": "asarray", "chunks": [2, 2]}],
     "pairs": [{"src": 0, "target": {"kind": "array", "shape": [8, 8], "chunks": [1, 2], "shards": [4, 4]},
                "region": [[4, 8, None], [0, 8, None]]}],
     "api": "store", "compute": "eager", "executor": "threads"},
    # healthy: two sources into disjoint regions of one target; one in-memory source into two targets
    {"shape": [4], "pool": [{"op": "asarray", "chunks": [2]}, {"op": "add1", "arg": 0}],
     "pairs": [{"src": 0, "target": {"kind": "array", "shape": [8], "chunks": [2], "shards": None}, "region": [[0, 4, None]]},
               {"src": 1, "target": {"kind": "array", "shape": [8], "chunks": [2], "shards": None, "same_as": 0}, "region": [[4, 8, None]]}],
     "api": "store", "compute": "eager", "executor": "threads"},
    {"shape": [4], "pool": [{"op": "asarray", "chunks": [2]}],
     "pairs": [{"src": 0, "target": {"kind": "path"}, "region": None}, {"src": 0, "target": {"kind": "path"}, "region": None}],
     "api": "store", "compute": "lazy", "executor": "threads"},
]


def flavours(case, info):
    """labels for the evidence's input distribution: source kind, target kind, region kind of every pair"""
    out = []
    if len(case["pairs"]) > 1:
        out.append("pairs:%d" % len(case["pairs"]))
        srcs = [info["ident"][p["src"]] for p in case["pairs"]]
        if len(set(srcs)) < len(srcs):
            out.append("pairs:repeated-source")
    for p in case["pairs"]:
        out.append("source:" + case["pool"][p["src"]]["op"])
        t = p["target"]
        if t["kind"] != "array":
            out.append("target:" + t["kind"])
        elif t.get("shards"):
            out.append("target:sharded")
        elif list(t["chunks"]) == info["src_chunks"][p["src"]]:
            out.append("target:array-same-chunks" + ("-reopened" if t.get("reopen") else ""))
        else:
            out.append("target:array-other-chunks")
        r = p["region"]
        if r is None:
            out.append("region:none")
        elif all(tuple(x) == (None, None, None) for x in r):
            out.append("region:full")
        elif t["kind"] != "array":
            out.append("region:into-created-target")
        elif len(r) < len(t["shape"]):
            out.append("region:short-tuple")
        elif any(x[2] not in (None, 1) for x in r):
            out.append("region:stepped")
        elif any((x[0] is not None and x[0] < 0) or (x[1] is not None and x[1] < 0) for x in r):
            out.append("region:negative-bound")
        elif any((x[0] is not None and x[0] % c) or (x[1] is not None and x[1] % c and x[1] != n)
                 for x, c, n in zip(r, t["chunks"], t["shape"])):
            out.append("region:misaligned")
        elif any(len(range(*slice(*x).indices(n))) != m for x, n, m in zip(r, t["shape"], case["shape"])):
            out.append("region:wrong-shape")
        else:
            out.append("region:aligned")
    return out


def oracle_one(ctx, env, case, label="oracle"):
    try:
        res = cc.run_case(env, case)
    except Exception as e:  # noqa: BLE001
        ctx.fail("harness could not run the case: %r" % (e,), case)
        return
    nontrivial = len(case["pairs"]) > 1 or any(p["region"] is not None for p in case["pairs"]) or \
        any(s > c for s, c in zip(case["shape"], res["info"]["src_chunks"][case["pairs"][0]["src"]]))
    kinds = "+".join(sorted({p["target"]["kind"] + ("-region" if p["region"] is not None else "") for p in case["pairs"]}))
    ctx.count({label: case}, nontrivial=nontrivial, kind="%s:%s:%s" % (label, kinds, res["status"]))
    ctx.dist["executor:" + case["executor"]] += 1
    ctx.dist["mode:" + case["api"] + "-" + case["compute"]] += 1
    for fl in flavours(case, res["info"]):
        ctx.dist[fl] += 1
    if res["failures"]:
        small, sres = cc.shrink(env, case, res)
        key = cc.classify(small, sres["info"])
        ctx.fail("; ".join(sres["failures"][:3]), dict(small, observed=sres["status"], error=sres["error"]), key=key)


def oracle_pairing(ctx, env):
    """A length mismatch must raise ValueError and leave nothing behind (direct, without the model)."""
    import os

    import numpy as np

    import cubed
    import cubed.array_api as xp

    for ns, nt, nr in [(1, 2, None), (2, 1, None), (2, 3, None), (2, 2, 1), (2, 2, 3), (3, 2, 3), (0, 1, None)]:
        srcs = [xp.asarray(np.arange(4) + i, chunks=(2,), spec=env.spec) for i in range(ns)]
        tgts = [env.fresh() for _ in range(nt)]
        rg = None if nr is None else [(slice(None),)] * nr
        case = {"pairing": [ns, nt, nr]}
        ex = cc.executors()["single"]()
        try:
            cubed.store(srcs, tgts, regions=rg, executor=ex)
            ctx.fail("store accepted %d sources, %d targets, %s regions" % (ns, nt, nr), case)
        except ValueError:
            if ex.started or any(os.path.exists(t) for t in tgts):
                ctx.fail("length mismatch reported after something was computed / created", case)
        except Exception as e:  # noqa: BLE001
            ctx.fail("length mismatch raised %r instead of ValueError" % (e,), case)
        ctx.count({"oracle-pairing": case}, nontrivial=False, kind="oracle:pairing")


def oracle(ctx):
    env = cc.Env()
    try:
        for w in WITNESSES:
            oracle_one(ctx, env, w, "witness")
        oracle_pairing(ctx, env)
        for _ in range(ctx.budget(120, 1000)):
            oracle_one(ctx, env, gen_oracle_case(ctx.rng))
    finally:
        env.close()


def search(ctx):
    """A proof obligation or a correspondence relation no longer checks: look for a concrete failing input."""
    env = cc.Env()
    try:
        for d in ctx.disagreements[:25]:
            oc = d["case"].get("oracle_case") if isinstance(d["case"], dict) else None
            if not oc:
                continue
            if "pairing" in oc:
                oracle_pairing(ctx, env)
                continue
            for exe in ("single", "threads"):
                oracle_one(ctx, env, dict(oc, executor=exe), "lifted")
        ctx.rng.seed(ctx.seed + 104729)
        import time
        t0 = time.time()
        limit = 60 if ctx.tier == "quick" else 600
        n = 0
        while time.time() - t0 < limit and n < ctx.budget(400, 6000):
            oracle_one(ctx, env, gen_oracle_case(ctx.rng), "search")
            n += 1
            if n % 3 == 0:
                axes = gen_region_case(ctx.rng)
                oracle_one(ctx, env, region_oracle_case(axes), "search-region")
            if any(not (f["key"] and ctx.known(f["key"])) for f in ctx.failures):
                break
    finally:
        env.close()


def replay(ctx, body):
    """`./check C11 --replay replays/C11-<seed>-failing-input.json`: run the recorded case again and print what happens."""
    import json
    case = body.get("case") or {}
    if "pairing" in case:
        env = cc.Env()
        try:
            oracle_pairing(ctx, env)
        finally:
            env.close()
    elif "pairs" in case:
        run = {k: v for k, v in case.items() if k not in ("observed", "error")}
        env = cc.Env()
        try:
            res = cc.run_case(env, run)
            print("replay:", json.dumps(run))
            print("status:", res["status"], "| error:", res["error"])
            for f in res["failures"]:
                print("FAILS:", f)
            if not res["failures"]:
                print("no failure on this tree")
            else:
                print("classified as:", cc.classify(run, res["info"]))
            for t, a in zip(res["targets"], res["after"]):
                print("target", t["path"], "->", None if a is None else a.tolist())
        finally:
            env.close()
    else:
        print("nothing to replay in this file (broken obligation: see 'no_longer_checks')")
