"""C20 — Serialized arrays compute the same and are never confused with other arrays.

A *history* is a sequence of processes; each runs a small program (harness/pickleproc.py): build arrays, ship some
with cloudpickle, receive arrays shipped by earlier processes, combine them with local ones, round-trip arrays
through cloudpickle in place, compute.  Every process is a fresh interpreter: really (multiprocessing `spawn`) for a
sample, and emulated inside the harness process (name counters reset to 0, new CONTEXT_ID) for many more; the
emulation is cross-checked against the really spawned runs of the same histories.

corr   : (a) the Lean model runs the same history (`Proc.gensym`, `Proc.leaf`, `Proc.apply`, `unpickle ∘ pickle`) and
             must produce the same names, storage locations and plans (node maps) as the real processes, the same
             NamesAgree verdict per combination step, and a denotation that predicts the real outcome: equal to the
             reference term => every real compute is right; a different *defined* term => the unoptimized real compute
             returns exactly the NumPy value of that term; undefined => no claim;
         (b) `merge` of the *real* exported operand plans (+ the two new nodes) equals the real plan of the result
             (`Plan._new`) / of `arrays_to_plan(...)`; NamesAgree of the exports equals the harness' own verdict;
             `denote` on the real exported plan predicts right/wrong like (a).
oracle : values of every computed array versus NumPy (alone, combined as either operand, shared/disjoint ancestry,
         0..k arrays already created in the receiving process, same-process round trips, executors sampled).
         A wrong value / exception is classified from the real plans of the failing case: known finding
         `cross-process-name-clash` iff an array deserialized from another process is involved and the plans that were
         combined (or the two nodes added) contain equal names for different nodes; anything else is a violation.
"""
from __future__ import annotations

import itertools
import os
import shutil
import tempfile

import common
import pickleproc as pp

DRIVER = "C20"
RULE = ("histories of 1-3 fresh processes; per process 0-4 arrays created before receiving, 1-2 received arrays (some twice), "
        "1-6 combinations afterwards over {negative, abs, subtract, add, multiply} with received/local arrays as either "
        "operand, cloudpickle round trips in place, failed builds that only draw an array name, multi-array computes; "
        "computes with optimize_graph in {True, False} and executors {default, single-threaded, threads, processes(sampled)}; "
        "fresh processes: really spawned for a sample, emulated (counters reset, new CONTEXT_ID) for the rest; "
        "non-trivial = a compute of an array whose plan combines at least two plans; distinct by history text + register")
ASSUMPTIONS = [
    "values are abstract in the model (`Interp`): block functions are uninterpreted symbols; the harness evaluates the model's term with NumPy",
    "execution of a finalized plan is modelled demand-driven by storage location (`valArr`): faithful to the topological execution when every op's "
    "producer edge is present, which holds for plans built by Plan._new; where the plan does not determine the value (stale location) the model makes no claim",
    "`Denotes` is stated for the unoptimized plan; that fusion preserves values is property C02/C15's subject (the oracle here computes with and without optimization)",
    "emulated fresh process = module counters reset to 0 and CONTEXT_ID replaced inside the harness process; checked equal (names, plans, outcomes) to really spawned processes on the sampled histories",
]
TRUSTED = [
    "pickling itself (cloudpickle/pickle reconstruct `__dict__` by value) is trusted; the extractor checks that cubed defines no pickling hook and no other writer of a name counter",
    "networkx.compose_all semantics (node union by key, later attributes win, edge union) is modelled, and compared on every real merge",
]

KEY = "cross-process-name-clash"
CREATION = {"asarray", "from_array", "from_zarr"}      # func_name of creation ops (no pipeline) -> the model's "input"
WORKERS = 6


# ----------------------------------------------------------------------------------------------
# histories: generation and NumPy reference
# ----------------------------------------------------------------------------------------------

def blob_key(p, i):
    return "p%dr%d" % (p, i)


def gen_history(rng, style):
    """style: 'cross' (2-3 processes) | 'same' (1 process with round trips) | 'chain' (3 processes, each receives from the previous)"""
    nproc = 1 if style == "same" else (3 if style == "chain" else rng.choice([2, 2, 2, 3]))
    procs, shipped = [], []          # shipped: (key, proc, reg)
    for p in range(nproc):
        last = p == nproc - 1
        prog, regs = [], []           # regs: dict(alt, foreign, kind)
        nleaf = itertools.count()

        def leaf(alt=False):
            k = p * 100 + next(nleaf)
            prog.append(["leaf", k] + (["alt"] if alt else []))
            regs.append({"alt": alt, "foreign": False, "kind": "leaf"})

        def usable():
            return [i for i, r in enumerate(regs) if not r["alt"]]

        def apply(pool_a=None, pool_b=None):
            fn = rng.choice(["negative", "abs", "subtract", "subtract", "add", "multiply"])
            cand = usable()
            if not cand:
                return leaf()
            a = rng.choice(pool_a or cand)
            args = [a] if pp.FUNCS[fn] == 1 else [a, rng.choice(pool_b or cand)]
            if pp.FUNCS[fn] == 2 and rng.random() < 0.5:
                args.reverse()
            prog.append(["apply", fn, args])
            regs.append({"alt": False, "foreign": any(regs[i]["foreign"] for i in args), "kind": "apply"})

        # --- arrays created before anything is received: 0..4 (a process that ships needs at least one)
        k = rng.choice([0, 0, 1, 1, 2, 2, 3, 4]) if (p > 0 or style == "same") else rng.choice([1, 2, 2, 3, 4])
        if style == "same":
            k = max(k, 1)
        for n in range(k):
            if n == 0 or rng.random() < 0.4:
                leaf()
            else:
                apply()
        if k and rng.random() < 0.15:
            leaf(alt=True)
            prog.append(["bump", usable()[0], len(regs) - 1])
        # --- receive
        received = []
        if shipped and p > 0:
            src = [s for s in shipped if style != "chain" or s[1] == p - 1]
            for key, sp, sr in rng.sample(src, min(len(src), rng.choice([1, 1, 2]))):
                prog.append(["recv", key])
                regs.append({"alt": False, "foreign": True, "kind": "recv"})
                received.append(len(regs) - 1)
                if rng.random() < 0.15:       # the same blob a second time: two copies with shared ancestry
                    prog.append(["recv", key])
                    regs.append({"alt": False, "foreign": True, "kind": "recv"})
                    received.append(len(regs) - 1)
        # --- afterwards: combinations
        m = rng.randint(1, 6)
        for _ in range(m):
            r = rng.random()
            local = [i for i in usable() if not regs[i]["foreign"]]
            if r < 0.12 or not usable():
                leaf()
            elif r < 0.27 and usable():
                i = rng.choice(usable())
                prog.append(["roundtrip", i])
                regs.append(dict(regs[i], kind="roundtrip"))
            elif r < 0.65 and received and local:
                apply(pool_a=received, pool_b=local)          # received x local, either order
            elif r < 0.75 and received:
                apply(pool_a=received)                         # received with anything (incl. itself / another received)
            elif r < 0.80 and local and rng.random() < 0.5 and len(usable()) > 0:
                leaf(alt=True)
                prog.append(["bump", usable()[0], len(regs) - 1])
            else:
                apply()
        if style == "same" and not any(i[0] == "roundtrip" for i in prog):
            i = rng.choice(usable())
            prog.append(["roundtrip", i])
            regs.append(dict(regs[i], kind="roundtrip"))
            apply(pool_a=[len(regs) - 1])
        # --- ship
        if not last:
            cand = usable()
            for i in sorted(rng.sample(cand, min(len(cand), rng.choice([1, 2, 2])))):
                prog.append(["ship", i, blob_key(p, i)])
                shipped.append((blob_key(p, i), p, i))
        # --- computes: prefer combinations and received arrays
        cand = [i for i in usable() if regs[i]["kind"] in ("apply", "recv", "roundtrip")] or usable()
        rng.shuffle(cand)
        cand.sort(key=lambda i: 0 if (regs[i]["foreign"] and regs[i]["kind"] == "apply") else 1)
        for i in cand[:rng.choice([2, 3, 4])]:
            prog.append(["compute", [i], {"optimize": rng.random() < 0.5, "executor": rng.choice(["default", "default", "single-threaded", "threads"])}])
        if len(usable()) >= 2 and rng.random() < 0.5:
            i, j = rng.sample(usable(), 2)
            prog.append(["plan", [i, j]])
            prog.append(["compute", [i, j], {"optimize": rng.random() < 0.5, "executor": "default"}])
        procs.append({"program": prog})
    return {"style": style, "procs": procs}


def canonical_defect_history():
    """child: b = -asarray(..) (array-002 there); parent: d = -asarray(..) (array-002 too); b + d, d - b, -b in the parent."""
    child = [["leaf", 10], ["apply", "negative", [0]], ["ship", 1, blob_key(0, 1)], ["compute", [1], {"optimize": True, "executor": "default"}]]
    parent = [["leaf", 101], ["apply", "negative", [0]], ["recv", blob_key(0, 1)],
              ["compute", [2], {"optimize": True, "executor": "default"}],
              ["apply", "add", [2, 1]], ["apply", "subtract", [1, 2]],
              ["compute", [3], {"optimize": False, "executor": "default"}], ["compute", [3], {"optimize": True, "executor": "default"}],
              ["compute", [4], {"optimize": False, "executor": "default"}], ["plan", [2, 1]]]
    return {"style": "canonical", "procs": [{"program": child}, {"program": parent}]}


def unary_defect_history():
    """child ships b; a fresh parent computes -b: the two new nodes are array-001/op-001, names b's plan already uses."""
    child = [["leaf", 10], ["apply", "negative", [0]], ["ship", 1, blob_key(0, 1)]]
    parent = [["recv", blob_key(0, 1)], ["apply", "negative", [0]], ["compute", [0], {"optimize": True, "executor": "default"}],
              ["compute", [1], {"optimize": False, "executor": "default"}]]
    return {"style": "unary", "procs": [{"program": child}, {"program": parent}]}


def busy_parent_history(k):
    """the parent has already created k+2 arrays (and as many ops) when b arrives: with enough of them no name is shared."""
    child = [["leaf", 10], ["apply", "negative", [0]], ["ship", 1, blob_key(0, 1)]]
    parent = [["leaf", 100 + i] for i in range(k)] + [["leaf", 150], ["apply", "negative", [k]], ["recv", blob_key(0, 1)],
                                                       ["apply", "subtract", [k + 2, k + 1]], ["apply", "subtract", [k + 1, k + 2]],
                                                       ["compute", [k + 3], {"optimize": False, "executor": "default"}],
                                                       ["compute", [k + 4], {"optimize": True, "executor": "default"}]]
    return {"style": "busy%d" % k, "procs": [{"program": child}, {"program": parent}]}


def roundtrip_history(executor):
    prog = [["leaf", 1], ["leaf", 2], ["apply", "subtract", [0, 1]], ["roundtrip", 2], ["leaf", 3], ["apply", "negative", [4]],
            ["apply", "subtract", [3, 2]], ["apply", "add", [3, 0]], ["roundtrip", 7], ["apply", "multiply", [8, 5]],
            ["compute", [3], {"optimize": True, "executor": executor}], ["compute", [6], {"optimize": False, "executor": executor}],
            ["compute", [9], {"optimize": True, "executor": executor}], ["plan", [3, 2]], ["compute", [8, 7], {"optimize": True, "executor": "default"}]]
    return {"style": "roundtrip-" + executor, "procs": [{"program": prog}]}


NP_FUNCS = {"negative": lambda a: -a, "abs": abs, "subtract": lambda a, b: a - b, "add": lambda a, b: a + b,
            "multiply": lambda a, b: a * b, "input": None, "asarray": None}


def reference(hist):
    """Per process, per register: dict(val=list|None, term=str, foreign=bool, args, kind, alt) — pure Python, no cubed."""
    import numpy as np
    out, blobs = [], {}
    for p, proc in enumerate(hist["procs"]):
        regs = []
        for ins in proc["program"]:
            k = ins[0]
            if k == "leaf":
                regs.append({"val": np.array(pp.leaf_values(ins[1]), dtype="int64"), "term": "D%d" % ins[1], "foreign": False,
                             "kind": "leaf", "args": [], "alt": len(ins) > 2})
            elif k == "apply":
                a = [regs[i] for i in ins[2]]
                regs.append({"val": NP_FUNCS[ins[1]](*[x["val"] for x in a]), "term": "%s(%s)" % (ins[1], ",".join(x["term"] for x in a)),
                             "foreign": any(x["foreign"] for x in a), "kind": "apply", "args": list(ins[2]), "fn": ins[1], "alt": False})
            elif k == "roundtrip":
                regs.append(dict(regs[ins[1]], kind="roundtrip", args=[ins[1]]))
            elif k == "recv":
                src = blobs[ins[1]]
                regs.append(dict(src, kind="recv", args=[], foreign=True, alt=False))
            elif k == "ship":
                blobs[ins[2]] = dict(regs[ins[1]], src=(p, ins[1]))
        out.append(regs)
    return out


# ----------------------------------------------------------------------------------------------
# running histories
# ----------------------------------------------------------------------------------------------

class Runner:
    def __init__(self, ctx):
        self.ctx = ctx
        self.root = tempfile.mkdtemp(prefix="c20-")
        self.fresh = pp.FreshProcesses(WORKERS)

    def close(self):
        shutil.rmtree(self.root, ignore_errors=True)

    def _job(self, hist, p, blobs):
        return {"repo": common.REPO, "work_dir": self.root, "blobs": blobs, "program": hist["procs"][p]["program"]}

    def run_real(self, hists):
        """Every process of every history in a freshly spawned interpreter; the processes of one history one after the
        other (blobs flow forward), different histories concurrently."""
        def chain(hist):
            def go(run_one):
                outs, blobs = [], {}
                for p in range(len(hist["procs"])):
                    r = run_one(self._job(hist, p, blobs))
                    if "fatal" in r:
                        raise RuntimeError("child process failed: %s\n%s" % (r["fatal"], r.get("trace", "")))
                    blobs.update(r.pop("blobs", {}))
                    outs.append(r)
                return outs
            return go
        return self.fresh.map_chains([chain(h) for h in hists])

    def run_emulated(self, hist):
        outs, blobs = [], {}
        for p in range(len(hist["procs"])):
            r = pp.run_emulated(self._job(hist, p, blobs))
            blobs.update(r.pop("blobs", {}))
            outs.append(r)
        return outs


# ----------------------------------------------------------------------------------------------
# canonical form of the real exports
# ----------------------------------------------------------------------------------------------

class Canon:
    """Location ids of one history: context directory of process p -> Z<p>/<path>; virtual array data -> D<leaf id>."""

    def __init__(self, hist, outs):
        self.ctx = {o["context"]: p for p, o in enumerate(outs)}
        self.data = {}
        for proc in hist["procs"]:
            for ins in proc["program"]:
                if ins[0] == "leaf":
                    self.data[",".join(map(str, pp.leaf_values(ins[1])))] = ins[1]
        self.extra = {}

    def loc(self, s):
        kind, _, rest = s.partition("|")
        if kind == "Z":
            store, _, path = rest.rpartition("|")
            base = os.path.basename(store.rstrip("/"))
            if base in self.ctx:
                return "Z%d/%s" % (self.ctx[base], path)
        if kind == "V" and rest in self.data:
            return "D%d" % self.data[rest]
        if s not in self.extra:
            self.extra[s] = 900000 + len(self.extra)
        return "D%d" % self.extra[s]

    def dag(self, d):
        """-> dict name -> node tuple:  ('A', loc, preds tuple) | ('O', fn, prim, srcs tuple, reads tuple, writes tuple)"""
        out = {}
        for n in d["nodes"]:
            if n[0] == "A":
                out[n[1]] = ("A", self.loc(n[2]), tuple(n[3]))
            elif n[0] == "O":
                fn = "input" if (not n[3] or n[2] in CREATION) else n[2]
                out[n[1]] = ("O", fn, int(n[3]), tuple(n[4]), tuple(sorted((k, self.loc(v)) for k, v in n[5])),
                             tuple(sorted((k, self.loc(v)) for k, v in n[6])))
            else:
                out[n[1]] = ("?",) + tuple(map(str, n[2:]))
        return out

    def edges(self, d):
        return sorted((u, v, k) for u, v, k in d["edges"])


def producer(nodes, name):
    """The model keeps one producer per array node; the real graph may have several in-edges after a clash (edge union).
    Canonical choice: the predecessor op that writes this array's location, else the first predecessor, else none."""
    nd = nodes[name]
    preds = list(nd[2])
    for q in preds:
        qn = nodes.get(q)
        if qn and qn[0] == "O" and (name, nd[1]) in qn[5]:
            return q
    return preds[0] if preds else None


def normalized(nodes):
    return {n: (("A", nd[1], producer(nodes, n)) if nd[0] == "A" else nd) for n, nd in nodes.items()}


def dag_text(nodes):
    """canonical node dict -> driver text"""
    items = []
    for name in sorted(nodes):
        nd = nodes[name]
        if nd[0] == "A":
            items.append("A,%s,%s,%s" % (name, nd[1], producer(nodes, name) or "-"))
        elif nd[0] == "O":
            items.append("O,%s,%s,%d,%s,%s,%s" % (name, nd[1], nd[2], "+".join(nd[3]) or "-",
                                                   "+".join("%s=%s" % kv for kv in nd[4]) or "-",
                                                   "+".join("%s=%s" % kv for kv in nd[5]) or "-"))
    return ";".join(items) or "-"


def parse_model_nodes(s):
    """driver canonical plan text -> dict name -> ('A', loc, producer|None) | ('O', fn, prim, srcs, reads, writes)"""
    out = {}
    if s in ("-", ""):
        return out
    for e in s.split(";"):
        f = e.split(",")
        if f[0] == "A":
            out[f[1]] = ("A", f[2], None if f[3] == "-" else f[3])
        else:
            def pairs(t):
                return tuple(sorted(tuple(kv.split("=")) for kv in t.split("+"))) if t != "-" else ()
            out[f[1]] = ("O", f[2], int(f[3]), tuple(f[4].split("+")) if f[4] != "-" else (), pairs(f[5]), pairs(f[6]))
    return out


def nodes_match(model, real):
    """model nodes (parse_model_nodes) vs real canonical nodes: same names, same attributes; the model's producer must be
    one of the real in-edges (the real graph keeps the union of edges after a clash)."""
    if set(model) != set(real):
        return "node names differ: model-only %s impl-only %s" % (sorted(set(model) - set(real))[:4], sorted(set(real) - set(model))[:4])
    for n, m in model.items():
        r = real[n]
        if m[0] != r[0]:
            return "%s: kind %s vs %s" % (n, m[0], r[0])
        if m[0] == "A":
            if m[1] != r[1]:
                return "%s: location %s vs %s" % (n, m[1], r[1])
            if (m[2] is None and r[2]) or (m[2] is not None and m[2] not in r[2]):
                return "%s: producer %s vs in-edges %s" % (n, m[2], r[2])
        elif m[1:] != r[1:]:
            return "%s: op %s vs %s" % (n, m[1:], r[1:])
    return None


def py_names_agree(dags):
    """The classifier's own test on real canonical plans: equal name => equal node (attributes and producer)."""
    seen = {}
    clashes = []
    for d in dags:
        for n, nd in normalized(d).items():
            if n in seen and seen[n] != nd:
                clashes.append(n)
            seen.setdefault(n, nd)
    return (not clashes), sorted(set(clashes))


def eval_term(t):
    """NumPy value of a model term, or None when it mentions a location that is not leaf data."""
    import numpy as np
    pos = [0]

    def parse():
        i = pos[0]
        j = i
        while j < len(t) and t[j] not in "(),":
            j += 1
        head = t[i:j]
        pos[0] = j
        if j < len(t) and t[j] == "(":
            pos[0] += 1
            args = []
            while t[pos[0]] != ")":
                args.append(parse())
                if t[pos[0]] == ",":
                    pos[0] += 1
            pos[0] += 1
            if any(a is None for a in args) or NP_FUNCS.get(head) is None:
                return None
            return NP_FUNCS[head](*args)
        if head.startswith("D") and head[1:].isdigit() and int(head[1:]) < 900000:
            return np.array(pp.leaf_values(int(head[1:])), dtype="int64")
        return None
    try:
        return parse()
    except Exception:
        return None


# ----------------------------------------------------------------------------------------------
# checking one executed history
# ----------------------------------------------------------------------------------------------

def history_text(hist):
    procs = []
    for p, proc in enumerate(hist["procs"]):
        ins_txt = []
        for ins in proc["program"]:
            k = ins[0]
            if k == "leaf":
                ins_txt.append("L%d" % ins[1])
            elif k == "apply":
                ins_txt.append("A:%s:%s" % (ins[1], ",".join(map(str, ins[2]))))
            elif k == "roundtrip":
                ins_txt.append("R:%d" % ins[1])
            elif k == "bump":
                ins_txt.append("B")
            elif k == "recv":
                sp, sr = ins[1][1:].split("r")
                ins_txt.append("V:%s:%s" % (sp, sr))
        procs.append("%d#%s" % (p, ";".join(ins_txt)))
    return "history|" + "@@".join(procs)


class Checked:
    """Everything derived from one executed history that corr and oracle need."""

    def __init__(self, hist, outs, mode):
        self.hist, self.outs, self.mode = hist, outs, mode
        self.canon = Canon(hist, outs)
        self.ref = reference(hist)
        self.regs = []     # per proc: list of dict(name, loc, nodes, edges, error)
        for p, o in enumerate(outs):
            rr = []
            for r in o["regs"]:
                if "error" in r:
                    rr.append({"error": r["error"], "counters": r["counters"]})
                else:
                    rr.append({"name": r["name"], "loc": self.canon.loc(r["loc"]), "nodes": self.canon.dag(r["dag"]),
                               "edges": self.canon.edges(r["dag"]), "counters": r["counters"]})
            self.regs.append(rr)

    def counters_before(self, p, i):
        o = self.outs[p]
        pos = o["regs"][i]["pos"]
        marks = [(r["pos"], r["counters"]) for r in o["regs"]] + \
                [(e["pos"], e["counters"]) for e in o["events"] if e.get("kind") == "bump" and "counters" in e]
        before = [m for m in marks if m[0] < pos]
        return max(before)[1] if before else o["start_counters"]

    def new_nodes(self, p, i):
        """The two nodes Plan._new added for register i of process p (from the real result plan), or predicted names."""
        r = self.regs[p][i]
        c = self.counters_before(p, i)
        aname, oname = "array-%03d" % (c[0] + 1), "op-%03d" % (c[1] + 1)
        if "error" in r:
            return {aname: ("A", "?", ()), oname: ("O", "?", 1, (), (), ())}
        out = {}
        for n in (r["name"], oname):
            if n in r["nodes"]:
                nd = r["nodes"][n]
                if nd[0] == "A":
                    nd = ("A", nd[1], (oname,))     # the in-edge Plan._new adds
                out[n] = nd
        return out

    def step_dags(self, p, i):
        """Plans that were combined to build register i of process p: operand plans + the two new nodes."""
        meta = self.ref[p][i]
        ds = []
        for a in meta["args"]:
            ra = self.regs[p][a]
            if "error" not in ra:
                ds.append(ra["nodes"])
        return ds + [self.new_nodes(p, i)]

    def clash_for(self, p, i, seen=None):
        """Was register i of process p (transitively, following received arrays back to the process that built them) built by a
        combination step that involved an array deserialized from another process and whose plans (operands + the two new
        nodes) carry an equal name for different nodes?  Decided from the real exported plans only."""
        seen = seen if seen is not None else set()
        if (p, i) in seen:
            return None
        seen.add((p, i))
        meta = self.ref[p][i]
        if meta["kind"] == "apply":
            ok, names = py_names_agree(self.step_dags(p, i))
            if not ok and meta["foreign"]:
                return {"process": p, "step": i, "names": names[:6]}
        if meta["kind"] in ("apply", "roundtrip"):
            for a in meta["args"]:
                c = self.clash_for(p, a, seen)
                if c:
                    return c
        if meta["kind"] == "recv" and "src" in meta:
            return self.clash_for(meta["src"][0], meta["src"][1], seen)
        return None

    def local_disagreement(self, p, i):
        """A step without any foreign operand whose plans disagree on names: must never happen."""
        meta = self.ref[p][i]
        if meta["kind"] == "apply" and not meta["foreign"]:
            ok, names = py_names_agree(self.step_dags(p, i))
            if not ok:
                return names
        return None


def describe(hist, p=None, extra=None):
    d = {"style": hist["style"], "programs": [pr["program"] for pr in hist["procs"]],
         "replay": "/venv/bin/python harness/pickleproc.py '<job json>' runs one program in a fresh process; leaf k holds pickleproc.leaf_values(k)"}
    if p is not None:
        d["process"] = p
    if extra:
        d.update(extra)
    return d


def oracle_history(ctx, ck):
    """Direct check of the property on the real outcomes, independent of the Lean model."""
    import numpy as np
    hist = ck.hist
    for p, o in enumerate(ck.outs):
        # builds that raised
        for i, r in enumerate(ck.regs[p]):
            meta = ck.ref[p][i]
            if "error" in r:
                clash = ck.clash_for(p, i) if meta["foreign"] else None
                ctx.fail("building %s raised %s" % (meta["term"], r["error"]), describe(hist, p, {"register": i, "clash": clash, "mode": ck.mode}),
                         key=KEY if clash else None)
            else:
                bad = ck.local_disagreement(p, i)
                if bad:
                    ctx.fail("plans built inside one process disagree on names %s" % bad, describe(hist, p, {"register": i, "mode": ck.mode}))
        for e in o["events"]:
            if e.get("kind") == "bump" and "error" in e:
                ctx.notes.append("bump instruction did not behave as expected: %s" % e["error"])
            if e.get("kind") != "compute":
                continue
            regs = e["regs"]
            metas = [ck.ref[p][i] for i in regs]
            nontrivial = any(m["kind"] == "apply" and len(m["args"]) >= 1 for m in metas)
            kind = "%s:%s:%s%s" % (ck.mode, "foreign" if any(m["foreign"] for m in metas) else "local",
                                   "opt" if e["opts"].get("optimize", True) else "noopt", ":multi" if len(regs) > 1 else "")
            ctx.count({"history": history_text(hist), "proc": p, "regs": regs, "opts": e["opts"], "mode": ck.mode}, nontrivial=nontrivial, kind=kind)
            ctx.dist["executor:" + str(e["opts"].get("executor", "default"))] += 1
            wrong = None
            if "error" in e:
                wrong = "raised %s" % e["error"]
            else:
                for i, m, v in zip(regs, metas, e["values"]):
                    if not np.array_equal(np.array(v), m["val"]):
                        wrong = "register %d (%s) computed %s, NumPy gives %s" % (i, m["term"], v, m["val"].tolist())
                        break
            if wrong is None:
                continue
            # classification from the real plans of the failing case
            clash = None
            foreign = any(m["foreign"] for m in metas)
            if foreign:
                for i in regs:
                    clash = clash or ck.clash_for(p, i)
                if clash is None and len(regs) > 1:
                    ok, names = py_names_agree([ck.regs[p][i]["nodes"] for i in regs if "error" not in ck.regs[p][i]])
                    if not ok:
                        clash = {"step": "compute-together", "names": names[:6]}
            ctx.fail(wrong, describe(hist, p, {"compute": regs, "opts": e["opts"], "clash": clash, "mode": ck.mode,
                                               "names": [ck.regs[p][i].get("name") for i in regs]}),
                     key=KEY if (foreign and clash) else None)


def corr_history(ctx, ck, reqs):
    """Queue the model requests for one executed history; returns a closure that compares the answers."""
    import numpy as np
    hist = ck.hist
    start = len(reqs)
    reqs.append(history_text(hist))
    merges = []      # (request index, description, real nodes, real edges, py agree)
    denotes = []     # (request index, p, i)
    for p, o in enumerate(ck.outs):
        for i, r in enumerate(ck.regs[p]):
            meta = ck.ref[p][i]
            if "error" in r:
                continue
            if meta["kind"] == "apply":
                dags = ck.step_dags(p, i)
                merges.append((len(reqs), {"proc": p, "register": i}, r["nodes"], r["edges"], py_names_agree(dags)[0],
                               ck.clash_for(p, i) is None))
                reqs.append("merge|" + "@@".join(dag_text(d) for d in dags))
            denotes.append((len(reqs), p, i))
            reqs.append("denote|%s|%s|%s" % (dag_text(r["nodes"]), r["name"], r["loc"]))
        for e in o["events"]:
            if e.get("kind") == "plan" and "dag" in e and all("error" not in ck.regs[p][i] for i in e["regs"]):
                dags = [ck.regs[p][i]["nodes"] for i in e["regs"]]
                merges.append((len(reqs), {"proc": p, "arrays_to_plan": e["regs"]}, ck.canon.dag(e["dag"]), ck.canon.edges(e["dag"]),
                               py_names_agree(dags)[0], all(ck.clash_for(p, i) is None for i in e["regs"])))
                reqs.append("merge|" + "@@".join(dag_text(d) for d in dags))

    def outcomes(p, i):
        """real computes of register i alone in process p: list of (optimize, value list | None if raised)"""
        res = []
        for e in ck.outs[p]["events"]:
            if e.get("kind") == "compute" and e["regs"] == [i]:
                res.append((bool(e["opts"].get("optimize", True)), e["values"][0] if "values" in e else None))
        return res

    def predict(p, i, term, where):
        """compare the model's denotation of register i with the real computes of it"""
        meta = ck.ref[p][i]
        for opt, val in outcomes(p, i):
            right = val is not None and np.array_equal(np.array(val), meta["val"])
            case = {"history": history_text(hist), "proc": p, "register": i, "optimize": opt, "mode": ck.mode, "via": where}
            if term == meta["term"]:
                if not right:
                    ctx.disagree("denotation equal to the reference term => the real compute is right", case, term, "wrong" if val is not None else "raised")
            elif term != "undef" and not opt:
                pv = eval_term(term)
                if pv is not None and (val is None or not np.array_equal(np.array(val), pv)):
                    ctx.disagree("a defined denotation is the value the real unoptimized compute returns", case,
                                 "%s = %s" % (term, pv.tolist()), val)
            ctx.traces += 1

    def compare(ans):
        # (a) the model's own run of the history
        procs = ans[start].split("@@") if ans[start] else []
        for p, o in enumerate(ck.outs):
            mregs = [m for m in (procs[p].split("@") if p < len(procs) and procs[p] else [])]
            if len(mregs) != len(ck.regs[p]):
                ctx.disagree("Names.run creates one register per real register", {"history": history_text(hist), "proc": p, "mode": ck.mode},
                             len(mregs), len(ck.regs[p]))
                continue
            for i, (ms, r) in enumerate(zip(mregs, ck.regs[p])):
                name, loc, agree, term, refterm, dagtxt = ms.split("~")
                meta = ck.ref[p][i]
                case = {"history": history_text(hist), "proc": p, "register": i, "mode": ck.mode}
                ctx.count(dict(case, rel="run"), nontrivial=meta["kind"] == "apply", kind="corr:run")
                if refterm != meta["term"]:
                    ctx.disagree("reference term of the model = reference term of the harness", case, refterm, meta["term"])
                if "error" in r:
                    # the real build raised; the model has no exceptions: it must at least not claim a right value
                    if term == meta["term"] and agree != "0":
                        ctx.disagree("a build that raises is not predicted right", case, term, r["error"])
                    continue
                if (name, loc) != (r["name"], r["loc"]):
                    ctx.disagree("gensym / target location: Proc.leaf, Proc.apply, unpickle", case, (name, loc), (r["name"], r["loc"]))
                    continue
                why = nodes_match(parse_model_nodes(dagtxt), r["nodes"])
                if why:
                    ctx.disagree("plan of the built array: Names.run = Plan._new / nx.compose_all", case, why, "see replay")
                if meta["kind"] == "apply":
                    pyagree = py_names_agree(ck.step_dags(p, i))[0]
                    if (agree == "1") != pyagree:
                        ctx.disagree("NamesAgree of the combination step (model run vs real plans)", case, agree, pyagree)
                predict(p, i, term, "model run")
        # (b) merge / denote on the real exported plans
        for idx, what, rnodes, redges, pyagree, clean in merges:
            a = ans[idx]
            case = dict(what, history=history_text(hist), mode=ck.mode)
            ctx.count(dict(case, rel="merge"), nontrivial=True, kind="corr:merge" + ("" if pyagree else ":clash"))
            try:
                agree = a.split(" ")[0].split("=")[1]
                nodes = a.split(" nodes=")[1].split(" edges=")[0]
                edges = a.split(" edges=")[1]
            except IndexError:
                ctx.disagree("merge answer malformed", case, a, None)
                continue
            if (agree == "1") != pyagree:
                ctx.disagree("namesAgreeB on the real plans = the classifier's verdict", case, agree, pyagree)
            why = nodes_match(parse_model_nodes(nodes), rnodes)
            if why:
                ctx.disagree("merge (later wins) = nx.compose_all + add_node on the real plans", case, why, "see replay")
            medges = set() if edges == "-" else {tuple(x.split(">")) for x in edges.split(";")}
            real_e = {(u, v, str(k)) for u, v, k in redges}
            # the real graph keeps the union of the edges of clashing nodes: subset in general, equality when neither this
            # step nor an earlier one in the operands' history had a clash
            exact = pyagree and clean
            if not medges <= real_e or (exact and medges != real_e):
                ctx.disagree("edges derived from the merged nodes vs edges of the real graph (subset; equal when no clash)", case,
                             {"model_only": sorted(medges - real_e)[:4], "impl_only": sorted(real_e - medges)[:4] if exact else []}, "real edge set")
        for idx, p, i in denotes:
            a = ans[idx]
            term = a[4:] if a.startswith("val ") else "undef"
            ctx.count({"history": history_text(hist), "proc": p, "register": i, "rel": "denote", "mode": ck.mode},
                      nontrivial=ck.ref[p][i]["kind"] == "apply", kind="corr:denote")
            predict(p, i, term, "denote on the real plan")
            # an array of a purely local history must denote its reference term
            if not ck.ref[p][i]["foreign"] and term != ck.ref[p][i]["term"]:
                ctx.disagree("single process: the real plan denotes the reference term", {"history": history_text(hist), "proc": p, "register": i}, term, ck.ref[p][i]["term"])
    return compare


def emulation_check(ctx, hist, real, emu):
    """The emulated fresh process behaves like the really spawned one on the same history."""
    a, b = Checked(hist, real, "spawn"), Checked(hist, emu, "emulated")
    for p in range(len(real)):
        ra = [(r.get("name"), r.get("loc"), r.get("nodes"), r.get("error", "").split(":")[0]) for r in a.regs[p]]
        rb = [(r.get("name"), r.get("loc"), r.get("nodes"), r.get("error", "").split(":")[0]) for r in b.regs[p]]
        ea = [(e.get("kind"), e.get("values"), e.get("error", "").split(":")[0], a.canon.dag(e["dag"]) if "dag" in e else None) for e in real[p]["events"]]
        eb = [(e.get("kind"), e.get("values"), e.get("error", "").split(":")[0], b.canon.dag(e["dag"]) if "dag" in e else None) for e in emu[p]["events"]]
        if ra != rb or ea != eb:
            ctx.disagree("emulated fresh process = spawned fresh process", {"history": history_text(hist), "proc": p},
                         "emulated differs", "see registers/events of process %d" % p)
        ctx.traces += 1


# ----------------------------------------------------------------------------------------------
# entry points
# ----------------------------------------------------------------------------------------------

def fixed_histories():
    return [canonical_defect_history(), unary_defect_history(), busy_parent_history(0), busy_parent_history(1), busy_parent_history(3)]


def sample(ctx, n_real, n_emu, n_proc_exec):
    rng = ctx.rng
    styles = ["cross"] * 6 + ["same"] * 2 + ["chain"]
    real = fixed_histories()[:2] + [gen_history(rng, rng.choice(styles)) for _ in range(n_real)]
    emu = fixed_histories()[2:] + [gen_history(rng, rng.choice(styles)) for _ in range(n_emu)]
    emu += [roundtrip_history("threads"), roundtrip_history("single-threaded")]
    emu += [roundtrip_history("processes") for _ in range(n_proc_exec)]
    return real, emu


def execute(ctx, n_real, n_emu, n_proc_exec):
    """Run the sample once; cache on ctx so that corr and oracle look at the same executions."""
    if getattr(ctx, "_c20", None) is not None:
        return ctx._c20
    common.use_repo()
    runner = Runner(ctx)
    checked = []
    try:
        real, emu = sample(ctx, n_real, n_emu, n_proc_exec)
        t0 = ctx.elapsed()
        outs = runner.run_real(real)
        t1 = ctx.elapsed()
        for h, o in zip(real, outs):
            checked.append(Checked(h, o, "spawn"))
        ctx._c20_emucheck = []
        for h, o in list(zip(real, outs))[: max(3, len(real) // 2)]:
            ctx._c20_emucheck.append((h, o, runner.run_emulated(h)))
        t2 = ctx.elapsed()
        for h in emu:
            checked.append(Checked(h, runner.run_emulated(h), "emulated"))
        ctx.notes.append("wall: spawned histories %.0fs, emulation cross-check %.0fs, emulated histories %.0fs" % (t1 - t0, t2 - t1, ctx.elapsed() - t2))
    finally:
        runner.close()
    ctx._c20 = checked
    return checked


def budgets(ctx):
    return ctx.budget(3, 10), ctx.budget(22, 150), ctx.budget(1, 3)


def corr(ctx):
    checked = execute(ctx, *budgets(ctx))
    reqs, cmps = [], []
    for ck in checked:
        cmps.append(corr_history(ctx, ck, reqs))
    ans = ctx.lean.drive(DRIVER, reqs)
    for c in cmps:
        c(ans)
    for h, real, emu in ctx._c20_emucheck:
        emulation_check(ctx, h, real, emu)


def oracle(ctx):
    checked = execute(ctx, *budgets(ctx))
    for ck in checked:
        oracle_history(ctx, ck)
    ctx.notes.append("histories: %d spawned (%d processes), %d emulated" % (
        sum(1 for c in checked if c.mode == "spawn"), sum(len(c.outs) for c in checked if c.mode == "spawn"),
        sum(1 for c in checked if c.mode == "emulated")))


def search(ctx):
    """Deeper, independent of the model: more emulated histories under another seed, plus every fixed history for real."""
    ctx.rng.seed(ctx.seed + 7919)
    ctx._c20 = None
    t0 = ctx.elapsed()
    runner = Runner(ctx)
    try:
        hs = fixed_histories()
        for h, o in zip(hs, runner.run_real(hs)):
            oracle_history(ctx, Checked(h, o, "spawn"))
        n = 0
        while ctx.elapsed() - t0 < ctx.budget(60, 300) and n < 600:
            h = gen_history(ctx.rng, ctx.rng.choice(["cross"] * 5 + ["same"] * 3 + ["chain"]))
            oracle_history(ctx, Checked(h, runner.run_emulated(h), "emulated"))
            n += 1
    finally:
        runner.close()


def replay(ctx, body):
    """./check C20 --replay replays/C20-<seed>-failing-input.json : run the recorded history again in freshly spawned
    processes and print every compute next to the NumPy reference."""
    import numpy as np
    common.use_repo()
    case = body.get("case", {})
    if "programs" not in case:
        print("the replay file holds no history (broken obligation only); see 'no_longer_checks' in the file")
        return
    hist = {"style": case.get("style", "replay"), "procs": [{"program": prog} for prog in case["programs"]]}
    runner = Runner(ctx)
    try:
        outs = runner.run_real([hist])[0]
    finally:
        runner.close()
    ck = Checked(hist, outs, "spawn")
    for p, o in enumerate(outs):
        print("process %d: registers %s" % (p, [r.get("name", r.get("error")) for r in ck.regs[p]]))
        for e in o["events"]:
            if e.get("kind") == "compute":
                want = [ck.ref[p][i]["val"].tolist() for i in e["regs"]]
                got = e.get("values", e.get("error"))
                print("  compute %s %s -> %s   NumPy: %s   %s" % (e["regs"], e["opts"], got, want, "ok" if got == want else "WRONG"))
    oracle_history(ctx, ck)
