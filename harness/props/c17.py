"""C17 — unsupported requests are refused up front; accepted plans do not fail mid-run.

corr   : (a) Lean `validate` outcome (ok / error kind / assert / malformed) vs the outcome of really building the op, for
             generated parameter tuples per op family including deliberately invalid ones;
         (b) Lean key-function models (partial_reduce groups, repeat, concat/_array_slices, region store, scan increment,
             stack) vs the real `back_key_function` of the op found in the plan, on every block of the output grid.
oracle : independent of Lean.  For exprgen programs (NumPy evaluates them by construction) and for family-specific
         edge / invalid parameter streams (filtered by a NumPy shadow where NumPy has a counterpart): build -> plan
         (`cubed.plan`, `FinalizedPlan.validate`) -> execute under {single-threaded, threads} x {optimize_graph on/off,
         simple_optimize_dag, fuse_all_optimize_dag}; record (phase, exception type).  Allowed: success, or
         ValueError/TypeError/NotImplementedError/IndexError during build or plan.  Everything else is a failure; failing
         programs are shrunk (exprgen.shrink) and classified on the shrunk case by `classify` (one classifier per listed
         defect: call site of the failing task + triggering condition).  Triggers of defects that were repaired by `fix:`
         commits are fixed regression cases (`oracle_regressions`): they must be refused at build, or complete with the
         right content.
"""
from __future__ import annotations

import functools
import itertools
import math
import os
import traceback
import warnings

DRIVER = "C17"
RULE = ("validate correspondence: per op family (axis, merge_chunks, squeeze, repeat, concat, stack, region store, qr, "
        "reduction, broadcast_to, roll, permute_dims, map_blocks, index, scan) parameter tuples with rank 1-3, dims 1-9, "
        "chunk 1..dim, about half deliberately invalid (axis out of range, mismatched shapes / chunk sizes, non-dividing "
        "merge, misaligned / stepped / mis-sized regions and stores of another shape, negative / zero / non-int repeats, bad drop_axis, unsupported index kinds); "
        "key correspondence: every out block of partial_reduce / repeat / concat / region store / scan / stack instances; "
        "oracle: exprgen programs (all families, depth<=4, <=3 inputs) under 2 executors x 4 optimizer settings plus "
        "family-specific edge streams; non-trivial = more than one block or an invalid parameter; distinct by case text")
ASSUMPTIONS = [
    "floats of rechunker.consolidate_chunks (headroom = max_mem / chunk_mem) are read as exact rationals in C17_headroom_ge_one (differs only for chunk memories beyond 2^52 bytes)",
    "bisect.bisect on the sorted offsets list = index of the first element greater than the probe (model `bisect`)",
    "zarr OrthogonalIndexer visits, for a unit-step slice [a,b), the chunks a//c .. (b-1)//c (model `sliceBlocks`) — checked on every concat / region case",
    "classification entries `internalInvariant` / `apiPrecondition` / `searchBound` of the assert table are argued, not proved (texts in Model/Validate.lean:classification)",
]
TRUSTED = ["modelled not verified: NumPy/ndindex argument checking (index canonicalisation, validate_axis) is mirrored by the model and tied by correspondence only",
           "exprgen (harness/exprgen.py) for the space of NumPy-valid expressions"]

ALLOWED = ("ValueError", "TypeError", "NotImplementedError", "IndexError")


# ----------------------------------------------------------------------------------------------
# common helpers
# ----------------------------------------------------------------------------------------------

def canon(e):
    if isinstance(e, AssertionError):
        return "assert"
    for name, cls in (("NotImplementedError", NotImplementedError), ("TypeError", TypeError),
                      ("IndexError", IndexError), ("ValueError", ValueError)):
        if isinstance(e, cls):
            return "err " + name
    return "other " + type(e).__name__


def kind_of(e):
    c = canon(e)
    return c.split(" ", 1)[1] if c.startswith("err ") else None


def outcome(thunk):
    try:
        with warnings.catch_warnings():
            warnings.simplefilter("ignore")
            r = thunk()
        return "ok", r
    except Exception as e:  # noqa: BLE001
        return canon(e), e


def ls(l):
    l = list(l)
    return ",".join(str(int(x)) for x in l) if l else "-"


def lls(ll):
    ll = list(ll)
    return ";".join(ls(l) for l in ll) if ll else "-"


def none_or(v, f=str):
    return "n" if v is None else f(v)


_SPEC = None


def spec():
    global _SPEC
    if _SPEC is None:
        import cubed
        _SPEC = cubed.Spec(allowed_mem="500MB", reserved_mem=0)
    return _SPEC


def arr(shape, chunks, dtype="int64"):
    import numpy as np

    import cubed.array_api as xp
    n = int(np.prod(shape)) if len(shape) else 1
    return xp.asarray(np.arange(n, dtype=dtype).reshape(tuple(shape)), chunks=tuple(chunks), spec=spec())


def rand_geom(rng, ndim=None, lo=1, hi=9):
    ndim = rng.randint(1, 3) if ndim is None else ndim
    shape = [rng.randint(lo, hi) for _ in range(ndim)]
    chunks = [rng.randint(1, max(1, s)) for s in shape]
    return shape, chunks


def nblocks(n, c):
    return 1 if n == 0 else -(-n // c)


def op_of(a):
    """primitive op that produces array `a` (from its own plan)."""
    dag = a._plan.dag
    op = next(iter(dag.predecessors(a.name)))
    return dag.nodes[op]["primitive_op"]


def key_fn(a):
    return op_of(a).pipeline.config.back_key_function


def flat_keys(fa):
    """[(name, coords)] of a FunctionArgs with single keys / lists / iterators."""
    from collections.abc import Iterator

    from cubed.primitive.blockwise import ChunkKey
    out = []

    def walk(x):
        if isinstance(x, ChunkKey):
            out.append((x.name, tuple(int(c) for c in x.coords)))
        elif isinstance(x, (list, tuple, Iterator)):
            for y in x:
                walk(y)
        else:
            raise TypeError("not a key: %r" % (x,))
    for a_ in fa.args:
        walk(a_)
    return out


# ----------------------------------------------------------------------------------------------
# correspondence (a): validate
# ----------------------------------------------------------------------------------------------

def g_axis(rng):
    nd = rng.randint(0, 4)
    ax = rng.randint(-6, 6)

    def thunk():
        from cubed.vendor.dask.array.utils import validate_axis
        return "ok %d" % validate_axis(ax, nd)
    return "axis|%d|%d" % (nd, ax), thunk, {"ndim": nd, "axis": ax}, True


def g_merge(rng):
    shape, chunks = rand_geom(rng)
    r = rng.random()
    if r < 0.5:
        target = [c * rng.randint(1, 3) for c in chunks]
    elif r < 0.8:
        target = [max(1, c * rng.randint(1, 3) + rng.choice([0, 0, 1, -1])) for c in chunks]
    else:
        target = [c for c in chunks] + [2] if rng.random() < 0.5 else chunks[:-1]

    def thunk():
        from cubed.core.ops import merge_chunks
        x = arr(shape, chunks)
        return merge_chunks(x, tuple(target))
    return "merge|%s|%s" % (ls(chunks), ls(target)), thunk, {"shape": shape, "chunks": chunks, "target": target}, True


def g_squeeze(rng):
    nd = rng.randint(1, 4)
    shape = [rng.choice([1, 1, 2, 3]) for _ in range(nd)]
    chunks = [rng.randint(1, d) for d in shape]
    k = rng.randint(1, 2)
    axes = rng.sample(range(-nd - 1, nd + 1), k)
    # NumPy rejects repeated axes: keep them distinct modulo ndim
    if len({a % nd for a in axes if -nd <= a < nd}) < len([a for a in axes if -nd <= a < nd]):
        axes = axes[:1]
    axis = axes[0] if len(axes) == 1 and rng.random() < 0.5 else tuple(axes)

    def thunk():
        import cubed.array_api as xp
        return xp.squeeze(arr(shape, chunks), axis=axis)
    thunk.np = lambda: __import__("numpy").squeeze(__import__("numpy").zeros(shape), axis=axis)
    return "squeeze|%s|%s" % (ls(shape), ls(axes)), thunk, {"shape": shape, "axis": list(axes)}, True


def g_repeat(rng):
    shape, chunks = rand_geom(rng, hi=6)
    nd = len(shape)
    r = rng.random()
    if r < 0.7:
        reps, rs = rng.choice([-1, 0, 1, 2, 2, 3]), None
    elif r < 0.85:
        reps, rs = 2.0, "other"
    else:
        import numpy as np
        reps, rs = np.int64(2), "other"
    rs = rs or "int:%d" % reps
    ax = rng.randint(-nd - 1, nd)

    def thunk():
        import cubed.array_api as xp
        return xp.repeat(arr(shape, chunks), reps, axis=ax)
    return "repeat|%s|%s|%d" % (ls(shape), rs, ax), thunk, {"shape": shape, "chunks": chunks, "repeats": str(reps), "axis": ax}, True


def _arrays_like(rng, n, nd, axis_for_concat=None):
    base, _ = rand_geom(rng, nd, hi=7)
    shapes, chunkss = [], []
    cs_axis = rng.randint(1, 4)
    for _ in range(n):
        s = list(base)
        if axis_for_concat is not None:
            s[axis_for_concat] = rng.randint(1, 7)
        c = [rng.randint(1, max(1, d)) for d in s]
        if axis_for_concat is not None and rng.random() < 0.75:
            c[axis_for_concat] = min(cs_axis, max(1, s[axis_for_concat])) if rng.random() < 0.5 else cs_axis
        shapes.append(s)
        chunkss.append(c)
    return shapes, chunkss


def g_concat(rng):
    n = rng.choice([0, 1, 2, 2, 3])
    nd = rng.randint(1, 2)
    axis = rng.randint(0, nd - 1)
    shapes, chunkss = _arrays_like(rng, n, nd, axis)
    r = rng.random()
    if n >= 2 and r < 0.25:
        j = rng.randrange(n)
        k = rng.randrange(nd)
        shapes[j][k] += 1                       # mismatch (harmless when k == axis)
        chunkss[j][k] = min(chunkss[j][k], shapes[j][k])
        if rng.random() < 0.7:                  # one block along k everywhere: unify_chunks has nothing to object to
            for q in range(n):
                chunkss[q][k] = shapes[q][k]
    if n >= 2 and 0.25 <= r < 0.32:
        shapes[-1] = shapes[-1] + [2]           # rank mismatch
        chunkss[-1] = chunkss[-1] + [1]
    ax = axis
    if rng.random() < 0.2:
        # the shape test is the only thing that can refuse: 2-d, one block along the other dimension, equal chunk size
        # along the axis, lengths along the other dimension differ by one
        nd, axis, n = 2, rng.randint(0, 1), rng.randint(2, 3)
        other = 1 - axis
        cs = rng.randint(1, 3)
        base = rng.randint(1, 4)
        shapes, chunkss = [], []
        for q in range(n):
            sh = [0, 0]
            sh[axis] = rng.randint(1, 6)
            sh[other] = base + (1 if q == 0 else 0)     # first input larger: nothing downstream refuses incidentally
            ch = [0, 0]
            ch[axis] = min(cs, sh[axis])
            ch[other] = sh[other]
            shapes.append(sh); chunkss.append(ch)
        ax = axis
    elif rng.random() < 0.15:
        ax = rng.choice([nd, -nd - 1, nd + 1])
    elif rng.random() < 0.2:
        ax = axis - nd
    # the model works with chunksize = max(c, 1) of the normalised chunks
    csz = [[min(c, max(1, s)) for c, s in zip(cc, ss)] for cc, ss in zip(chunkss, shapes)]

    def thunk():
        import cubed.array_api as xp
        return xp.concat([arr(s, c) for s, c in zip(shapes, csz)], axis=ax)
    thunk.np = lambda: __import__("numpy").concatenate([__import__("numpy").zeros(s_) for s_ in shapes], axis=ax)
    return "concat|%d|%s|%s" % (ax, lls(shapes), lls(csz)), thunk, {"shapes": shapes, "chunks": csz, "axis": ax}, True


def g_stack(rng):
    n = rng.choice([0, 1, 2, 2, 3])
    nd = rng.randint(1, 2)
    shapes, chunkss = _arrays_like(rng, n, nd)
    if n >= 2 and rng.random() < 0.25:
        j, k = rng.randrange(n), rng.randrange(nd)
        shapes[j][k] += 1
    ax = rng.randint(-nd - 2, nd + 1)

    def thunk():
        import cubed.array_api as xp
        return xp.stack([arr(s, c) for s, c in zip(shapes, chunkss)], axis=ax)
    return "stack|%d|%s|%s" % (ax, lls(shapes), lls(chunkss)), thunk, {"shapes": shapes, "chunks": chunkss, "axis": ax}, True


def gen_region(rng):
    tc = rng.randint(1, 5)
    tn = rng.randint(tc, 16)
    r = rng.random()
    if r < 0.7:
        b0 = rng.randint(0, max(0, tn // tc - 1))
        b1 = rng.randint(b0, tn // tc)
        start, stop = b0 * tc, min(tn, b1 * tc) if rng.random() < 0.8 else tn
        if stop < start:
            stop = start
    else:
        start = rng.randint(0, tn)
        stop = rng.randint(start, tn + 2)
    step = rng.choice([None, None, None, 1, 2, 3])
    start_ = None if (start == 0 and rng.random() < 0.5) else start
    stop_ = None if (stop >= tn and rng.random() < 0.5) else stop
    lo = min(start, tn)
    hi = max(lo, min(tn if stop_ is None else stop, tn))
    sel = len(range(lo, hi, step or 1))
    sn = sel if rng.random() < 0.8 else max(0, sel + rng.choice([-1, 1]))
    if start_ is None and stop_ is None and step is None and rng.random() < 0.7:
        sn = tn            # whole-array store (no region): mostly with the right shape
    sc = rng.choice([tc, tc, tc, rng.randint(1, 6)])
    sc = max(1, min(sc, max(1, sn)))
    return dict(srcLen=sn, srcChunk=sc, tgtLen=tn, tgtChunk=tc, start=start_, stop=stop_, step=step)


def region_req(kind, p):
    return "%s|%d|%d|%d|%d|%s|%s|%s" % (kind, p["srcLen"], p["srcChunk"], p["tgtLen"], p["tgtChunk"],
                                        none_or(p["start"]), none_or(p["stop"]), none_or(p["step"]))


def build_region(p, compute=False):
    import numpy as np
    import zarr

    import cubed
    import cubed.array_api as xp
    z = zarr.create_array(store=zarr.storage.MemoryStore(), shape=(p["tgtLen"],), chunks=(p["tgtChunk"],), dtype="int64", fill_value=-1)
    src = xp.asarray(np.arange(p["srcLen"], dtype="int64") + 100, chunks=(p["srcChunk"],), spec=spec())
    res = cubed.store(src, z, regions=(slice(p["start"], p["stop"], p["step"]),), compute=compute)
    return src, z, res


def g_region(rng):
    p = gen_region(rng)

    def thunk():
        build_region(p)
        return "ok"
    return region_req("region", p), thunk, p, True


def g_qr(rng):
    nd = rng.choice([1, 2, 2, 2, 2, 3])
    shape = [rng.randint(2, 8) for _ in range(nd)]
    chunks = [rng.randint(1, s) for s in shape]
    if nd == 2:
        chunks[1] = shape[1] if rng.random() < 0.7 else chunks[1]
        if rng.random() < 0.5:      # often a supported layout: every row chunk has at least as many rows as columns
            shape[0] = max(shape[0], shape[1])
            chunks[0] = max(chunks[0], shape[1])
            shape[0] = -(-shape[0] // chunks[0]) * chunks[0]
    dtype = rng.choice(["float64", "float64", "float32", "int64"])
    mode = rng.choice(["reduced", "reduced", "reduced", "complete"])
    cb = nblocks(shape[1], chunks[1]) if nd >= 2 else 1
    short = 0
    if nd == 2:
        rows = [min(chunks[0], shape[0] - i * chunks[0]) for i in range(nblocks(shape[0], chunks[0]))]
        short = int(any(r < chunks[1] for r in rows))

    def thunk():
        import cubed.array_api as xp
        return list(xp.linalg.qr(arr(shape, chunks, dtype), mode=mode))
    return ("qr|%d|%d|%d|%d|%d" % (nd, mode == "reduced", dtype.startswith("float"), cb, short), thunk,
            {"shape": shape, "chunks": chunks, "dtype": dtype, "mode": mode}, True)


def g_reduce(rng):
    shape, chunks = rand_geom(rng)
    nd = len(shape)
    r = rng.random()
    if r < 0.2:
        axes = None
    else:
        k = rng.randint(1, min(2, nd))
        axes = rng.sample(range(nd), k)
        axes = [a - nd if rng.random() < 0.3 else a for a in axes]
        if rng.random() < 0.25:
            axes[rng.randrange(len(axes))] = rng.choice([nd, nd + 1, -nd - 1])
    axis = None if axes is None else (axes[0] if len(axes) == 1 and rng.random() < 0.5 else tuple(axes))
    se, ses = rng.choice([(None, "n"), (None, "n"), (2, "int:2"), (3, "int:3"), (5, "int:5"), ("dict", "dict"), ("a", "other"), (2.5, "other")])
    if se == "dict":
        good = [a % nd for a in (axes if axes is not None else range(nd)) if -nd <= a < nd]
        se = {a: rng.choice([0, 1, 2, 2, 3, 3]) for a in good}
        ses = "dict:" + ",".join(str(se[a]) for a in good) if good else "dict"

    def thunk():
        import cubed.array_api as xp
        return xp.sum(arr(shape, chunks), axis=axis, split_every=se)
    thunk.np = lambda: __import__("numpy").sum(__import__("numpy").zeros(shape), axis=axis)
    return ("reduce|%d|%s|%s" % (nd, "n" if axes is None else ls(axes), ses), thunk,
            {"shape": shape, "chunks": chunks, "axis": axes, "split_every": str(se)}, True)


def g_bcast(rng):
    xs, chunks = rand_geom(rng, rng.randint(1, 2), hi=4)
    xs = [1 if rng.random() < 0.4 else s for s in xs]
    chunks = [min(c, s) for c, s in zip(chunks, xs)]
    r = rng.random()
    lead = [rng.randint(1, 3) for _ in range(rng.randint(0, 2))]
    if r < 0.6:
        shape = lead + [rng.randint(1, 4) if s == 1 else s for s in xs]
    elif r < 0.8:
        shape = lead + [s + 1 if rng.random() < 0.5 else s for s in xs]
    else:
        shape = xs[1:]

    def thunk():
        import cubed.array_api as xp
        return xp.broadcast_to(arr(xs, chunks), tuple(shape))
    thunk.np = lambda: __import__("numpy").broadcast_to(__import__("numpy").zeros(xs), tuple(shape))
    return "bcast|%s|%s" % (ls(xs), ls(shape)), thunk, {"xshape": xs, "chunks": chunks, "shape": shape}, True


def g_roll(rng):
    shape, chunks = rand_geom(rng, hi=6)
    nd = len(shape)
    r = rng.random()
    if r < 0.3:
        # axis=None flattens first (reshape): keep that to 1-d inputs, reshape is not modelled here
        shape, chunks, nd = shape[:1], chunks[:1], 1
        axes, axis = None, None
        shift, ss = rng.choice([(1, "int"), (-2, "int"), (1.5, "other"), ((1, 2), "tuple:2")])
    else:
        k = rng.randint(1, min(2, nd))
        axes = rng.sample(range(nd), k)
        axes = [a - nd if rng.random() < 0.3 else a for a in axes]
        if rng.random() < 0.2:
            axes[rng.randrange(len(axes))] = rng.choice([nd, -nd - 1])
        axis = axes[0] if len(axes) == 1 and rng.random() < 0.5 else tuple(axes)
        ns = len(axes) if rng.random() < 0.8 else len(axes) + 1
        shift = tuple(rng.randint(-3, 3) for _ in range(ns))
        ss = "tuple:%d" % ns
        if ns == 1 and rng.random() < 0.5:
            shift, ss = shift[0], "int"

    def thunk():
        import cubed.array_api as xp
        return xp.roll(arr(shape, chunks), shift, axis=axis)
    thunk.np = lambda: __import__("numpy").roll(__import__("numpy").zeros(shape), shift, axis=axis)
    return ("roll|%d|%s|%s" % (nd, ss, "n" if axes is None else ls(axes)), thunk,
            {"shape": shape, "chunks": chunks, "shift": str(shift), "axis": axes}, True)


def g_permute(rng):
    shape, chunks = rand_geom(rng)
    nd = len(shape)
    r = rng.random()
    axes = list(range(nd))
    rng.shuffle(axes)
    if r < 0.25:
        axes = axes[:-1]
    elif r < 0.4:
        axes = axes + [0]
    elif r < 0.6:
        axes = [a - nd if rng.random() < 0.5 else a for a in axes]

    def thunk():
        import cubed.array_api as xp
        return xp.permute_dims(arr(shape, chunks), tuple(axes))
    thunk.np = lambda: __import__("numpy").transpose(__import__("numpy").zeros(shape), tuple(axes))
    return "permute|%d|%s" % (nd, ls(axes)), thunk, {"shape": shape, "axes": axes}, True


def _mb_f(*blocks, **kw):
    return blocks[0]


def g_mapblocks(rng):
    nargs = rng.choice([1, 2, 2])
    size = {0: rng.randint(1, 4), 1: rng.randint(1, 4)}        # index symbol -> dimension length
    shapes, chunkss = [], []
    for _ in range(nargs):
        nd = rng.randint(1, 2)
        inds = list(range(nd))[::-1]
        s = [size[i] for i in inds]
        if rng.random() < 0.3:
            c = list(s)
        else:
            c = [rng.randint(1, d) for d in s]
        shapes.append(s)
        chunkss.append(c)
    ndmax = max(len(s) for s in shapes)
    r = rng.random()
    drop = []
    if r < 0.6:
        drop = [rng.randint(0, ndmax - 1)]
    elif r < 0.7:
        drop = [rng.choice([ndmax, -ndmax - 1, 5])]
    elif r < 0.8:
        drop = [rng.randint(-ndmax, -1)]
    nbs = [[nblocks(d, c) for d, c in zip(s, cc)] for s, cc in zip(shapes, chunkss)]
    # new_axis / chunks variants (ints as chunk entries: one block per new axis, existing axes keep their block count)
    nd_out = ndmax - len({d % ndmax for d in drop if -ndmax <= d < ndmax})
    new_axis, out_chunks = None, None
    r2 = rng.random()
    if r2 < 0.2:
        new_axis = [rng.randint(0, nd_out + 1)]
    elif r2 < 0.3:
        new_axis = sorted(rng.sample(range(nd_out + 2), 2))
    if rng.random() < 0.25:
        k = nd_out + (len(new_axis) if new_axis else 0) + rng.choice([0, 0, 0, 1, -1, 2])
        out_chunks = tuple(rng.randint(1, 3) for _ in range(max(0, k)))

    def thunk():
        import cubed
        from cubed.primitive.blockwise import ChunkKey, FunctionArgs
        args = [arr(s, c) for s, c in zip(shapes, chunkss)]
        out = cubed.map_blocks(_mb_f, *args, dtype="int64", drop_axis=drop, new_axis=new_axis, chunks=out_chunks)
        f = key_fn(out)
        try:
            fa = f(ChunkKey("out", (0,) * out.ndim))
            if not isinstance(fa, FunctionArgs):
                return "malformed"
            for k in fa.args:
                if not isinstance(k, ChunkKey) or not isinstance(k.name, str) or not all(isinstance(c, int) for c in k.coords):
                    return "malformed"
        except Exception:  # noqa: BLE001
            return "malformed"
        return "ok"
    return ("mapblocks|%s|%s|%s|%s" % (lls(nbs), ls(drop), "n" if new_axis is None else ls(new_axis),
                                       "n" if out_chunks is None else str(len(out_chunks))), thunk,
            {"shapes": shapes, "chunks": chunkss, "drop_axis": drop, "new_axis": new_axis,
             "out_chunks": None if out_chunks is None else list(out_chunks)}, True)


def g_index(rng):
    import numpy as np
    shape, chunks = rand_geom(rng, hi=7)
    nd = len(shape)
    key, req = [], []
    nsel = rng.randint(1, nd + (1 if rng.random() < 0.15 else 0))
    ax = 0
    used_ell = False
    narr = 0
    arr_len = None
    for _ in range(nsel):
        n = shape[ax] if ax < nd else 3
        r = rng.random()
        if 0.55 <= r < 0.8 and narr >= 1:
            # at most one array index, except a rare adjacent pair of int arrays of one length
            r = 0.6 if (rng.random() < 0.15 and req and isinstance(req[-1], str) and req[-1][0] == "a") else rng.random() * 0.55
        if r < 0.3:
            i = rng.randint(-n - 1, n)
            key.append(i); req.append("i:%d" % i); ax += 1
        elif r < 0.55:
            a_, b_ = sorted([rng.randint(0, n), rng.randint(0, n + 1)])
            st = rng.choice([None, 1, 2, 3, -1, -2])
            sl = slice(a_, b_, st) if st is None or st > 0 else slice(b_, a_, st) if rng.random() < 0.7 else slice(None, None, st)
            key.append(sl)
            req.append(("slice", n)); ax += 1
        elif r < 0.72:
            vals = [rng.randint(-n, n - 1) for _ in range(arr_len or rng.randint(1, 4))]
            arr_len = len(vals)
            if rng.random() < 0.2:
                vals[0] = rng.choice([n, -n - 1, n + 2])
            key.append(np.array(vals)); req.append("a:%s" % ",".join(map(str, vals))); ax += 1; narr += 1
        elif r < 0.8:
            ln = n if rng.random() < 0.75 else n + 1
            m = np.array([rng.random() < 0.6 for _ in range(ln)], dtype=bool)
            key.append(m); req.append("b:%d" % ln); ax += 1; narr += 1
        elif r < 0.88:
            key.append(None); req.append("N")
        elif r < 0.95 and not used_ell:
            key.append(Ellipsis); req.append("e"); used_ell = True
        else:
            key.append(1.5); req.append("o"); ax += 1
    # an array index next to a slice with a step other than 1 is refused (merge_chunks / flip chunk mismatch: ValueError,
    # not modelled): unit steps then
    stepped = any(isinstance(rq, tuple) and key[j].step not in (None, 1) for j, rq in enumerate(req))
    for j, rq in enumerate(req):
        if isinstance(rq, tuple):
            sl, n = key[j], rq[1]
            if stepped and sl.step in (None, 1):
                # a stepped (or negative-step) slice makes index() call merge_chunks, which refuses (ValueError, not modelled) when another
                # axis was shortened to a length that does not divide its chunk size: keep the other axes whole
                sl = slice(None)
                key[j] = sl
            if narr >= 1 and sl.step is not None and sl.step != 1:
                lo_, hi_ = sorted([sl.start or 0, sl.stop if sl.stop is not None else n])
                sl = slice(lo_, hi_, 1)
                key[j] = sl
            req[j] = "s"
    if narr >= 1 and "o" in req:       # ndindex's own ordering of type errors vs array checks is not modelled
        keep = [j for j, rq in enumerate(req) if rq != "o"]
        key, req = [key[j] for j in keep], [req[j] for j in keep]
    k = tuple(key)

    def thunk():
        x = arr(shape, chunks)
        return x[k]
    thunk.np = lambda: __import__("numpy").zeros(shape)[k]
    return "index|%s|%s" % (ls(shape), ";".join(req) if req else "-"), thunk, {"shape": shape, "chunks": chunks, "key": req}, True


def g_scan(rng):
    nb = rng.choice([1, 2, 3, 4, 5, 6, 7, 8, 9, 10, 11, 12, 15, 20, 24, 25, 26, 30, 35, 50])

    def thunk():
        import cubed.array_api as xp
        xp.cumulative_sum(arr([nb], [1]))
        return "ok"
    return "scan|%d" % nb, thunk, {"nb": nb}, nb > 1


VALIDATE_FAMILIES = [("axis", g_axis, 1), ("merge", g_merge, 2), ("squeeze", g_squeeze, 2), ("repeat", g_repeat, 3),
                     ("concat", g_concat, 3), ("stack", g_stack, 2), ("region", g_region, 3), ("qr", g_qr, 2),
                     ("reduce", g_reduce, 3), ("bcast", g_bcast, 2), ("roll", g_roll, 2), ("permute", g_permute, 1),
                     ("mapblocks", g_mapblocks, 3), ("index", g_index, 4), ("scan", g_scan, 1)]


def corr_validate(ctx, n):
    reqs, exp, cases = [], [], []
    names = [f for f, _, _ in VALIDATE_FAMILIES]
    weights = [w for _, _, w in VALIDATE_FAMILIES]
    gens = {f: g for f, g, _ in VALIDATE_FAMILIES}
    for _ in range(n):
        fam = ctx.rng.choices(names, weights)[0]
        req, thunk, case, nontrivial = gens[fam](ctx.rng)
        o, r = outcome(thunk)
        got = (r if isinstance(r, str) else "ok") if o == "ok" else o
        reqs.append(req)
        exp.append(got)
        cases.append((fam, case))
        ctx.count({"validate": req, "impl": got}, nontrivial=nontrivial, kind="validate:%s:%s" % (fam, got.split(" ")[0]))
    ans = ctx.lean.drive(DRIVER, reqs)
    for rq, e, a, (fam, case) in zip(reqs, exp, ans, cases):
        if e != a:
            ctx.disagree("Validate.validate%s = outcome of building the real op" % fam.capitalize(), {"request": rq, "case": case}, a, e)


# ----------------------------------------------------------------------------------------------
# correspondence (b): key functions
# ----------------------------------------------------------------------------------------------

def out_coords(a, cap, rng):
    allc = list(itertools.islice(itertools.product(*[range(n) for n in a.numblocks]), 400))
    if len(allc) > cap:
        allc = rng.sample(allc, cap)
    return allc


def corr_keys(ctx, n):
    from cubed.primitive.blockwise import ChunkKey
    reqs, exp, info = [], [], []
    rng = ctx.rng

    def add(req, got, case, nontrivial=True, kind="keys"):
        reqs.append(req); exp.append(got); info.append(case)
        ctx.count({"keys": req, "impl": got}, nontrivial=nontrivial, kind=kind)

    for _ in range(n):
        fam = rng.choice(["pr", "repeat", "concat", "region", "scan", "stack"])
        try:
            with warnings.catch_warnings():
                warnings.simplefilter("ignore")
                if fam == "pr":
                    import numpy as np

                    from cubed.core.ops import partial_reduce
                    nb = rng.randint(1, 12)
                    c = rng.randint(1, 3)
                    length = nb * c - rng.randint(0, c - 1)
                    k = rng.randint(1, 5)
                    x = arr([length], [c])
                    y = partial_reduce(x, np.sum, split_every={0: k}, dtype=x.dtype)
                    f = key_fn(y)
                    for (bi,) in out_coords(y, 6, rng):
                        keys = [co[0] for nm, co in flat_keys(f(ChunkKey("out", (bi,)))) if nm == x.name]
                        add("prkeys|%d|%d|%d" % (x.numblocks[0], k, bi), ls(keys), {"nb": x.numblocks[0], "k": k, "bi": bi}, kind="keys:partial_reduce")
                    if y.numblocks[0] != -(-x.numblocks[0] // k):
                        ctx.disagree("prOutBlocks = numblocks of partial_reduce", {"nb": x.numblocks[0], "k": k}, -(-x.numblocks[0] // k), y.numblocks[0])
                elif fam == "repeat":
                    import cubed.array_api as xp
                    nlen, c, r = rng.randint(1, 9), rng.randint(1, 4), rng.randint(1, 4)
                    c = min(c, nlen)
                    x = arr([nlen], [c])
                    y = xp.repeat(x, r, axis=0)
                    f = key_fn(y)
                    if y.numblocks[0] != nblocks(nlen * r, c):
                        ctx.disagree("nblocks (n*r) c = numblocks of repeat", {"n": nlen, "c": c, "r": r}, nblocks(nlen * r, c), y.numblocks[0])
                    for (bi,) in out_coords(y, 6, rng):
                        keys = [co[0] for nm, co in flat_keys(f(ChunkKey("out", (bi,)))) if nm == x.name]
                        add("repeatkey|%d|%d" % (r, bi), ls(keys), {"n": nlen, "c": c, "r": r, "bi": bi}, kind="keys:repeat")
                elif fam == "concat":
                    import cubed.array_api as xp
                    k = rng.randint(2, 4)
                    cs = rng.randint(1, 4)
                    sizes = [rng.randint(0 if rng.random() < 0.1 else 1, 7) for _ in range(k)]
                    csizes = [max(1, min(cs, s)) if nblocks(s, cs) > 1 or rng.random() < 0.5 else max(1, s) for s in sizes]
                    arrs = [arr([s], [c]) for s, c in zip(sizes, csizes)]
                    y = xp.concat(arrs, axis=0)
                    csz = [a_.chunksize[0] for a_ in arrs]
                    f = key_fn(y)
                    C = y.chunksize[0]
                    names = [a_.name for a_ in arrs]
                    for (bi,) in out_coords(y, 6, rng):
                        if sum(sizes) == 0:
                            continue
                        keys = ["%d:%d" % (names.index(nm), co[0]) for nm, co in flat_keys(f(ChunkKey("out", (bi,)))) if nm in names]
                        add("concatkeys|%s|%s|%d|%d" % (ls(sizes), ls(csz), C, bi), " ".join(keys), {"sizes": sizes, "csizes": csz, "C": C, "bi": bi}, kind="keys:concat")
                elif fam == "region":
                    for _try in range(50):
                        p = gen_region(rng)
                        if p["start"] is None and p["stop"] is None and p["step"] is None:
                            continue       # whole-array store: index-notation blockwise, not the region key function
                        try:
                            src, z, res = build_region(p)
                            break
                        except ValueError:
                            continue
                    else:
                        continue
                    y = res[0]
                    op = op_of(y)
                    f = op.pipeline.config.back_key_function
                    got = []
                    for m in op.pipeline.mappable:
                        bi = int(list(m)[0])
                        (nm, co), = flat_keys(f(ChunkKey("out", (bi,))))
                        # is the designated source block there and of the shape the write expects ?  (the source may
                        # have been rechunked by store: look at the array the op really reads)
                        real = op.pipeline.config.reads_map[nm].array
                        rn, rc = int(real.shape[0]), int(real.chunks[0])
                        lo, hi, _ = slice(p["start"], p["stop"], p["step"]).indices(p["tgtLen"])
                        sel = [q for q in range(lo, hi) if q // p["tgtChunk"] == bi]
                        kk = co[0]
                        okk = 0 <= kk < nblocks(rn, rc) and min(rc, rn - kk * rc) == len(sel)
                        got.append("%d:%d:%s" % (bi, kk, "ok" if okk else "bad"))
                    add(region_req("regionkeys", p), " ".join(got), p, kind="keys:region")
                elif fam == "scan":
                    import cubed.array_api as xp
                    nb = rng.choice([2, 3, 4, 5, 6, 7, 9, 10, 11, 13, 15, 20, 26])
                    x = arr([nb * 2], [2])
                    y = xp.cumulative_sum(x)
                    op = op_of(y)
                    f = op.pipeline.config.back_key_function
                    for (bi,) in out_coords(y, 5, rng):
                        ks = flat_keys(f(ChunkKey("out", (bi,))))
                        # second key = increment block; slot checked against the declared chunk of the increment
                        add("scaninc|5|%d" % bi, "%d %d" % (ks[1][1][0], bi % 5), {"nb": nb, "bi": bi}, kind="keys:scan")
                else:
                    import cubed.array_api as xp
                    nd = rng.randint(1, 2)
                    shape, chunks = rand_geom(rng, nd, hi=5)
                    k = rng.randint(2, 3)
                    arrs = [arr(shape, chunks) for _ in range(k)]
                    ax = rng.randint(0, nd)
                    y = xp.stack(arrs, axis=ax)
                    f = key_fn(y)
                    names = [a_.name for a_ in arrs]
                    for oc in out_coords(y, 5, rng):
                        ks = flat_keys(f(ChunkKey("out", tuple(oc))))
                        add("stackkey|%d|%s" % (ax, ls(oc)), "%d:%s" % (names.index(ks[0][0]), ls(ks[0][1])), {"shape": shape, "chunks": chunks, "axis": ax, "out": list(oc)}, kind="keys:stack")
        except Exception as e:  # noqa: BLE001
            ctx.disagree("key function instance could not be built", {"family": fam}, "buildable", repr(e)[:200])
    ans = ctx.lean.drive(DRIVER, reqs)
    for rq, e, a, case in zip(reqs, exp, ans, info):
        ctx.traces += 1
        if e != a:
            ctx.disagree("Validate key function = real back_key_function", {"request": rq, "case": case}, a, e)


def corr(ctx):
    from extract_c17 import assert_records
    import common
    recs = assert_records(common.REPO)
    ctx.extra["assert_table"] = ["%s:%s:%d: assert %s" % (f, q, ln, t) for f, q, t, ln in recs]
    corr_validate(ctx, ctx.budget(500, 4000))
    corr_keys(ctx, ctx.budget(80, 300))


# ----------------------------------------------------------------------------------------------
# direct oracle
# ----------------------------------------------------------------------------------------------

class Failure(Exception):
    pass


def make_flag_executor(inner):
    from cubed.runtime.types import DagExecutor

    class Flag(DagExecutor):
        def __init__(self):
            super().__init__()
            self.started = False

        @property
        def name(self):
            return inner.name

        def execute_dag(self, dag, **kw):
            self.started = True
            return inner.execute_dag(dag, **kw)
    return Flag()


def executors():
    from cubed.runtime.executors.local import SingleThreadedExecutor, ThreadsExecutor
    return {"single": SingleThreadedExecutor, "threads": functools.partial(ThreadsExecutor, max_workers=2)}


def optimizers():
    from cubed.core.optimization import fuse_all_optimize_dag, simple_optimize_dag
    return {"default": dict(optimize_graph=True), "off": dict(optimize_graph=False),
            "simple": dict(optimize_graph=True, optimize_function=simple_optimize_dag),
            "fuse_all": dict(optimize_graph=True, optimize_function=fuse_all_optimize_dag)}


def frames_of(e):
    out = []
    tb = e.__traceback__
    while tb is not None:
        out.append(tb.tb_frame)
        tb = tb.tb_next
    return out


def site_of(e):
    """innermost frames inside cubed/ as 'file:function'."""
    res = []
    for f in frames_of(e):
        fn = f.f_code.co_filename
        if "/cubed/" in fn and "/tests/" not in fn:
            res.append("%s:%s" % (fn.split("/cubed/", 1)[1], getattr(f.f_code, "co_qualname", f.f_code.co_name)))
    return res[-3:]


def run_phases(build, config, executor="single"):
    """-> (phase, exception | None).  phase in build / plan / execute / done."""
    import cubed
    phase = "build"
    ex = None
    try:
        with warnings.catch_warnings():
            warnings.simplefilter("ignore")
            outs = build()
            outs = [o for o in (outs if isinstance(outs, (list, tuple)) else [outs]) if hasattr(o, "_plan")]
            if not outs:
                return "done", None        # nothing lazy was returned (e.g. an eager store)
            phase = "plan"
            fp = cubed.plan(*outs, **config)
            fp.validate()
            ex = make_flag_executor(executors()[executor]())
            phase = "execute-call"
            fp.execute(executor=ex, spec=spec())
        return "done", None
    except Exception as e:  # noqa: BLE001
        if phase == "execute-call":
            phase = "execute" if ex is not None and ex.started else "plan"
        return phase, e


def verdict(phase, e):
    """None when allowed, else a short description."""
    if e is None:
        return None
    k = kind_of(e)
    if phase in ("build", "plan") and k in ALLOWED:
        return None
    return "%s raised during %s: %s" % (type(e).__name__, phase, str(e)[:120].replace("\n", " "))


def sig(phase, e):
    return (phase if phase != "plan" else "build", type(e).__name__)


# -- classifiers: each recognises exactly one known defect from the (shrunk) failing case ---------------------

def scan_ok(nb, s=5):
    while True:
        if nb <= s:
            return True
        if nb % s:
            return False
        nb //= s


def unwrap(f, depth=0):
    """base function of partial / block_id wrappers."""
    while depth < 8:
        depth += 1
        if isinstance(f, functools.partial):
            f = f.func
            continue
        cl = getattr(f, "__closure__", None)
        if cl and f.__name__ == "wrap":
            inner = [c.cell_contents for c in cl if callable(c.cell_contents)]
            if inner:
                f = inner[0]
                continue
        break
    return f


def failing_task(build, config):
    """Re-run unoptimised task by task; -> (base function qualname, BlockwiseSpec, exception) of the first failing task."""
    import cubed
    from cubed.runtime.pipeline import visit_nodes
    with warnings.catch_warnings():
        warnings.simplefilter("ignore")
        outs = build()
        outs = [o for o in (outs if isinstance(outs, (list, tuple)) else [outs]) if hasattr(o, "_plan")]
        if not outs:
            return None
        fp = cubed.plan(*outs, **config)
        dag = fp.dag
        for name, node in visit_nodes(dag):
            pipeline = node["pipeline"]
            for m in pipeline.mappable:
                try:
                    pipeline.function(m, config=pipeline.config)
                except Exception as e:  # noqa: BLE001
                    base = unwrap(pipeline.config.function)
                    return getattr(base, "__qualname__", repr(base)), pipeline.config, e, list(m)
    return None


def chunks_of(proxy):
    from cubed.utils import normalize_chunks
    a = proxy.array
    return tuple(normalize_chunks(proxy.chunks, shape=a.shape, dtype=a.dtype)), tuple(a.shape)


def classify(build, config, phase, e, params=None):
    """-> key of the known defect this failure is, or None."""
    params = params or {}
    fr = frames_of(e)
    names = [getattr(f.f_code, "co_qualname", f.f_code.co_name) for f in fr]
    msg = str(e)
    # 3. zero chunk size / split_every zero: ZeroDivisionError at build
    if isinstance(e, ZeroDivisionError) and phase == "build":
        for f in fr:
            if f.f_code.co_name == "blockdims_from_blockshape" and 0 in tuple(f.f_locals.get("chunks", ())):
                return "zero-chunk-size"
        return None
    # 4. legacy optimizer: stream-reading successor fused by `fuse`
    if isinstance(e, AttributeError) and phase == "execute" and "has no attribute 'coords'" in msg:
        fn = config.get("optimize_function")
        if fn is not None and fn.__name__ == "simple_optimize_dag" and "fuse.<locals>.fused_key_func" in names:
            from collections.abc import Iterator
            for f in fr:
                if getattr(f.f_code, "co_qualname", "") == "fuse.<locals>.fused_key_func":
                    try:
                        a0 = f.f_locals["pipeline2"].config.back_key_function(f.f_locals["out_key"]).args[0]
                    except Exception:  # noqa: BLE001
                        return None
                    if isinstance(a0, (Iterator, list)):
                        return "legacy-fuse-stream"
        return None
    if phase != "execute":
        return None
    # the remaining defects fail inside a task: find the task
    try:
        ft = failing_task(build, dict(optimize_graph=False))
    except Exception:  # noqa: BLE001
        ft = None
    if ft is None:
        return None
    qual, cfg, e2, coords = ft
    msg2 = str(e2)
    shape_err = (isinstance(e2, ValueError) and "could not broadcast" in msg2) or \
                (isinstance(e2, IndexError) and ("tuple index out of range" in msg2 or "too many indices" in msg2))
    if ((isinstance(e2, ValueError) and any(w in msg2 for w in ("broadcast", "shape-mismatch", "mismatch in its core dimension")))
            or (qual == "_read_stack_chunk" and shape_err)) and qual not in ("qr", "_repeat"):  # noqa: E129
        # unify_chunks asked for a rechunk of a zero-size operand, which `_rechunk_plan` skips: blocks stay misaligned
        geo = [chunks_of(p) for p in cfg.reads_map.values()]
        if any(0 in shp for _, shp in geo) and len(geo) >= 2:
            return "empty-operands-unaligned"
    if isinstance(e2, KeyError) and params.get("family") == "map_blocks_late_contraction":
        k = e2.args[0] if e2.args else None
        if isinstance(k, tuple) and params.get("first_has_contracted") is False and params.get("later_has_contracted") is True:
            return "map-blocks-late-contraction"
    return None


def check_case(ctx, label, build, case, params=None, configs=None, execs=("single",), shrinkable=None, nontrivial=True):
    """Run one build under the given optimizer settings / executors; report failures."""
    opts = optimizers()
    configs = configs or ["default"]
    for cname in configs:
        for exn in execs:
            phase, e = run_phases(build, opts[cname], exn)
            kind = "oracle:%s:%s:%s" % (label, phase if e is not None else "done", type(e).__name__ if e is not None else "ok")
            ctx.count({"oracle": label, "case": case, "config": cname, "executor": exn}, nontrivial=nontrivial, kind=kind)
            v = verdict(phase, e)
            if v is None:
                continue
            fcase = dict(case=case, config=cname, executor=exn, phase=phase, exception=type(e).__name__, site=site_of(e))
            seen = ctx.__dict__.setdefault("_c17_seen", {})
            b2 = build
            # a defect already minimised twice in this run is recognised on the unshrunk case (saves the shrink)
            if shrinkable is not None:
                try:
                    k0 = classify(build, opts[cname], phase, e, params)
                except Exception:  # noqa: BLE001
                    k0 = None
                if k0 is not None and ctx.known(k0) and seen.get(k0, 0) >= 2:
                    seen[k0] += 1
                    ctx.fail(v, fcase, key=k0)
                    return
                try:
                    b2, c2 = shrinkable(phase, e, opts[cname], exn)
                    fcase["shrunk"] = c2
                    phase, e = run_phases(b2, opts[cname], exn)
                    fcase.update(phase=phase, exception=type(e).__name__, site=site_of(e) if e is not None else [])
                except Exception as ee:  # noqa: BLE001
                    fcase["shrink_error"] = repr(ee)[:200]
                    phase, e = run_phases(build, opts[cname], exn)
                    b2 = build
            if e is None:
                ctx.fail("not reproducible: " + v, fcase)
                return
            try:
                key = classify(b2, opts[cname], phase, e, params)
            except Exception as ce:  # noqa: BLE001
                key = None
                fcase["classifier_error"] = repr(ce)[:200]
            if key is not None:
                seen[key] = seen.get(key, 0) + 1
            ctx.fail(verdict(phase, e) or v, fcase, key=key)
            return   # one failure per case is enough


def exprgen_case(ctx, prog, configs, execs):
    import cubed.array_api as xp
    import exprgen
    d = prog.describe()

    def mk(p):
        return lambda: p.build(xp, spec())

    def shrinkable(phase, e, config, exn):
        s0 = sig(phase, e)

        def still(p):
            ph, ee = run_phases(mk(p), config, exn)
            return ee is not None and verdict(ph, ee) is not None and sig(ph, ee) == s0
        small = exprgen.shrink(prog, still, max_evals=ctx.budget(120, 300))
        return mk(small), small.describe()
    fams = sorted(prog.families())
    nb = sum(1 for i in d["inputs"] for s, c in zip(i["shape"], i["chunks"]) if s > c)
    check_case(ctx, "exprgen:" + "+".join(fams[:3]), mk(prog), d, configs=configs, execs=execs, shrinkable=shrinkable, nontrivial=nb > 0)


# -- family-specific edge / invalid parameter streams ---------------------------------------------------------

def stream_cases(rng):
    """yield (label, build thunk, case dict, params for the classifier)."""
    import numpy as np

    import cubed
    import cubed.array_api as xp
    from cubed.core.ops import merge_chunks

    # cumulative ops for every block count 1..31 (1-d) and along an axis of a 2-d array
    nb = rng.randint(1, 31)
    yield "scan", (lambda nb=nb: xp.cumulative_sum(arr([nb], [1]))), {"op": "cumulative_sum", "blocks": nb}, {}
    nb2, ax = rng.randint(1, 13), rng.randint(0, 1)
    sh = [3, 3]; sh[ax] = nb2
    yield "scan", (lambda sh=sh, ax=ax: xp.cumulative_prod(arr(sh, [1, 3] if ax == 0 else [3, 1], "float64"), axis=ax)), {"op": "cumulative_prod", "shape": sh, "axis": ax}, {}
    # stack with independently chunked operands of one shape
    shape, c1 = rand_geom(rng, rng.randint(1, 2), hi=6)
    c2 = [rng.randint(1, s) for s in shape]
    ax = rng.randint(0, len(shape))
    yield "stack", (lambda: xp.stack([arr(shape, c1), arr(shape, c2)], axis=ax)), {"op": "stack", "shape": shape, "chunks": [c1, c2], "axis": ax}, {}
    # region store
    p = gen_region(rng)
    yield "region", (lambda p=p: build_region(p)[2]), dict(p, op="store-region"), {}
    # repeat incl. 0 and negative axis
    shape, ch = rand_geom(rng, hi=5)
    reps = rng.choice([0, 0, 1, 2, 3])
    ax = rng.randint(-len(shape), len(shape) - 1)
    yield "repeat", (lambda: xp.repeat(arr(shape, ch), reps, axis=ax)), {"op": "repeat", "shape": shape, "chunks": ch, "repeats": reps, "axis": ax}, {}
    # one-to-one movement ops on a ragged grid: several chunks along the axis, last chunk of 2 or 3 elements
    rem = rng.choice([2, 3])
    cr = rng.randint(rem + 1, 5)
    nr = cr * rng.randint(1, 3) + rem
    if rng.random() < 0.5:
        rshape, rch, rax = [nr], [cr], 0
    else:
        other = rng.randint(2, 5)
        rax = rng.randint(0, 1)
        rshape = [other, other]; rshape[rax] = nr
        rch = [rng.randint(1, other)] * 2; rch[rax] = cr
    rr = rng.choice([2, 3, 4])
    which = rng.choice(["repeat", "repeat", "take", "unstack", "roll", "flip", "concat", "stack", "expand_dims", "tile"])
    rcase = {"op": which, "shape": rshape, "chunks": rch, "axis": rax, "k": rr}
    yield "ragged:" + which, (lambda: ragged_op(which, rshape, rch, rax, rr)[0]), rcase, {}
    # qr over all tall / wide / short-chunk layouts
    m, ncol = rng.randint(1, 9), rng.randint(1, 5)
    rc = rng.randint(1, m)
    yield "qr", (lambda: list(xp.linalg.qr(arr([m, ncol], [rc, ncol], "float64")))), {"op": "qr", "shape": [m, ncol], "chunks": [rc, ncol]}, {}
    # merge_chunks, non-dividing / zero
    shape, ch = rand_geom(rng, hi=8)
    tgt = [c * rng.randint(1, 3) + rng.choice([0, 0, 0, 1]) for c in ch]
    if rng.random() < 0.1:
        tgt[0] = 0
    yield "merge_chunks", (lambda: merge_chunks(arr(shape, ch), tuple(tgt))), {"op": "merge_chunks", "shape": shape, "chunks": ch, "target": tgt}, {}
    # rechunk incl. zero / larger-than-dim chunks
    shape, ch = rand_geom(rng, hi=8)
    tgt = [rng.choice([0, 1, 2, 3, s, s + 1]) if rng.random() < 0.3 else rng.randint(1, s) for s in shape]
    yield "rechunk", (lambda: arr(shape, ch).rechunk(tuple(tgt))), {"op": "rechunk", "shape": shape, "chunks": ch, "target": tgt}, {}
    # reductions with split_every variants
    shape, ch = rand_geom(rng, hi=9)
    axr = rng.randint(0, len(shape) - 1)
    se = rng.choice([None, 2, 3, 4, 8, {axr: 2}, {axr: 1}, {axr: 0}, {axr: 3}])
    fn = rng.choice(["sum", "max", "mean", "argmax"])
    if fn == "argmax":
        yield "reduce", (lambda: xp.argmax(arr(shape, ch), axis=axr, split_every=se)), {"op": fn, "shape": shape, "chunks": ch, "axis": axr, "split_every": str(se)}, {}
    else:
        yield "reduce", (lambda: getattr(xp, fn)(arr(shape, ch, "float64"), axis=axr, split_every=se)), {"op": fn, "shape": shape, "chunks": ch, "axis": axr, "split_every": str(se)}, {}
    # squeeze / concat / index edge cases built from the validate generators (whatever they raise must be an allowed type)
    for g in (g_squeeze, g_concat, g_index, g_bcast, g_roll, g_permute, g_merge, g_reduce):
        req, thunk, case, _ = g(rng)
        shadow = getattr(thunk, "np", None)
        if shadow is not None:
            try:
                with warnings.catch_warnings():
                    warnings.simplefilter("ignore")
                    shadow()
            except Exception:  # noqa: BLE001   NumPy rejects the request too: the property says nothing about it
                continue
        yield "edge:" + req.split("|")[0], thunk, dict(case, request=req), {}
    # map_blocks with a contracted index only in a later argument
    n0, n1 = rng.randint(1, 4), rng.randint(1, 4)
    ca = rng.randint(1, n0)
    first_2d = rng.random() < 0.4
    a1 = ([n0], [ca])
    b2 = ([n1, n0], [n1, ca])

    def mb():
        x, y = arr(*a1), arr(*b2)
        if first_2d:
            return cubed.map_blocks(lambda yb, xb: xb + yb.sum(axis=0), y, x, dtype="int64", drop_axis=0)
        return cubed.map_blocks(lambda xb, yb: xb + yb.sum(axis=0), x, y, dtype="int64", drop_axis=0)
    yield "map_blocks", mb, {"op": "map_blocks", "args": [b2, a1] if first_2d else [a1, b2], "drop_axis": 0}, \
        {"family": "map_blocks_late_contraction", "first_has_contracted": first_2d, "later_has_contracted": not first_2d}


def oracle_streams(ctx, n):
    for _ in range(n):
        for label, build, case, params in stream_cases(ctx.rng):
            cfgs = ["default", "off"] if label not in ("reduce",) else ["default", "off", "simple", "fuse_all"]
            check_case(ctx, label, build, case, params=params, configs=cfgs, execs=("single",))


def oracle_legacy(ctx, n):
    """elementwise -> reduction chains under the legacy optimizer and fuse_all."""
    import cubed.array_api as xp
    for _ in range(n):
        shape, ch = rand_geom(ctx.rng, hi=8)
        if ctx.rng.random() < 0.5:
            ch = list(shape)           # one block: same num_tasks as the reduction's single task
        fn = ctx.rng.choice(["sum", "max", "mean"])
        axis = ctx.rng.choice([None, 0])
        build = lambda: getattr(xp, fn)(xp.negative(arr(shape, ch, "float64")), axis=axis)  # noqa: E731
        check_case(ctx, "legacy", build, {"op": "%s(negative(x))" % fn, "shape": shape, "chunks": ch, "axis": axis},
                   configs=["simple", "fuse_all"], execs=("single",))


def ragged_op(which, shape, chunks, axis, k):
    """-> (cubed result(s), NumPy reference(s)) of a one-to-one movement op along `axis`."""
    import numpy as np

    import cubed.array_api as xp
    x = arr(shape, chunks)
    a = np.arange(int(np.prod(shape)), dtype="int64").reshape(tuple(shape))
    n = shape[axis]
    if which == "repeat":
        return xp.repeat(x, k, axis=axis), np.repeat(a, k, axis=axis)
    if which == "take":
        idx = [(i * k + 1) % n for i in range(n + 1)]
        return xp.take(x, xp.asarray(np.array(idx), spec=spec()), axis=axis), np.take(a, idx, axis=axis)
    if which == "unstack":
        return list(xp.unstack(x, axis=axis)), [np.take(a, i, axis=axis) for i in range(n)]
    if which == "roll":
        return xp.roll(x, k, axis=axis), np.roll(a, k, axis=axis)
    if which == "flip":
        return xp.flip(x, axis=axis), np.flip(a, axis=axis)
    if which == "concat":
        return xp.concat([x] * k, axis=axis), np.concatenate([a] * k, axis=axis)
    if which == "stack":
        return xp.stack([x] * k, axis=axis), np.stack([a] * k, axis=axis)
    if which == "expand_dims":
        return xp.expand_dims(x, axis=axis), np.expand_dims(a, axis=axis)
    if which == "tile":
        reps = [1] * len(shape); reps[axis] = k
        return xp.tile(x, tuple(reps)), np.tile(a, tuple(reps))
    raise ValueError(which)


RAGGED_GEOMS = [([5], [3], 0), ([7], [4], 0), ([11], [4], 0), ([4, 5], [2, 3], 1), ([7, 3], [4, 2], 0)]


def oracle_ragged(ctx):
    """Fixed must-hold cases: accepted one-to-one movement ops on grids with a ragged last chunk of 2 or 3 elements
    complete (single-threaded, default optimizer) with NumPy's values."""
    import numpy as np
    cases = []
    for shape, chunks, axis in RAGGED_GEOMS:
        for k in (2, 3, 4):
            cases.append(("repeat", shape, chunks, axis, k))
        for which in ("take", "unstack", "roll", "flip", "concat", "stack", "expand_dims", "tile"):
            cases.append((which, shape, chunks, axis, 2))
    for which, shape, chunks, axis, k in cases:
        case = {"op": which, "shape": shape, "chunks": chunks, "axis": axis, "k": k}
        holder = {}

        def build(holder=holder):
            res, ref = ragged_op(which, shape, chunks, axis, k)
            holder["ref"] = ref
            return res
        phase, e = run_phases(build, optimizers()["default"])
        v = verdict(phase, e)
        ctx.count({"ragged": case}, nontrivial=True, kind="oracle:ragged:%s:%s" % (which, "done" if e is None else phase))
        if e is not None:
            # a refusal at build would be allowed by the property, but these layouts are supported: report any exception
            ctx.fail(v or "%s raised during %s: %s" % (type(e).__name__, phase, str(e)[:120]),
                     dict(case=case, config="default", executor="single", phase=phase, exception=type(e).__name__, site=site_of(e)))
            continue
        try:
            with warnings.catch_warnings():
                warnings.simplefilter("ignore")
                res = build()
                outs = res if isinstance(res, list) else [res]
                refs = holder["ref"] if isinstance(holder["ref"], list) else [holder["ref"]]
                import cubed
                vals = cubed.compute(*outs)
            for val, ref in zip(vals, refs):
                if np.shape(val) != np.shape(ref) or not np.array_equal(val, ref):
                    ctx.fail("accepted %s completes with values %s, NumPy gives %s" % (which, np.asarray(val).tolist(), np.asarray(ref).tolist()), dict(case=case))
                    break
        except Exception as ee:  # noqa: BLE001
            ctx.fail("%s raised while computing: %s" % (type(ee).__name__, str(ee)[:120]), dict(case=case, phase="execute", exception=type(ee).__name__))


def oracle_regressions(ctx):
    """Triggers of defects that were repaired by `fix:` commits in /repo: they must hold now (a recurrence is a violation)."""
    import cubed.array_api as xp
    import numpy as np
    fixed = [
        # fix d416aac: store into an existing array of another shape is refused up front
        ("refused", "store-shape", dict(srcLen=17, srcChunk=2, tgtLen=16, tgtChunk=2, start=None, stop=None, step=None)),
        ("refused", "store-shape", dict(srcLen=15, srcChunk=2, tgtLen=16, tgtChunk=2, start=None, stop=None, step=None)),
        ("done", "store-rechunk", dict(srcLen=16, srcChunk=3, tgtLen=16, tgtChunk=2, start=None, stop=None, step=None)),
        # fix ba97b91: region stores rechunk the source to the target chunks; stepped regions are refused
        ("done", "region-chunks", dict(srcLen=4, srcChunk=2, tgtLen=12, tgtChunk=4, start=4, stop=8, step=None)),
        ("done", "region-chunks", dict(srcLen=8, srcChunk=8, tgtLen=12, tgtChunk=4, start=4, stop=12, step=None)),
        ("done", "region-chunks", dict(srcLen=8, srcChunk=3, tgtLen=12, tgtChunk=4, start=4, stop=None, step=1)),
        ("refused", "region-step", dict(srcLen=4, srcChunk=4, tgtLen=12, tgtChunk=4, start=4, stop=12, step=2)),
        ("refused", "region-align", dict(srcLen=4, srcChunk=4, tgtLen=12, tgtChunk=4, start=3, stop=7, step=None)),
    ]
    for want, label, p in fixed:
        holder = {}

        def build(p=p, holder=holder):
            src, z, res = build_region(p)
            holder["z"] = z
            return res
        for cname in ("default", "off"):
            phase, e = run_phases(build, optimizers()[cname])
            got = "done" if e is None else ("refused" if verdict(phase, e) is None else "failed")
            ctx.count({"regression": label, "case": p, "config": cname}, nontrivial=True, kind="oracle:regression:%s:%s" % (label, got))
            if got != want:
                ctx.fail("repaired defect is back (%s): expected %s, got %s %s" % (label, want, got, "" if e is None else "%s during %s: %s" % (type(e).__name__, phase, str(e)[:100])),
                         dict(case=dict(p, op="store"), config=cname, phase=phase, exception=None if e is None else type(e).__name__))
            elif want == "done":
                lo, hi, _ = slice(p["start"], p["stop"], p["step"]).indices(p["tgtLen"])
                exp = np.full(p["tgtLen"], -1, dtype="int64")
                exp[lo:hi] = np.arange(p["srcLen"]) + 100
                if not np.array_equal(holder["z"][:], exp):
                    ctx.fail("repaired store (%s) completes but writes %s, expected %s" % (label, holder["z"][:].tolist(), exp.tolist()),
                             dict(case=dict(p, op="store"), config=cname))
    # fix 5fff6ae (scan), f3856f5 (stack), 19968d0 (qr)
    more = [
        ("done", "scan-ragged", lambda: xp.cumulative_sum(arr([6], [1])), np.cumsum(np.arange(6))),
        ("done", "scan-ragged", lambda: xp.cumulative_sum(arr([11], [1])), np.cumsum(np.arange(11))),
        ("done", "scan-ragged", lambda: xp.cumulative_sum(arr([30], [1])), np.cumsum(np.arange(30))),
        ("done", "scan-ragged", lambda: xp.cumulative_prod(arr([7, 2], [1, 2], "float64") + 1.0, axis=0), np.cumprod(np.arange(14.0).reshape(7, 2) + 1.0, axis=0)),
        ("done", "stack-chunks", lambda: xp.stack([arr([2], [1]), arr([2], [2])]), np.stack([np.arange(2), np.arange(2)])),
        ("done", "stack-chunks", lambda: xp.stack([arr([4], [2]), arr([4], [3])]), np.stack([np.arange(4), np.arange(4)])),
        ("refused", "stack-shapes", lambda: xp.stack([arr([2], [2]), arr([3], [3])]), None),
        ("refused", "qr-short-row", lambda: list(xp.linalg.qr(arr([6, 4], [2, 4], "float64"))), None),
        ("refused", "qr-short-row", lambda: list(xp.linalg.qr(arr([2, 4], [2, 4], "float64"))), None),
        # only the ragged LAST row chunk is shorter than the column count (nominal chunk size is fine)
        ("refused", "qr-short-last-row-chunk", lambda: list(xp.linalg.qr(arr([10, 4], [4, 4], "float64"))), None),
        ("refused", "qr-short-last-row-chunk", lambda: list(xp.linalg.qr(arr([9, 4], [4, 4], "float64"))), None),
        ("refused", "qr-short-last-row-chunk", lambda: list(xp.linalg.svd(arr([4, 10], [4, 4], "float64"), full_matrices=False)), None),
        # fix cfb5bf3 (repeat)
        ("done", "repeat-zero", lambda: xp.repeat(arr([4], [2]), 0), np.repeat(np.arange(4), 0)),
        ("done", "repeat-zero", lambda: xp.repeat(arr([5, 5], [5, 4]), 0, axis=-2), np.repeat(np.arange(25).reshape(5, 5), 0, axis=-2)),
        ("done", "repeat-negative-axis", lambda: xp.repeat(arr([2, 4], [1, 1]), 3, axis=-2), np.repeat(np.arange(8).reshape(2, 4), 3, axis=-2)),
        ("done", "repeat-negative-axis", lambda: xp.repeat(arr([4], [2]), 2, axis=-1), np.repeat(np.arange(4), 2)),
        ("refused", "repeat-negative-repeats", lambda: xp.repeat(arr([4], [2]), -1), None),
        # fix 8c5c994 (clip with only a lower bound), d18946b (var/std of a 0-d array), 6c5075b (split_every dict < 2)
        ("done", "clip-min-only", lambda: xp.clip(arr([4], [2]), min=1), np.clip(np.arange(4), 1, None)),
        ("done", "clip-min-only", lambda: xp.clip(arr([4], [2]), min=arr([4], [2])), np.arange(4)),
        ("done", "var-zero-dim", lambda: xp.var(xp.asarray(np.asarray(3.0), spec=spec())), np.asarray(0.0)),
        ("done", "var-zero-dim", lambda: xp.std(xp.asarray(np.asarray(3.0), spec=spec())), np.asarray(0.0)),
        ("refused", "split-every-zero", lambda: xp.sum(arr([6, 4], [2, 2]), axis=0, split_every={0: 0}), None),
        ("refused", "split-every-zero", lambda: xp.sum(arr([6, 4], [2, 2]), axis=0, split_every={0: 1}), None),
        ("done", "split-every-zero", lambda: xp.sum(arr([6, 4], [2, 2]), axis=0, split_every={0: 2}), np.arange(24).reshape(6, 4).sum(axis=0)),
    ]
    for want, label, build, expect in more:
        for cname in ("default", "off"):
            phase, e = run_phases(build, optimizers()[cname])
            got = "done" if e is None else ("refused" if verdict(phase, e) is None else "failed")
            ctx.count({"regression": label, "config": cname, "n": more.index((want, label, build, expect))}, nontrivial=True,
                      kind="oracle:regression:%s:%s" % (label, got))
            if got != want:
                ctx.fail("repaired defect is back (%s): expected %s, got %s %s" % (label, want, got, "" if e is None else "%s during %s: %s" % (type(e).__name__, phase, str(e)[:100])),
                         dict(case={"op": label}, config=cname, phase=phase, exception=None if e is None else type(e).__name__))
        if want == "done":
            with warnings.catch_warnings():
                warnings.simplefilter("ignore")
                try:
                    val = build().compute()
                    if np.shape(val) != np.shape(expect) or not np.allclose(val, expect):
                        ctx.fail("repaired op (%s) completes with wrong values %s" % (label, np.asarray(val).tolist()), dict(case={"op": label}))
                except Exception as ee:  # noqa: BLE001
                    ctx.fail("repaired op (%s) fails: %r" % (label, ee), dict(case={"op": label}))
    # fix 2fe4874: negative-step slice after an integer index
    a = np.arange(24).reshape(2, 3, 4)
    for key in [(0, slice(None, None, -1), slice(None)), (0, slice(None), slice(None, None, -1)), (slice(None), 0, slice(None, None, -1))]:
        build = lambda key=key: xp.asarray(a, chunks=(1, 2, 2), spec=spec())[key]  # noqa: E731
        phase, e = run_phases(build, optimizers()["default"])
        ctx.count({"regression": "index-flip", "key": str(key)}, nontrivial=True, kind="oracle:regression:index-flip:%s" % ("done" if e is None else "failed"))
        if e is not None:
            ctx.fail("repaired defect is back (index flip axis): %s during %s" % (type(e).__name__, phase), {"case": {"op": "index", "key": str(key)}})


def witness_corpus():
    """One fixed minimal witness per listed finding: (key, optimizer setting, build thunk, classifier params)."""
    import numpy as np

    import cubed
    import cubed.array_api as xp

    def late_contraction():
        x, y = arr([2], [1]), arr([4, 2], [4, 1])
        return cubed.map_blocks(lambda xb, yb: xb + yb.sum(axis=0), x, y, dtype="int64", drop_axis=0)
    mb = {"family": "map_blocks_late_contraction", "first_has_contracted": False, "later_has_contracted": True}
    return [
        ("legacy-fuse-stream", "simple", lambda: xp.sum(xp.negative(arr([4], [4], "float64"))), {}),
        ("map-blocks-late-contraction", "default", late_contraction, mb),
        ("empty-operands-unaligned", "default",
         lambda: xp.add(xp.asarray(np.zeros((4, 0)), chunks=(3, 1), spec=spec()), xp.asarray(np.zeros((4, 0)), chunks=(4, 1), spec=spec())), {}),
        ("zero-chunk-size", "default", lambda: arr([4], [2]).rechunk((0,)), {}),
    ]


def oracle_witnesses(ctx):
    """Run the fixed witness of every listed finding once (single-threaded), so that each defect still present is
    reported on every run whatever the seed; a witness that no longer fails prints nothing."""
    opts = optimizers()
    for key, cname, build, params in witness_corpus():
        phase, e = run_phases(build, opts[cname])
        v = verdict(phase, e)
        ctx.count({"witness": key, "config": cname}, nontrivial=True,
                  kind="oracle:witness:%s:%s" % (key, "holds" if v is None else "fails"))
        if v is None:
            continue
        try:
            got = classify(build, opts[cname], phase, e, params)
        except Exception:  # noqa: BLE001
            got = None
        ctx.fail(v, dict(case={"witness": key}, config=cname, executor="single", phase=phase,
                         exception=type(e).__name__, site=site_of(e)), key=got)


def oracle(ctx):
    import common
    common.use_repo()
    import exprgen
    oracle_witnesses(ctx)
    oracle_ragged(ctx)
    nprog = ctx.budget(60, 350)
    for i in range(nprog):
        prog = exprgen.gen_program(ctx.rng, max_depth=ctx.rng.choice([1, 2, 3, 4]), max_elems=600, max_blocks=40)
        r = ctx.rng.random()
        if ctx.tier == "thorough":
            configs = ["default", "off", "simple", "fuse_all"] if r < 0.35 else ["default", "off"]
            execs = ("single", "threads") if r < 0.25 else ("single",)
        else:
            configs = ["default", "off", "simple", "fuse_all"] if r < 0.2 else ["default"] if r < 0.6 else ["off"]
            execs = ("single", "threads") if r < 0.1 else ("single",)
        exprgen_case(ctx, prog, configs, execs)
    oracle_streams(ctx, ctx.budget(14, 60))
    oracle_legacy(ctx, ctx.budget(12, 40))
    oracle_regressions(ctx)


def search(ctx):
    ctx.rng.seed(ctx.seed + 104729)
    import exprgen
    for i in range(ctx.budget(150, 500)):
        prog = exprgen.gen_program(ctx.rng, max_depth=ctx.rng.choice([1, 2, 3]), max_elems=400, max_blocks=40)
        exprgen_case(ctx, prog, ["default", "off", "simple", "fuse_all"], ("single",))
    oracle_streams(ctx, ctx.budget(40, 200))
    oracle_legacy(ctx, ctx.budget(20, 60))
