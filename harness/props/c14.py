"""C14 — rechunk plans are well-formed, aligned and memory-bounded for every geometry.

corr   : the real split_chunksizes / consolidate_chunks / _fix_copy_chunks / multspace /
         multistage_rechunking_plan / multistage_regular_rechunking_plan / rechunk_plan  vs  the Lean
         executable model (drivers/C14.lean).  The float-dependent numbers (max_mem / chunk_mem, geomspace
         stage chunks, floor(v / vint)) are *recorded from the real run* (harness/rechunk_rec.py) and passed
         in the request line, so model and code see identical values; the hypotheses the theorems make about
         those numbers are validated on every case.
oracle : independent of Lean — the stage / copy-op invariants asserted directly on the real planner output,
         split_chunksizes against a brute-force common refinement, and x.rechunk(c) really computed on
         small arrays with budgets that force 2-3 stages (values vs NumPy, .chunks vs requested).
"""
from __future__ import annotations

import importlib
import itertools
import math

import rechunk_rec as RR
from rechunk_rec import nats

DRIVER = "C14"
RULE = ("planner geometries: rank 1-3; 'small' = extents 1..12 (thorough: 1-D box n<=9 enumerated exhaustively over "
        "sc,tc<=n, itemsize {1,8}, 5 max_mem and 4 min_mem settings), 'large' = extents/chunks log-uniform up to 2^40 "
        "with max_mem up to 2^50 (tight = exactly the larger chunk, loose, below = rejected), min_mem in {0, itemsize, "
        "max_mem//20, log-uniform, > max_mem}; chunks >= 1, itemsize in {1,2,4,8,16}; both planners on every case; "
        "a third of the planner / rechunk_plan / end-to-end cases are 'shrinking-axis' geometries (large source chunk that neither spans nor "
        "divides, tight budget, default min_mem: ~45% give >= 2 regular stages whose first copy must be re-aligned by _fix_copy_chunks) "
        "plus a fixed corpus of such geometries; "
        "rechunk_plan on lazily built arrays (<= 4096 blocks per axis) incl. a cloud work_dir (7 copies); "
        "non-trivial = source != target chunks and the planner accepted; distinct by request text; "
        "end-to-end: arrays of <= 3600 elements (+ one 123k-element corpus case in the thorough tier), allowed_mem chosen so that the default or explicit min_mem forces >= 2 stages")
ASSUMPTIONS = [
    "hypothesis DivOK (float quotient of max_mem / chunk_mem: (f > 1) implies chunk_mem <= max_mem; chunk_mem <= max_mem implies f >= 1 "
    "and int(f) >= 1; int(f) * chunk_mem <= max_mem) — validated on every recorded division (holds for correctly rounded "
    "division when max_mem < 2^53; generators keep max_mem <= 2^50)",
    "hypothesis GeoOK (np.geomspace+floor stage chunks lie inside the per-axis hull of read/write chunks and their product does not "
    "exceed max(prod read, prod write)) — validated on every recorded calculate_stage_chunks / calculate_regular_stage_chunks result",
    "hypothesis RegOK (_multspace: quotient list has num+2 entries, first value = start, returned values stay in [1, stop]; regular stage "
    "chunk product <= max(prod read, prod write)) — validated on every recorded _multspace / calculate_regular_stage_chunks call",
    "ceil(r / s) in _count_intermediate_chunks equals exact ceiling division (r < 2^53); only selects among candidate plans",
    "planners modelled with consolidate_reads = consolidate_writes = True (the only way cubed calls them); chunk sizes >= 1 "
    "(cubed's normalize_chunks/to_chunksize never produce 0 for non-empty arrays)",
]
TRUSTED = ["modelled not verified: np.geomspace, float true division, math.floor (parameters of the model, recorded per case); "
           "np.arange/union1d/diff inside split_chunksizes (model = closed form, compared on every case); normalize_chunks/to_chunksize glue"]

ITEMSIZES = [1, 2, 4, 8, 16]
DTYPES = {1: "int8", 2: "int16", 4: "float32", 8: "float64", 16: "complex128"}


def mods():
    A = importlib.import_module("cubed.vendor.rechunker.algorithm")
    R = importlib.import_module("cubed.core.rechunk")
    O = importlib.import_module("cubed.core.ops")
    return A, R, O


def prod(t):
    return math.prod(int(v) for v in t)


# ----------------------------------------------------------------------------------------------
# validation of the hypotheses the theorems make about the recorded float-dependent numbers
# ----------------------------------------------------------------------------------------------

def hyp_failures(rec, regrec=None):
    bad = []
    regrec = rec.reg if regrec is None else regrec
    a = rec.num
    if rec.mixed_numerators:
        bad.append("divisions with different numerators in one planner call")
    for b, (g, e, h) in rec.div.items():
        if g and not b <= a:
            bad.append("DivOK.gt1: (%d / %d) > 1 as float" % (a, b))
        if b <= a and not e:
            bad.append("DivOK.ge1: (%d / %d) >= 1 is false as float" % (a, b))
        if h * b > a:
            bad.append("DivOK.hr: int(%d / %d) = %d, times divisor exceeds numerator" % (a, b, h))
        if 0 < b <= a and h < 1:
            bad.append("DivOK.hrpos: int(%d / %d) = %d" % (a, b, h))
    for k, (r, w, stages) in list(rec.geo.items()) + list((regrec or {}).items()):
        if len(stages) != k - 1:
            bad.append("GeoOK.len: stage_count %d gave %d stage chunks" % (k, len(stages)))
        for s in stages:
            if len(s) != len(r):
                bad.append("GeoOK.rank: %r for %r -> %r" % (s, r, w))
                continue
            if any(not (1 <= c <= max(x, y)) for c, x, y in zip(s, r, w)):
                bad.append("GeoOK.hull: stage chunk %r not within 1..max of %r and %r" % (s, r, w))
            if prod(s) > max(prod(r), prod(w)):
                bad.append("GeoOK.prod: stage chunk %r larger than both %r and %r" % (s, r, w))
    for (st, sp, num), qs in rec.ms.items():
        if len(qs) != num + 2:
            bad.append("MsOK.len: _multspace(%d,%d,%d) took %d quotients" % (st, sp, num, len(qs)))
            continue
        vint, vals = 1, []
        for q in qs:
            vint = max(q * vint, 1)
            vals.append(vint)
        if vals[0] != st:
            bad.append("MsOK.head: _multspace(%d,%d,%d) starts at %d" % (st, sp, num, vals[0]))
        if any(not (1 <= v <= sp) for v in vals[1:-1]):
            bad.append("MsOK.hull: _multspace(%d,%d,%d) = %r leaves [1, stop]" % (st, sp, num, vals))
    return bad


# ----------------------------------------------------------------------------------------------
# running the real planners
# ----------------------------------------------------------------------------------------------

def show_stages(stages):
    return "ok " + ";".join("%s>%s>%s" % (nats(r), nats(i), nats(w)) for r, i, w in stages)


def run_planner(kind, shape, src, tgt, itemsize, min_mem, max_mem):
    """returns (answer string, stages or None, rec, rec.reg)"""
    A, R, O = mods()
    with RR.recording() as rec:
        f = A.multistage_rechunking_plan if kind == "irr" else R.multistage_regular_rechunking_plan
        try:
            stages = f(tuple(shape), tuple(src), tuple(tgt), itemsize, min_mem, RR.TracedInt(max_mem))
            stages = [tuple(tuple(int(c) for c in t) for t in st) for st in stages]
            ans = show_stages(stages)
        except Exception as e:  # noqa: BLE001 - every outcome is canonicalised
            stages, ans = None, "error " + RR.canon_exc(e)
    return ans, stages, rec, rec.reg


def plan_request(kind, shape, src, tgt, itemsize, min_mem, max_mem, rec):
    return "plan|%s|%s|%s|%s|%d|%d|%d|%s|%s|%s" % (kind, nats(shape), nats(src), nats(tgt), itemsize, min_mem, max_mem,
                                                   RR.div_table(rec), RR.geo_table(rec), RR.ms_table(rec))


# ----------------------------------------------------------------------------------------------
# direct invariants on real planner output (independent of the model)
# ----------------------------------------------------------------------------------------------

def stage_invariant_failures(kind, shape, src, tgt, itemsize, min_mem, max_mem, stages, max_stages):
    bad = []
    if not stages:
        return ["planner returned no stage"]
    if len(stages) >= max_stages:
        bad.append("more stages than MAX_STAGES")
    for k, (r, i, w) in enumerate(stages):
        if not (len(r) == len(i) == len(w) == len(shape)):
            bad.append("stage %d has wrong rank" % k)
            continue
        for nm, c in (("read", r), ("intermediate", i), ("write", w)):
            if any(v < 1 for v in c):
                bad.append("stage %d %s chunk %r has a non-positive entry" % (k, nm, c))
            if itemsize * prod(c) > max_mem:
                bad.append("stage %d %s chunk %r needs %d bytes > max_mem %d" % (k, nm, c, itemsize * prod(c), max_mem))
        if any(iv > min(rv, wv) for rv, iv, wv in zip(r, i, w)):
            bad.append("stage %d intermediate chunk %r does not fit into read %r and write %r" % (k, i, r, w))
        if k + 1 < len(stages) and stages[k + 1][0] != w:
            bad.append("stage %d writes %r but stage %d reads %r" % (k, w, k + 1, stages[k + 1][0]))
        if kind == "reg":
            for ax, (n, rv, iv) in enumerate(zip(shape, r, i)):
                if iv < 1 or not (rv % iv == 0 or rv == n):
                    bad.append("regular stage %d axis %d: copy chunk %d is not a multiple of the chunk it writes (%d) and does not span %d"
                               % (k, ax, rv, iv, n))
            for ax, (n, rv, wv) in enumerate(zip(shape, r, w)):
                if not (rv <= wv or rv % wv == 0 or rv == n):
                    bad.append("regular stage %d axis %d: copy chunk %d neither multiple of written chunk %d nor spanning %d" % (k, ax, rv, wv, n))
    lw = stages[-1][2]
    for ax, (n, wv, tv) in enumerate(zip(shape, lw, tgt)):
        if not (wv % tv == 0 or wv == n):
            bad.append("last write chunk %d on axis %d is neither a multiple of target %d nor the extent %d" % (wv, ax, tv, n))
    return bad


def brute_split(n, sc, tc):
    cuts = sorted(set(range(0, n, sc)) | set(range(0, n, tc)) | {n})
    return [b - a for a, b in zip(cuts, cuts[1:])]


def split_refinement_failures(n, sc, tc, sizes):
    """every copy region (multiples of sc) is a union of whole stored chunks, every stored chunk lies in one copy
    region and in one target chunk, sizes are positive and sum to n, and the refinement is the coarsest one."""
    bad = []
    if sum(sizes) != n or any(s <= 0 for s in sizes):
        return ["sizes %r do not tile [0,%d)" % (sizes, n)]
    cuts = [0]
    for s in sizes:
        cuts.append(cuts[-1] + s)
    cs = set(cuts)
    for a, b in zip(cuts, cuts[1:]):
        if a // sc != (b - 1) // sc:
            bad.append("stored chunk [%d,%d) straddles two copy regions of size %d" % (a, b, sc))
        if a // tc != (b - 1) // tc:
            bad.append("stored chunk [%d,%d) straddles two target chunks of size %d" % (a, b, tc))
    for k in range(0, n, sc):
        if k not in cs:
            bad.append("copy region boundary %d is not a stored chunk boundary" % k)
    for c in cuts[1:-1]:
        if c % sc and c % tc:
            bad.append("boundary %d is in neither grid (not the coarsest refinement)" % c)
    return bad


# ----------------------------------------------------------------------------------------------
# generators
# ----------------------------------------------------------------------------------------------

def logint(rng, hi_bits):
    b = rng.uniform(0, hi_bits)
    return max(1, int(2 ** b))


def gen_small(rng):
    nd = rng.choice([1, 1, 2, 2, 3])
    shape = [rng.randint(1, 12) for _ in range(nd)]
    src = [rng.randint(1, n) for n in shape]
    tgt = [rng.randint(1, n) for n in shape]
    if rng.random() < 0.35 and nd > 1:   # transposition-like: long in one axis -> long in another
        src = [shape[0]] + [1] * (nd - 1)
        tgt = [1] * (nd - 1) + [shape[-1]]
    if rng.random() < 0.03:
        tgt[rng.randrange(nd)] += rng.randint(1, 3)   # chunk larger than the extent: Invalid chunk_limits
    itemsize = rng.choice([1, 8])
    return finish_case(rng, shape, src, tgt, itemsize, 2 ** 12)


def gen_large(rng):
    nd = rng.choice([1, 2, 2, 3, 3])
    bits = {1: 40, 2: 24, 3: 16}[nd]
    shape = [logint(rng, bits) for _ in range(nd)]
    src = [min(n, logint(rng, bits)) for n in shape]
    tgt = [min(n, logint(rng, bits)) for n in shape]
    r = rng.random()
    if r < 0.4 and nd > 1:
        a, b = rng.sample(range(nd), 2)
        src = [1 if i != a else shape[i] for i in range(nd)]
        tgt = [1 if i != b else shape[i] for i in range(nd)]
        if rng.random() < 0.5:
            src = [min(n, max(1, s * logint(rng, 4))) for n, s in zip(shape, src)]
            tgt = [min(n, max(1, t * logint(rng, 4))) for n, t in zip(shape, tgt)]
    itemsize = rng.choice(ITEMSIZES)
    return finish_case(rng, shape, src, tgt, itemsize, 2 ** 50)


def logint2(rng, lo, hi):
    return max(lo, min(hi, int(round(math.exp(rng.uniform(math.log(lo), math.log(hi)))))))


def gen_shrink(rng, hi=None):
    """Geometries that need a multi-stage plan whose first stage *shrinks* an axis on which the (consolidated)
    source chunk neither spans the axis nor is a round multiple, with a tight budget: here `_fix_copy_chunks`
    really has to round the read chunks down to the chunks of the *following* stage (about 45% of these give
    >= 2 regular stages)."""
    nd = rng.choice([2, 2, 2, 3])
    hi = hi or (40000 if rng.random() < 0.5 else 2000)
    shape = [logint2(rng, 30, hi) for _ in range(nd)]
    a, b = rng.sample(range(nd), 2)
    src, tgt = [], []
    for i, n in enumerate(shape):
        if i == a:      # shrinking axis: large source chunk, not spanning, no round multiple
            sc = rng.randint(max(2, n // 4), n - 1)
            tc = rng.randint(1, max(1, sc // 6))
        elif i == b:    # growing axis
            sc = rng.randint(1, max(1, n // 12))
            tc = rng.randint(min(n, sc * 3), n)
        else:
            sc = rng.randint(1, n)
            tc = sc if rng.random() < 0.5 else rng.randint(1, n)
        src.append(sc); tgt.append(tc)
    itemsize = rng.choice([1, 2, 4, 8])
    need = itemsize * max(prod(src), prod(tgt))
    max_mem = need if rng.random() < 0.5 else need + rng.randint(0, need // 2)
    one = itemsize * prod([min(x, y) for x, y in zip(src, tgt)])
    r = rng.random()
    if r < 0.5:
        min_mem = max_mem // 20
    elif r < 0.8 and one + 1 < max_mem // 3:
        min_mem = rng.randint(one + 1, max_mem // 3)
    else:
        min_mem = max_mem // rng.choice([5, 10, 40])
    return dict(shape=shape, src=src, tgt=tgt, itemsize=itemsize, min_mem=min_mem, max_mem=max_mem)


# fixed corpus (always run): multi-stage regular plans whose first copy has to be re-aligned with the first
# intermediate chunks (from /verif/seeded/C14-1) — (shape, src, tgt, itemsize, allowed_mem)
CORPUS_RPLAN = [
    ((198, 622), (115, 33), (8, 407), 4, 121440),
    ((300, 1441), (203, 117), (15, 280), 4, 760032),
    ((1285, 347), (363, 29), (20, 189), 4, 252648),
    ((1329, 1436), (63, 874), (1210, 10), 4, 1321488),
    ((60, 60), (26, 1), (1, 60), 8, 3000),
]
CORPUS_PLAN = [
    dict(shape=[1128, 481], src=[835, 19], tgt=[14, 213], itemsize=4, min_mem=3173, max_mem=63460),
    dict(shape=[300, 1441], src=[203, 117], tgt=[15, 280], itemsize=4, min_mem=7600, max_mem=152006),
    dict(shape=[60, 60], src=[26, 1], tgt=[1, 60], itemsize=8, min_mem=30, max_mem=600),
]


def corpus_rplan_cases():
    out = []
    for shape, src, tgt, itemsize, allowed in CORPUS_RPLAN:
        for irregular in (False, True):
            out.append(dict(shape=list(shape), src=list(src), tgt=list(tgt), itemsize=itemsize, allowed=allowed, reserved=0,
                            cloud=False, min_mem=None, irregular=irregular))
    return out


def gen_rplan_shrink(rng):
    c = gen_shrink(rng, hi=3000)
    copies = 5
    allowed = c["max_mem"] * copies + rng.randint(0, copies - 1)
    return dict(shape=c["shape"], src=c["src"], tgt=c["tgt"], itemsize=c["itemsize"], allowed=allowed, reserved=0, cloud=False,
                min_mem=None if rng.random() < 0.6 else c["min_mem"], irregular=rng.random() < 0.25)


def finish_case(rng, shape, src, tgt, itemsize, cap):
    need = max(itemsize * prod(src), itemsize * prod(tgt))
    r = rng.random()
    if r < 0.25:
        max_mem = need                                  # tight: exactly the larger chunk
    elif r < 0.35:
        max_mem = need + rng.randint(1, max(1, need // 3))
    elif r < 0.42:
        max_mem = max(0, need - rng.randint(1, max(1, need // 2)))   # below: rejected
    else:
        hi = max(need + 1, min(cap, need * 2 ** rng.randint(1, 12)))
        max_mem = rng.randint(need, hi)
    max_mem = min(max_mem, 2 ** 50)
    r = rng.random()
    one_stage_int = itemsize * prod([min(a, b) for a, b in zip(src, tgt)])
    if r < 0.1:
        min_mem = 0
    elif r < 0.2:
        min_mem = itemsize
    elif r < 0.45:
        min_mem = min(max_mem // 20, itemsize * prod(shape))
    elif r < 0.7 and one_stage_int < max_mem:
        min_mem = rng.randint(one_stage_int + 1, max_mem)       # forces the planner to try >= 2 stages
    elif r < 0.93:
        min_mem = logint(rng, max(1.0, math.log2(max(2, max_mem)))) if max_mem > 0 else 0
        min_mem = min(min_mem, max_mem)
    elif r < 0.97:
        min_mem = max_mem
    else:
        min_mem = max_mem + rng.randint(1, 5)           # rejected
    return dict(shape=shape, src=src, tgt=tgt, itemsize=itemsize, min_mem=min_mem, max_mem=max_mem)


def enum_1d():
    for n in range(1, 10):
        for sc in range(1, n + 1):
            for tc in range(1, n + 1):
                for itemsize in (1, 8):
                    need = itemsize * max(sc, tc)
                    for max_mem in (need, need + 1, 2 * need, 3 * need + 1, itemsize * n * 2):
                        for min_mem in (0, itemsize, max_mem // 20, max_mem):
                            yield dict(shape=[n], src=[sc], tgt=[tc], itemsize=itemsize, min_mem=min_mem, max_mem=max_mem)


# ----------------------------------------------------------------------------------------------
# correspondence
# ----------------------------------------------------------------------------------------------

def corr_units(ctx, n):
    """split_chunksizes, consolidate_chunks, _fix_copy_chunks, multspace against the model."""
    A, R, O = mods()
    rng = ctx.rng
    reqs, exp, info = [], [], []
    # split_chunksizes
    cases = []
    if ctx.tier == "thorough":
        cases += [(m, s, t) for m in range(0, 15) for s in range(1, 17) for t in range(1, 17)]
    for _ in range(n):
        if rng.random() < 0.5:
            m = rng.randint(0, 60)
            cases.append((m, rng.randint(1, 25), rng.randint(1, 25)))
        else:
            s, t = logint(rng, 30), logint(rng, 30)
            m = min(logint(rng, 40), 300 * min(s, t))
            cases.append((m, s, t))
    for m, s, t in cases:
        sizes = [int(v) for v in O.split_chunksizes(m, s, t)]
        reqs.append("split|%d|%d|%d" % (m, s, t))
        exp.append("ok " + nats(sizes))
        info.append(("split", m > max(s, t) and s != t))
        for b in split_refinement_failures(m, s, t, sizes):
            ctx.fail("split_chunksizes(%d,%d,%d): %s" % (m, s, t, b), {"fn": "split_chunksizes", "n": m, "sc": s, "tc": t})
        if m <= 5000 and sizes != brute_split(m, s, t):
            ctx.fail("split_chunksizes(%d,%d,%d) is not the common refinement of the two grids" % (m, s, t),
                     {"fn": "split_chunksizes", "n": m, "sc": s, "tc": t})
    # consolidate_chunks with explicit limits
    for _ in range(n):
        c = (gen_small if rng.random() < 0.6 else gen_large)(rng)
        shape, chunks, itemsize, max_mem = c["shape"], c["src"], c["itemsize"], c["max_mem"]
        r = rng.random()
        if r < 0.4:
            lims, ls = None, "-"
        else:
            lims = []
            for nn, ch in zip(shape, chunks):
                q = rng.random()
                lims.append(None if q < 0.3 else -1 if q < 0.4 else rng.randint(ch, nn) if q < 0.8 else
                            nn + rng.randint(1, 3) if q < 0.9 else rng.randint(0, max(0, ch - 1)))
            ls = ",".join("N" if v is None else "U" if v == -1 else str(v) for v in lims)
        with RR.recording() as rec:
            try:
                out = A.consolidate_chunks(tuple(shape), tuple(chunks), itemsize, RR.TracedInt(max_mem), lims)
                ans = "ok " + nats(out)
                if itemsize * prod(out) > max_mem:
                    ctx.fail("consolidate_chunks result %r needs %d bytes > max_mem %d" % (out, itemsize * prod(out), max_mem),
                             {"fn": "consolidate_chunks", "shape": shape, "chunks": chunks, "itemsize": itemsize, "max_mem": max_mem, "limits": lims})
            except Exception as e:  # noqa: BLE001
                ans = "error " + RR.canon_exc(e)
        for h in hyp_failures(rec):
            ctx.disagree("hypothesis " + h.split(":")[0], {"fn": "consolidate_chunks", "case": c, "limits": ls}, "assumed", h)
        reqs.append("cons|%s|%s|%d|%d|%s|%s" % (nats(shape), nats(chunks), itemsize, max_mem, ls, RR.div_table(rec)))
        exp.append(ans)
        info.append(("cons:" + ans.split(" ")[0], ans.startswith("ok") and ans != "ok " + nats(chunks)))
    # _fix_copy_chunks
    for _ in range(n):
        nd = rng.randint(1, 3)
        big = rng.random() < 0.4
        shape = [logint(rng, 40) if big else rng.randint(1, 30) for _ in range(nd)]
        copy = [n_ if rng.random() < 0.2 else rng.randint(1, n_) for n_ in shape]
        tgt = [rng.randint(1, n_) if rng.random() < 0.6 else max(1, c_ // rng.randint(1, 6)) for n_, c_ in zip(shape, copy)]
        out = R._fix_copy_chunks(tuple(shape), tuple(copy), tuple(tgt))
        reqs.append("fix|%s|%s|%s" % (nats(shape), nats(copy), nats(tgt)))
        exp.append("ok " + nats(out))
        info.append(("fix", tuple(out) != tuple(copy)))
        for nn, o, c_, t in zip(shape, out, copy, tgt):
            if not (o <= t or o == nn or o % t == 0) or o > c_ or o < 1:
                ctx.fail("_fix_copy_chunks(%r,%r,%r) = %r is not aligned / not a reduction" % (shape, copy, tgt, out),
                         {"fn": "_fix_copy_chunks", "shape": shape, "copy": copy, "target": tgt})
    # multspace
    for _ in range(n):
        a, b = logint(rng, 40), logint(rng, 40)
        if rng.random() < 0.2:
            b = a
        num = rng.randint(0, 8)
        with RR.recording() as rec:
            out = R.multspace(a, b, num)
        for h in hyp_failures(rec):
            ctx.disagree("hypothesis " + h.split(":")[0], {"fn": "multspace", "start": a, "stop": b, "num": num}, "assumed", h)
        reqs.append("ms|%d|%d|%d|%s" % (a, b, num, RR.ms_table(rec)))
        exp.append("ok " + nats(out))
        info.append(("ms", num > 0 and a != b))
        if len(out) != num or any(not (1 <= v <= max(a, b)) for v in out):
            ctx.fail("multspace(%d,%d,%d) = %r: wrong length or values outside [1, max(start, stop)]" % (a, b, num, out),
                     {"fn": "multspace", "start": a, "stop": b, "num": num})
    ans = ctx.lean.drive(DRIVER, reqs)
    for rq, e, a, (kind, nontriv) in zip(reqs, exp, ans, info):
        ctx.count({"req": rq[:300], "impl": e[:200]}, nontrivial=nontriv, kind=kind)
        if e != a:
            ctx.disagree("model = " + rq.split("|")[0], {"request": rq[:2000]}, a[:500], e[:500])


def planner_cases(ctx, n_small, n_large):
    rng = ctx.rng
    cases = []
    if ctx.tier == "thorough":
        cases += list(enum_1d())
        ctx.exhaustive = True
        ctx.notes.append("exhaustive: 1-D planner box n<=9 (enum_1d) and split_chunksizes n<15, sc,tc<=16")
    cases += [dict(c) for c in CORPUS_PLAN]
    cases += [gen_small(rng) for _ in range(n_small)]
    cases += [gen_large(rng) for _ in range(n_large)]
    cases += [gen_shrink(rng) for _ in range((n_small + n_large) // 3)]
    return cases


def corr_planners(ctx, cases):
    A, R, O = mods()
    reqs, exp, meta = [], [], []
    for c in cases:
        for kind in ("irr", "reg"):
            ans, stages, rec, reg = run_planner(kind, c["shape"], c["src"], c["tgt"], c["itemsize"], c["min_mem"], c["max_mem"])
            case = dict(c, planner=kind)
            for h in hyp_failures(rec, reg):
                ctx.disagree("hypothesis " + h.split(":")[0], case, "assumed", h)
            reqs.append(plan_request(kind, c["shape"], c["src"], c["tgt"], c["itemsize"], c["min_mem"], c["max_mem"], rec))
            exp.append(ans)
            meta.append((case, stages))
            ctx.traces += 1
            # direct oracle on the real output
            if stages is None:
                err = ans[len("error "):]
                if err not in RR.EXPLICIT_ERRORS:
                    ctx.fail("planner ended with %s instead of a plan or an explicit ValueError" % err, case)
            else:
                for b in stage_invariant_failures(kind, c["shape"], c["src"], c["tgt"], c["itemsize"], c["min_mem"], c["max_mem"],
                                                  stages, A.MAX_STAGES):
                    ctx.fail(b, case)
    ans = ctx.lean.drive(DRIVER, reqs)
    for rq, e, a, (case, stages) in zip(reqs, exp, ans, meta):
        nst = len(stages) if stages else 0
        ctx.count({"case": case, "impl": e[:300]}, nontrivial=stages is not None and case["src"] != case["tgt"],
                  kind="plan:%s:%s" % (case["planner"], "error" if stages is None else "%dstage" % min(nst, 4)))
        if e != a:
            ctx.disagree("%sPlan = real planner" % ("irregular" if case["planner"] == "irr" else "regular"),
                         dict(case, request=rq[:3000]), a[:600], e[:600])


def gen_rplan(rng):
    nd = rng.choice([1, 2, 2, 3])
    big = rng.random() < 0.5
    shape, src, tgt = [], [], []
    for _ in range(nd):
        if big:
            n = logint(rng, 30)
            lo = max(1, n // 4096)
            s, t = rng.randint(lo, n), rng.randint(lo, n)
            if rng.random() < 0.3:
                s = lo
            if rng.random() < 0.3:
                t = n
        else:
            n = rng.randint(1, 30)
            s, t = rng.randint(1, n), rng.randint(1, n)
        shape.append(n); src.append(s); tgt.append(t)
    transp = nd > 1 and rng.random() < 0.35
    if transp:          # transposition-like: long along the first axis -> long along the last; forces several stages
        src = [shape[0]] + [max(1, n // 4096) for n in shape[1:]]
        tgt = [max(1, n // 4096) for n in shape[:-1]] + [shape[-1]]
    if rng.random() < 0.05:
        shape[rng.randrange(nd)] = 0
    itemsize = rng.choice(ITEMSIZES)
    need = itemsize * max(prod(src), prod(tgt), 1)
    cloud = rng.random() < 0.25
    copies = 7 if cloud else 5
    r = rng.random()
    if r < 0.3:
        allowed = need * copies + rng.randint(0, copies - 1)
    elif r < 0.4:
        allowed = max(1, need * copies - rng.randint(1, copies))      # just below: rejected
    else:
        allowed = need * copies * 2 ** rng.randint(0, 10) + rng.randint(0, 1000)
    reserved = 0 if rng.random() < 0.6 else rng.randint(0, allowed // 3)
    allowed += reserved
    r = rng.random()
    min_mem = None if (r < 0.6 or transp) else 0 if r < 0.7 else rng.randint(0, max(1, (allowed - reserved) // copies))
    return dict(shape=shape, src=src, tgt=tgt, itemsize=itemsize, allowed=allowed, reserved=reserved, cloud=cloud,
                min_mem=min_mem, irregular=rng.random() < 0.5)


def real_rechunk_plan(c):
    """rechunk_plan on a lazily built array; returns (answer, ops or None, rec, request)"""
    import cubed
    import cubed.array_api as xp
    from cubed.utils import normalize_chunks, to_chunksize
    A, R, O = mods()
    spec = cubed.Spec(work_dir="s3://verif-no-such-bucket/tmp" if c["cloud"] else None,
                      allowed_mem=c["allowed"], reserved_mem=c["reserved"])
    shape = tuple(c["shape"])
    x = xp.empty(shape, dtype=DTYPES[c["itemsize"]], chunks=tuple(c["src"]), spec=spec)
    src = x.chunksize
    tgt = to_chunksize(normalize_chunks(tuple(c["tgt"]), shape, dtype=x.dtype))
    with RR.recording() as rec:
        try:
            plan = R.rechunk_plan(x, tuple(c["tgt"]), min_mem=c["min_mem"], allow_irregular=c["irregular"])
            ops = [(tuple(o.source_chunks), tuple(o.copy_chunks), tuple(o.target_chunks)) for o in plan.copy_ops]
            body = ";".join("%s>%s>%s" % (nats(a), nats(b), nats(d)) for a, b, d in ops)
            ans = "ok " + body
        except Exception as e:  # noqa: BLE001
            ops, ans = None, "error " + RR.canon_exc(e)
    cr = cw = 2 if c["cloud"] else 1
    req = "rplan|%s|%s|%s|%s|%d|%d|%d|%d|%d|%s|%s|%s|%s" % (
        "irr" if c["irregular"] else "reg", nats(shape), nats(src), nats(tgt), c["itemsize"], c["allowed"], c["reserved"], cr, cw,
        "N" if c["min_mem"] is None else str(c["min_mem"]), RR.div_table(rec), RR.geo_table(rec), RR.ms_table(rec))
    return ans, ops, rec, req, src, tgt


def ops_invariant_failures(c, ops, src, tgt, rec):
    bad = []
    O = mods()[2]
    shape = c["shape"]
    copies = 7 if c["cloud"] else 5
    if not ops:
        if tuple(src) != tuple(tgt) and prod(shape) != 0:
            bad.append("no copy op although source chunks %r differ from requested %r" % (src, tgt))
        return bad
    if ops[0][0] != tuple(src):
        bad.append("first copy op reads chunks %r, the array has %r" % (ops[0][0], src))
    if ops[-1][2] != tuple(tgt):
        bad.append("last copy op writes chunks %r, requested %r" % (ops[-1][2], tgt))
    for k, (s, cp, t) in enumerate(ops):
        if k and ops[k - 1][2] != s:
            bad.append("copy op %d reads chunks %r but op %d wrote %r" % (k, s, k - 1, ops[k - 1][2]))
        mem = c["itemsize"] * prod(cp)
        if mem * copies > c["allowed"] - c["reserved"]:
            bad.append("copy op %d: copy chunk %r needs %d bytes x %d copies > allowed - reserved = %d" % (
                k, cp, mem, copies, c["allowed"] - c["reserved"]))
        if c["itemsize"] * prod(t) > c["allowed"] - c["reserved"]:
            bad.append("copy op %d: target chunk %r exceeds the memory budget" % (k, t))
        for ax, (n, cc, tc) in enumerate(zip(shape, cp, t)):
            if c["irregular"]:
                if n <= 20000:
                    sizes = [int(v) for v in O.split_chunksizes(n, cc, tc)]
                    for b in split_refinement_failures(n, cc, tc, sizes):
                        bad.append("copy op %d axis %d: %s" % (k, ax, b))
                    if k == len(ops) - 1:
                        want = [tc] * (n // tc) + ([n % tc] if n % tc else [])
                        if sizes != want:
                            bad.append("last copy op axis %d stores chunks %r, requested regular chunks of %d" % (ax, sizes[:8], tc))
            elif not (cc % tc == 0 or cc >= n):
                bad.append("copy op %d axis %d: copy chunk %d is neither a multiple of the written chunk %d nor spans the axis (%d)" % (k, ax, cc, tc, n))
    return bad


def corr_rplan(ctx, n):
    reqs, exp, meta = [], [], []
    cases = corpus_rplan_cases() + [gen_rplan(ctx.rng) if k % 3 else gen_rplan_shrink(ctx.rng) for k in range(n)]
    for c in cases:
        ans, ops, rec, req, src, tgt = real_rechunk_plan(c)
        for h in hyp_failures(rec):
            ctx.disagree("hypothesis " + h.split(":")[0], c, "assumed", h)
        mm = "mm=%d,%d" % (rec.planner_calls[0][1]["max_mem"], rec.planner_calls[0][1]["min_mem"]) if rec.planner_calls else None
        reqs.append(req); exp.append((ans, mm)); meta.append((c, ops))
        ctx.traces += 1
        if ops is None:
            err = ans[len("error "):]
            if err not in RR.EXPLICIT_ERRORS:
                ctx.fail("rechunk_plan ended with %s instead of a plan or an explicit ValueError" % err, c)
        else:
            for b in ops_invariant_failures(c, ops, src, tgt, rec):
                ctx.fail(b, c)
    ans = ctx.lean.drive(DRIVER, reqs)
    for rq, (e, mm), a, (c, ops) in zip(reqs, exp, ans, meta):
        ctx.count({"rechunk_plan": c, "impl": e[:300]}, nontrivial=bool(ops), kind="rplan:%s" % ("error" if ops is None else "%dops" % min(len(ops), 5)))
        got = a
        if a.startswith("ok mm="):
            head, _, body = a[3:].partition(" ")
            got = "ok " + body
            if mm is not None and head != mm:
                ctx.disagree("rechunkerMaxMem/defaultMinMem = budget passed by _rechunk_plan", dict(c, request=rq[:2000]), head, mm)
        if e != got:
            ctx.disagree("copyOps (rechunkPlanOps) = rechunk_plan", dict(c, request=rq[:3000]), a[:600], e[:600])


def corr(ctx):
    corr_units(ctx, ctx.budget(150, 1500))
    corr_planners(ctx, planner_cases(ctx, ctx.budget(250, 2500), ctx.budget(350, 4000)))
    corr_rplan(ctx, ctx.budget(200, 2000))


# ----------------------------------------------------------------------------------------------
# direct oracle: really rechunk
# ----------------------------------------------------------------------------------------------

ALLOWED_E2E_ERRORS = ("Source chunk memory", "Target chunk memory", "max_mem (", "Projected blockwise memory", "Invalid chunk_limits")


def gen_e2e(rng):
    nd = rng.choice([1, 2, 2, 2, 3])
    while True:
        shape = [rng.randint(1, 24 if nd < 3 else 8) for _ in range(nd)]
        if prod(shape) <= 600:
            break
    src = [rng.randint(1, n) for n in shape]
    tgt = [rng.randint(1, n) for n in shape]
    if nd > 1 and rng.random() < 0.6:       # transposition-like geometries force several stages
        src = [shape[0]] + [1] * (nd - 1)
        tgt = [1] * (nd - 1) + [shape[-1]]
    itemsize = rng.choice([1, 2, 4, 8])
    need = itemsize * max(prod(src), prod(tgt))
    r = rng.random()
    slack = 0 if r < 0.5 else rng.randint(0, need) if r < 0.9 else -rng.randint(1, need)
    allowed = max(1, (need + slack) * 5 + rng.randint(0, 4))
    max_mem = allowed // 5
    r = rng.random()
    min_mem = None if r < 0.3 else max(1, max_mem // rng.choice([1, 2, 3, 5])) if r < 0.9 else 0
    return dict(shape=shape, src=src, tgt=tgt, itemsize=itemsize, allowed=allowed, min_mem=min_mem, irregular=rng.random() < 0.5)


def gen_e2e_shrink(rng):
    n0, n1 = rng.randint(20, 64), rng.randint(8, 20)
    sc0 = rng.randint(max(2, n0 // 3), n0 - 1)
    itemsize = rng.choice([1, 2, 4, 8])
    src, tgt = [sc0, rng.randint(1, 2)], [rng.randint(1, max(1, sc0 // 8)), rng.randint(n1 // 2, n1)]
    need = itemsize * max(prod(src), prod(tgt))
    allowed = (need + rng.randint(0, need // 4)) * 5
    return dict(shape=[n0, n1], src=src, tgt=tgt, itemsize=itemsize, allowed=allowed, min_mem=None, irregular=rng.random() < 0.2)


E2E_CORPUS = [
    dict(shape=[60, 60], src=[26, 1], tgt=[1, 60], itemsize=8, allowed=3000, min_mem=None, irregular=False),
    dict(shape=[60, 60], src=[26, 1], tgt=[1, 60], itemsize=8, allowed=3000, min_mem=None, irregular=True),
    dict(shape=[198, 622], src=[115, 33], tgt=[8, 407], itemsize=4, allowed=121440, min_mem=None, irregular=False),
]


def e2e(ctx, n):
    import warnings

    import numpy as np
    warnings.simplefilter("ignore")

    import cubed
    import cubed.array_api as xp
    from cubed.utils import normalize_chunks
    R = mods()[1]
    corpus = E2E_CORPUS if ctx.tier == "thorough" else E2E_CORPUS[:2]   # the 123k-element case only in the thorough tier
    cases = [dict(c) for c in corpus] + [gen_e2e(ctx.rng) if k % 3 else gen_e2e_shrink(ctx.rng) for k in range(n)]
    for c in cases:
        shape = tuple(c["shape"])
        dt = {1: "int8", 2: "int16", 4: "int32", 8: "int64"}[c["itemsize"]]
        an = (np.arange(prod(shape)) % 113).astype(dt).reshape(shape)
        spec = cubed.Spec(allowed_mem=c["allowed"], reserved_mem=0)
        nops = None
        try:
            x = xp.asarray(an, chunks=tuple(c["src"]), spec=spec)
            nops = len(R.rechunk_plan(x, tuple(c["tgt"]), min_mem=c["min_mem"], allow_irregular=c["irregular"]).copy_ops)
            y = x.rechunk(tuple(c["tgt"]), min_mem=c["min_mem"], allow_irregular=c["irregular"])
            chunks = y.chunks
            res = y.compute()
        except ValueError as e:
            ok = any(str(e).startswith(p) or p in str(e)[:200] for p in ALLOWED_E2E_ERRORS)
            ctx.count({"e2e": c, "outcome": "ValueError"}, nontrivial=False, kind="e2e:rejected")
            if not ok:
                ctx.fail("rechunk raised an unexpected ValueError: %s" % str(e)[:200], c)
            continue
        except Exception as e:  # noqa: BLE001
            ctx.fail("rechunk raised %s: %s" % (type(e).__name__, str(e)[:200]), c)
            continue
        ctx.count({"e2e": c, "ops": nops}, nontrivial=bool(nops), kind="e2e:%sops" % min(nops, 5))
        want = normalize_chunks(tuple(c["tgt"]), shape, dtype=an.dtype)
        if chunks != want:
            ctx.fail("x.rechunk(%r).chunks = %r, requested %r" % (c["tgt"], chunks, want), c)
        if res.shape != an.shape or not np.array_equal(res, an):
            ctx.fail("x.rechunk(%r) does not preserve the elements" % (c["tgt"],), c)


def oracle_planners(ctx, n):
    """stage invariants on real planner output for fresh geometries, no Lean involved."""
    A = mods()[0]
    cases = [dict(c) for c in CORPUS_PLAN]
    for _ in range(n):
        r = ctx.rng.random()
        cases.append((gen_small if r < 0.25 else gen_large if r < 0.6 else gen_shrink)(ctx.rng))
    for c in cases:
        for kind in ("irr", "reg"):
            ans, stages, rec, reg = run_planner(kind, c["shape"], c["src"], c["tgt"], c["itemsize"], c["min_mem"], c["max_mem"])
            case = dict(c, planner=kind)
            ctx.count({"oracle": case}, nontrivial=stages is not None and c["src"] != c["tgt"], kind="oracle:" + kind)
            if stages is None:
                if ans[len("error "):] not in RR.EXPLICIT_ERRORS:
                    ctx.fail("planner ended with %s instead of a plan or an explicit ValueError" % ans[6:], case)
                continue
            for b in stage_invariant_failures(kind, c["shape"], c["src"], c["tgt"], c["itemsize"], c["min_mem"], c["max_mem"], stages, A.MAX_STAGES):
                ctx.fail(b, case)


def oracle_rplan(ctx, n):
    cases = corpus_rplan_cases() + [gen_rplan(ctx.rng) if k % 2 else gen_rplan_shrink(ctx.rng) for k in range(n)]
    for c in cases:
        ans, ops, rec, req, src, tgt = real_rechunk_plan(c)
        ctx.count({"oracle_rplan": c}, nontrivial=bool(ops), kind="oracle:rplan")
        if ops is None:
            if ans[len("error "):] not in RR.EXPLICIT_ERRORS:
                ctx.fail("rechunk_plan ended with %s instead of a plan or an explicit ValueError" % ans[6:], c)
            continue
        for b in ops_invariant_failures(c, ops, src, tgt, rec):
            ctx.fail(b, c)


def oracle(ctx):
    oracle_planners(ctx, ctx.budget(300, 4000))
    oracle_rplan(ctx, ctx.budget(100, 1000))
    e2e(ctx, ctx.budget(45, 400))


def search(ctx):
    ctx.rng.seed(ctx.seed + 7919)
    oracle_planners(ctx, 3000)
    oracle_rplan(ctx, 600)
    e2e(ctx, 150)
    # lift disagreeing planner inputs to direct invariant checks
    A = mods()[0]
    for d in ctx.disagreements[:50]:
        c = d["case"]
        if isinstance(c, dict) and "planner" in c and "max_mem" in c:
            ans, stages, rec, reg = run_planner(c["planner"], c["shape"], c["src"], c["tgt"], c["itemsize"], c["min_mem"], c["max_mem"])
            if stages:
                for b in stage_invariant_failures(c["planner"], c["shape"], c["src"], c["tgt"], c["itemsize"], c["min_mem"], c["max_mem"], stages, A.MAX_STAGES):
                    ctx.fail(b, c)
