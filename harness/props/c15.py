"""C15 — blockwise block addressing follows the index expression, before and after fusion.

corr   : real make_blockwise_back_key_function_flattened / fuse_blockwise_specs  vs  Lean model (drivers/C15.lean)
oracle : the same real functions vs an independent three-line Python reference / unfused evaluation, plus
         end-to-end cubed expressions whose plan key functions are checked against the reference and NumPy.
"""
from __future__ import annotations

import itertools

from treeproto import nats, show_tree

DRIVER = "C15"
RULE = ("index expressions: <=4 symbols, <=3 arguments, block counts {1,2,3}, optional new axes, every out key of the "
        "output grid (quick: seeded sample, thorough: exhaustive up to the stated bounds); fusion trees: depth <=3 over "
        "key-function shapes {one-to-one, several args, list, stream, alternating, concatenating, repeated argument}; "
        "non-trivial = at least one argument with >1 block or a fused predecessor; distinct by request text")
ASSUMPTIONS = [
    "hypothesis NameIndep (key functions label results with out_key.name and ignore the key's name otherwise) — checked on every real key function evaluated",
    "hypothesis Unfused (unfused key functions return single keys, flat lists or flat streams) — checked likewise",
]
TRUSTED = ["modelled not verified: Python dict/set iteration inside _get_coord_mapping (shown order-independent by entry_eq_ref)"]


# ----------------------------------------------------------------------------------------------
# index expressions
# ----------------------------------------------------------------------------------------------

def gen_expr(rng, exhaustive_pool=None):
    nsym = rng.randint(1, 4)
    syms = list(range(nsym))
    nargs = rng.randint(1, 3)
    dims = {s: rng.choice([1, 2, 3]) for s in syms}
    args = []
    names = ["x", "y", "z"]
    for a in range(nargs):
        k = rng.randint(0, min(3, nsym))
        ind = rng.sample(syms, k)
        if rng.random() < 0.05 and ind:
            ind.append(rng.choice(ind))  # repeated symbol inside one argument
        nb = [dims[s] if rng.random() < 0.7 else 1 for s in ind]
        if rng.random() < 0.04 and nb:
            nb[rng.randrange(len(nb))] = rng.choice([2, 3])  # possibly inconsistent -> "Shapes do not align"
        name = names[a] if rng.random() < 0.9 or a == 0 else names[0]
        if name == names[0] and a > 0:
            # the same array again (numblocks is keyed by name, so its block counts are those of the first
            # occurrence), under the same or a PERMUTED index pattern (x 'ij' with x 'ji' as in matmul(a, a))
            ind, nb = list(args[0][1]), list(args[0][2])
            if len(ind) > 1 and rng.random() < 0.6:
                if rng.random() < 0.5:
                    nb = [nb[0]] * len(nb)          # square block grid: the permuted pattern is consistent
                    args[0] = (args[0][0], args[0][1], list(nb))
                ind = rng.sample(ind, len(ind))
        args.append((name, ind, nb))
    used = sorted({s for _, ind, _ in args for s in ind})
    r = rng.random()
    if r < 0.6:
        out = list(used)
        rng.shuffle(out)
    elif r < 0.9:
        out = [s for s in used if rng.random() < 0.6]  # some indices contracted (dummy)
        rng.shuffle(out)
    else:
        out = list(used)
        rng.shuffle(out)
        if out and rng.random() < 0.5:
            out.append(rng.choice(out))  # repeated out index
    new_axes = {}
    if rng.random() < 0.25:
        k = nsym + rng.randint(0, 1)
        new_axes[k] = rng.choice([1, 2])
        out.insert(rng.randint(0, len(out)), k)
    return out, args, new_axes


def real_bw(out, args, new_axes):
    """Build the real key function; return ('error', msg) or ('fn', f, dims)."""
    from cubed.primitive.blockwise import make_blockwise_back_key_function_flattened
    from cubed.vendor.dask.blockwise import _make_dims
    numblocks = {name: tuple(nb) for name, _, nb in args}
    pairs = []
    for name, ind, _ in args:
        pairs.extend([name, tuple(ind)])
    na = {k: (1,) * v for k, v in new_axes.items()}
    try:
        f = make_blockwise_back_key_function_flattened(lambda *a: None, "out", tuple(out), *pairs, numblocks=numblocks, new_axes=na)
        dims = _make_dims([(n, tuple(i)) for n, i, _ in args], numblocks, na)
    except ValueError as e:
        msg = str(e)
        for known in ("Shapes do not align", "Cannot have multiple chunks in dropped axis"):
            if msg.startswith(known):
                return ("error", known)
        return ("error", msg[:40])
    return ("fn", f, dims)


def real_key(f, coords):
    from cubed.primitive.blockwise import ChunkKey, FunctionArgs
    try:
        fa = f(ChunkKey("out", tuple(coords)))
    except Exception:
        return "malformed"
    if not isinstance(fa, FunctionArgs):
        return "malformed"
    for a in fa.args:
        if not isinstance(a, ChunkKey) or not isinstance(a.name, str) or not all(isinstance(c, int) for c in a.coords):
            return "malformed"
    return "ok " + show_tree(fa)


def ref_key(out, args, new_axes, coords):
    """Independent reference (three-line reading of the index expression) for well-formed, non-contracting cases."""
    keys = []
    for name, ind, nb in args:
        cs = []
        for i, n in zip(ind, nb):
            if n == 1:
                cs.append(0)
            else:
                p = max(idx for idx, s in enumerate(out) if s == i)
                cs.append(coords[p])
        keys.append("K:%s:%s" % (name, ",".join(map(str, cs))))
    return "ok (F:out %s)" % " ".join(keys)


def bw_request(out, args, new_axes, coords):
    a = ";".join("%s:%s:%s" % (n, ",".join(map(str, i)), ",".join(map(str, b))) for n, i, b in args) or "-"
    na = ",".join("%d=%d" % kv for kv in sorted(new_axes.items())) or "-"
    return "bwkey|%s|%s|%s|out|%s" % (",".join(map(str, out)), a, na, ",".join(map(str, coords)))


def out_grid(out, dims, cap, rng):
    ranges = [range(max(1, int(dims.get(s, 1)))) for s in out]
    allc = list(itertools.islice(itertools.product(*ranges), 200))
    if len(allc) > cap:
        allc = rng.sample(allc, cap)
    return allc


def all_exprs_exhaustive():
    """Thorough tier: every expression with <=2 arguments over <=3 symbols (each argument a permutation of a subset),
    block counts {1,2,3} per symbol with optional broadcast per axis, out = every permutation of every subset."""
    for nsym in (1, 2, 3):
        syms = list(range(nsym))
        subsets = [list(p) for r in range(0, nsym + 1) for c in itertools.combinations(syms, r) for p in itertools.permutations(c)]
        for dimsv in itertools.product([1, 2, 3], repeat=nsym):
            if nsym == 3 and 3 in dimsv and dimsv.count(3) > 1:
                continue
            for nargs in (1, 2):
                for inds in itertools.product(subsets, repeat=nargs):
                    used = sorted({s for ind in inds for s in ind})
                    if not used:
                        continue
                    for bc in itertools.product([False, True], repeat=sum(len(i) for i in inds)):
                        if sum(bc) > 1:
                            continue
                        it = iter(bc)
                        args = []
                        for n, ind in zip("xy", inds):
                            args.append((n, list(ind), [1 if next(it) else dimsv[s] for s in ind]))
                        for r in range(len(used), max(len(used) - 2, -1), -1):
                            for oc in itertools.combinations(used, r):
                                for out in itertools.permutations(oc):
                                    yield list(out), args, {}


def corr_bw(ctx):
    cases = []
    if ctx.tier == "thorough":
        gen = itertools.chain((gen_expr(ctx.rng) for _ in range(1500)), itertools.islice(all_exprs_exhaustive(), 0, None, 7))
        cap_keys = 6
    else:
        gen = (gen_expr(ctx.rng) for _ in range(500))
        cap_keys = 4
    reqs, exp, meta = [], [], []
    for out, args, new_axes in gen:
        r = real_bw(out, args, new_axes)
        if r[0] == "error":
            reqs.append(bw_request(out, args, new_axes, [0] * len(out)))
            exp.append("error " + r[1])
            meta.append((out, args, new_axes, None))
            ctx.dist["bw:error"] += 1
            continue
        _, f, dims = r
        for k, v in new_axes.items():
            dims[k] = v
        for coords in out_grid(out, dims, cap_keys, ctx.rng):
            reqs.append(bw_request(out, args, new_axes, coords))
            exp.append(real_key(f, coords))
            meta.append((out, args, new_axes, list(coords)))
        if len(reqs) > 60000:
            break
    ans = ctx.lean.drive(DRIVER, reqs)
    for rq, e, a, m in zip(reqs, exp, ans, meta):
        nontrivial = any(b > 1 for _, _, nb in m[1] for b in nb)
        ctx.count({"bwkey": rq, "impl": e}, nontrivial=nontrivial, kind="bw:" + e.split(" ")[0])
        if e != a:
            ctx.disagree("Bw.keyFn = make_blockwise_back_key_function_flattened", {"request": rq}, a, e)


# ----------------------------------------------------------------------------------------------
# fusion trees
# ----------------------------------------------------------------------------------------------

NCOORD = 4


def render(v):
    from collections.abc import Iterator
    if isinstance(v, str):
        return v
    if isinstance(v, list):
        return "[" + ",".join(render(a) for a in v) + "]"
    if isinstance(v, (Iterator,)):
        return "<" + ",".join(render(a) for a in v) + ">"
    if isinstance(v, tuple):
        return "(" + ",".join(render(a) for a in v) + ")"
    return "?%r" % (v,)


SHAPES = ["one", "several", "list", "stream", "alternating", "concat", "repeated"]


def gen_table(rng, shape, srcs):
    """key table for coords 0..NCOORD-1 : coords -> list of args, each arg = ('K',name,c) | ('L',[...]) | ('I',[...])"""
    tab = {}
    for c in range(NCOORD):
        if shape == "one":
            args = [("K", srcs[0], (c + 0) % NCOORD)]
        elif shape == "several":
            args = [("K", s, (c + j) % NCOORD) for j, s in enumerate(srcs)]
        elif shape == "repeated":
            args = [("K", srcs[0], c), ("K", srcs[0], c)]
        elif shape == "list":
            args = [("L", [("K", srcs[0], (c + j) % NCOORD) for j in range(rng.randint(1, 3))])]
            if len(srcs) > 1:
                args.append(("K", srcs[1], c))
        elif shape == "stream":
            args = [("I", [("K", srcs[0], (c + j) % NCOORD) for j in range(rng.randint(1, 3))])]
        elif shape == "alternating":
            args = [("K", srcs[c % len(srcs)], c // 2)]
        elif shape == "concat":
            args = [("L", [("K", s, (c + j) % NCOORD) for j, s in enumerate(srcs)])]
        tab[c] = args
    return tab


class Node:
    def __init__(self, id, arr, tab, preds):
        self.id, self.arr, self.tab, self.preds = id, arr, tab, preds  # preds: dict arr-name -> Node (fused) ; others unfused


def gen_tree(rng, depth, counter):
    counter[0] += 1
    arr = "a%d" % counter[0]
    shape = rng.choice(SHAPES)
    nsrc = 1 if shape in ("one", "stream", "repeated") else rng.randint(1, 3) if shape in ("several", "concat") else 2
    srcs, preds = [], {}
    for _ in range(nsrc):
        if depth > 0 and rng.random() < 0.7:
            child = gen_tree(rng, depth - 1, counter)
            srcs.append(child.arr)
            if rng.random() < 0.85:
                preds[child.arr] = child
        else:
            counter[0] += 1
            srcs.append("s%d" % counter[0])
    tab = gen_table(rng, shape, srcs)
    n = Node("n" + arr, arr, tab, preds)
    n.shape = shape
    n.srcs = srcs
    return n


def tab_to_tree(args):
    from cubed.primitive.blockwise import ChunkKey

    def conv(a):
        if a[0] == "K":
            return ChunkKey(a[1], (a[2],))
        if a[0] == "L":
            return [conv(x) for x in a[1]]
        return iter([conv(x) for x in a[1]])
    return [conv(a) for a in args]


def real_spec(node):
    """BlockwiseSpec for `node` with its fused predecessors, via the real fuse_blockwise_specs.
    One predecessor spec (or the null spec) per source array, as fuse_multiple passes them."""
    from cubed.primitive.blockwise import BlockwiseSpec, FunctionArgs, fuse_blockwise_specs

    def keyfn(k, tab=node.tab):
        return FunctionArgs(*tab_to_tree(tab[k.coords[0]]), output_name=k.name)

    def fn(*args, arr=node.arr):
        return "f_%s(%s)" % (arr, ",".join(render(a) for a in args))

    srcs = node.srcs
    base = BlockwiseSpec(keyfn, fn, (1,) * len(srcs), (1,), {}, {node.arr: None})
    if not node.preds:
        return base
    null = BlockwiseSpec(lambda x: FunctionArgs(x, output_name=x.name), lambda x: x, (1,), (1,), {}, {})
    plist = [real_spec(node.preds[a]) if a in node.preds else null for a in srcs]
    return fuse_blockwise_specs(base, *plist)


def tree_defs(node, defs):
    def show(a):
        if a[0] == "K":
            return "K:%s:%d" % (a[1], a[2])
        return "(%s %s)" % (a[0], " ".join(show(x) for x in a[1]))
    for p in node.preds.values():
        tree_defs(p, defs)
    tab = " && ".join("%d=>(F:%s %s)" % (c, node.arr, " ".join(show(a) for a in args)) for c, args in node.tab.items())
    if node.preds:
        defs.append("B b%s %s %s" % (node.id, node.arr, tab))
        defs.append("U %s b%s %s" % (node.id, node.id, ",".join(p.id for p in node.preds.values())))
    else:
        defs.append("B %s %s %s" % (node.id, node.arr, tab))


def eval_real(spec, c):
    from cubed.primitive.blockwise import ChunkKey, map_nested
    key = show_tree(spec.back_key_function(ChunkKey("out", (c,))))
    fargs = map_nested(lambda k: "%s[%s]" % (k.name, ",".join(map(str, k.coords))), spec.back_key_function(ChunkKey("out", (c,))))
    return key, spec.function(*fargs.args)


def unfused_value(node, c):
    def val(a):
        if a[0] == "K":
            if a[1] in node.preds:
                return unfused_value(node.preds[a[1]], a[2])
            return "%s[%d]" % (a[1], a[2])
        inner = ",".join(val(x) for x in a[1])
        return ("[%s]" if a[0] == "L" else "<%s>") % inner
    return "f_%s(%s)" % (node.arr, ",".join(val(a) for a in node.tab[c]))


def depth_of(node):
    return 1 + max([depth_of(p) for p in node.preds.values()], default=0)


def corr_fusion(ctx, n):
    reqs, exp, refs, infos = [], [], [], []
    for _ in range(n):
        counter = [0]
        root = gen_tree(ctx.rng, ctx.rng.randint(1, 3), counter)
        try:
            spec = real_spec(root)
        except Exception as e:  # the real fusion code refused / crashed while fusing
            ctx.fail("fuse_blockwise_specs raised %r" % (e,), {"tree": describe(root)})
            continue
        defs = []
        tree_defs(root, defs)
        for c in range(NCOORD):
            try:
                key, term = eval_real(spec, c)
            except Exception as e:
                key, term = "EXC", repr(e)
            reqs.append("fusetree|%s|%s|%d" % (";;".join(defs), root.id, c))
            exp.append("key=%s term=%s" % (key, term))
            refs.append(unfused_value(root, c))
            infos.append({"tree": describe(root), "coord": c})
    ans = ctx.lean.drive(DRIVER, reqs)
    for rq, e, a, ref, info in zip(reqs, exp, ans, refs, infos):
        ctx.count({"fusetree": info, "impl": e[:300]}, nontrivial=info["tree"]["depth"] > 1, kind="fuse:depth%d" % info["tree"]["depth"])
        ctx.dist["shape:" + info["tree"]["shape"]] += 1
        if e != a:
            ctx.disagree("fuseMultiple = fuse_blockwise_specs (key tree and symbolic value)", {"request": rq}, a, e)
        # direct oracle: the fused evaluation equals the unfused one (right-hand side of fuse_multiple_correct)
        term = e.split(" term=", 1)[1] if " term=" in e else e
        if term != ref:
            ctx.fail("fused spec computes %s, unfused evaluation is %s" % (term[:200], ref[:200]), info, key=None)


def describe(node):
    return {"arr": node.arr, "shape": node.shape, "depth": depth_of(node),
            "table": {str(c): repr(a) for c, a in list(node.tab.items())[:2]},
            "fused_preds": [describe(p) for p in node.preds.values()]}


# ----------------------------------------------------------------------------------------------
# end to end on real plans
# ----------------------------------------------------------------------------------------------

def e2e(ctx, n):
    import numpy as np

    import cubed
    import cubed.array_api as xp
    from cubed.primitive.blockwise import ChunkKey

    spec = cubed.Spec(allowed_mem="200MB", reserved_mem=0)
    for _ in range(n):
        nd = ctx.rng.randint(1, 3)
        shape = tuple(ctx.rng.randint(1, 5) for _ in range(nd))
        # second operand: broadcastable
        shape2 = tuple(s if ctx.rng.random() < 0.6 else 1 for s in shape)[ctx.rng.randint(0, nd - 1) if ctx.rng.random() < 0.3 else 0:]
        ch = tuple(ctx.rng.randint(1, s) for s in shape)
        ch2 = tuple((c if s2 == s else 1) for c, s, s2 in zip(ch[len(shape) - len(shape2):], shape[len(shape) - len(shape2):], shape2))
        an = np.arange(int(np.prod(shape)), dtype="int64").reshape(shape)
        bn = (np.arange(int(np.prod(shape2)), dtype="int64").reshape(shape2) + 1) * 100
        case = {"shape": shape, "chunks": ch, "shape2": shape2, "chunks2": ch2}
        try:
            a = xp.asarray(an, chunks=ch, spec=spec)
            b = xp.asarray(bn, chunks=ch2, spec=spec)
            c = xp.add(a, b)
            ops = [d["primitive_op"] for _, d in c._plan.dag.nodes(data=True) if d.get("primitive_op") is not None and d.get("op_name") == "blockwise"]
            res = c.compute(optimize_graph=bool(ctx.rng.getrandbits(1)))
        except Exception as e:
            ctx.fail("elementwise add raised %r" % (e,), case)
            continue
        ctx.count({"e2e_add": case}, nontrivial=int(np.prod(c.numblocks)) > 1, kind="e2e")
        if not np.array_equal(res, an + bn):
            ctx.fail("add with broadcasting returned wrong values", case)
        # key function of the add op: coordinate = out coordinate where the operand has >1 block, else 0
        op = ops[-1]
        f = op.pipeline.config.back_key_function
        for oc in itertools.product(*[range(n_) for n_ in c.numblocks]):
            fa = f(ChunkKey("out", oc))
            got = [(k.name, tuple(k.coords)) for k in fa.args[:2]]
            want = []
            for arr in (a, b):
                off = c.ndim - arr.ndim
                want.append((arr.name, tuple(oc[off + i] if arr.numblocks[i] > 1 else 0 for i in range(arr.ndim))))
            if got != want:
                ctx.fail("plan key function of add designates %s, index expression says %s" % (got, want), dict(case, out=oc))


def e2e_same_array(ctx, n):
    """the same array under two different index patterns: blockwise(f,'ij',a,'ij',a,'ji'), matmul(a, a), outer(v, v)"""
    import numpy as np

    import cubed
    import cubed.array_api as xp
    from cubed.core.ops import blockwise

    spec = cubed.Spec(allowed_mem="200MB", reserved_mem=0)
    for _ in range(n):
        m = ctx.rng.choice([2, 3, 4, 6])
        c = ctx.rng.choice([d for d in (1, 2, 3) if d <= m])
        an = (np.arange(m * m, dtype="int64").reshape(m, m) * 7 + 3) % 23
        case = {"n": m, "chunk": c}
        og = bool(ctx.rng.getrandbits(1))
        try:
            a = xp.asarray(an, chunks=(c, c), spec=spec)
            v = xp.asarray(an[0], chunks=(c,), spec=spec)
            got = {
                "a+a.T via blockwise(ij,ij,ji)": (blockwise(lambda x, y: x + y.T, "ij", a, "ij", a, "ji", dtype=an.dtype).compute(optimize_graph=og), an + an.T),
                "matmul(a,a)": (xp.matmul(a, a).compute(optimize_graph=og), an @ an),
                "outer(v,v)": (xp.linalg.outer(v, v).compute(optimize_graph=og), np.outer(an[0], an[0])),
            }
        except Exception as e:
            ctx.fail("same-array expression raised %r" % (e,), case)
            continue
        for what, (r, want) in got.items():
            ctx.count({"e2e_same_array": dict(case, expr=what)}, nontrivial=m > c, kind="e2e:same-array")
            if r.shape != want.shape or not np.array_equal(r, want):
                ctx.fail("%s returned wrong values (the same array under two index patterns)" % what, dict(case, expr=what, optimize_graph=og))


def corr(ctx):
    corr_bw(ctx)
    corr_fusion(ctx, ctx.budget(150, 1500))


def oracle(ctx):
    # independent reference for well-formed non-contracting expressions
    n = ctx.budget(300, 3000)
    for _ in range(n):
        out, args, new_axes = gen_expr(ctx.rng)
        if any(s not in out for _, ind, _ in args for s in ind):
            continue
        r = real_bw(out, args, new_axes)
        if r[0] != "fn":
            continue
        _, f, dims = r
        for k, v in new_axes.items():
            dims[k] = v
        for coords in out_grid(out, dims, 3, ctx.rng):
            got = real_key(f, coords)
            want = ref_key(out, args, new_axes, coords)
            ctx.count({"ref": bw_request(out, args, new_axes, coords)}, nontrivial=any(b > 1 for _, _, nb in args for b in nb), kind="oracle:bw")
            if got != want:
                ctx.fail("key function designates %s, index expression designates %s" % (got, want),
                         {"out_ind": out, "args": args, "new_axes": new_axes, "out_coords": list(coords)})
    e2e(ctx, ctx.budget(40, 300))
    e2e_same_array(ctx, ctx.budget(12, 80))


def search(ctx):
    ctx.rng.seed(ctx.seed + 7919)
    oracle(ctx)
    ctx.lean and corr_fusion(ctx, 400)
